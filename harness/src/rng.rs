/// SplitMix64: every random choice of the harness derives from one state seeded by VERIF_SEED.
#[derive(Clone)]
pub struct Rng(pub u64);
impl Rng {
    pub fn new(seed: u64) -> Rng {
        // The seed is mixed (SplitMix64 finaliser) so that consecutive seeds do not give streams
        // that are shifted copies of each other (the state advances by a constant per step).
        let mut z = seed.wrapping_add(0x1234_5678_9ABC_DEF1).wrapping_mul(0x9E3779B97F4A7C15);
        z = (z ^ (z >> 30)).wrapping_mul(0xBF58476D1CE4E5B9);
        z = (z ^ (z >> 27)).wrapping_mul(0x94D049BB133111EB);
        Rng(z ^ (z >> 31))
    }
    pub fn next(&mut self) -> u64 {
        self.0 = self.0.wrapping_add(0x9E3779B97F4A7C15);
        let mut z = self.0;
        z = (z ^ (z >> 30)).wrapping_mul(0xBF58476D1CE4E5B9);
        z = (z ^ (z >> 27)).wrapping_mul(0x94D049BB133111EB);
        z ^ (z >> 31)
    }
    pub fn below(&mut self, n: usize) -> usize {
        if n == 0 { 0 } else { (self.next() % n as u64) as usize }
    }
    pub fn chance(&mut self, num: usize, den: usize) -> bool {
        self.below(den) < num
    }
    pub fn pick<'a, T>(&mut self, xs: &'a [T]) -> &'a T {
        &xs[self.below(xs.len())]
    }
    pub fn fork(&mut self) -> Rng {
        Rng(self.next())
    }
}
