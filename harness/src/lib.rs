//! Shared helpers for the verification harness binaries.
pub mod rng;
