//! C01 harness: incremental re-analysis vs. from-scratch analysis (differential oracle) and
//! recorder of the dependency bookkeeping of `DesignRoot` (hook H2) for the model comparison.
//!
//! usage:
//!   c01 run <seed> <count> <max_steps> <outdir> [threads=16] [libs=mini|full]
//!   c01 replay <history.json> <outdir> [libs]      one history object, or an object with key "history"
//!   c01 corpus <file.jsonl> <outdir> [threads] [libs]   one history per non-empty line, `#` lines ignored
//!   c01 shapes <seed> <n>        development: every generated text analysed on its own
//!   c01 bench <outdir> [n]       development: cost of one Project, mini vs full standard libraries
//!
//! All modes write <outdir>/results.jsonl (one record per history, history-index order),
//! <outdir>/stats.json (generator statistics) and print
//!   histories=N steps=M compared=K skipped_dup=S mismatches=X
//! Exit code 0 unless the harness itself fails.
//!
//! A history: {"id", "libraries": {lib: [file..]}, "initial": {file: text}, "lints": bool,
//!             "steps": [{"file", "text", "kind"}]}; a file that is not listed under "libraries" is an
//! unmapped file (anonymous library `work`).  Every step = one `update_source` + one `analyse()`.
//! Record = history fields + "verdict" ("ok"|"mismatch"|"panic"), "bad_step" (index into "obs":
//! 0 = initial load, i+1 = steps[i]), "obs", "trace", "shrunk", "shrunk_bad_step".
use serde_json::{json, Map, Value};
use std::collections::{BTreeMap, BTreeSet};
use std::panic::{catch_unwind, AssertUnwindSafe};
use std::path::{Path, PathBuf};
use std::time::Instant;
use verif_harness::rng::Rng;
use vhdl_lang::{Config, Diagnostic, NullMessages, Project, Source, SrcPos};

const STD_DIR: &str = "/repo/vhdl_libraries";

// ------------------------------------------------------------------ histories

#[derive(Clone, Debug)]
struct Step {
    file: String,
    text: String,
    kind: String,
    /// how the update reaches the project: "" / "get" = Project::get_source + Source::change (what the
    /// language server does), "inline_abs" / "inline_rel" / "inline_dot" = Source::inline with the absolute
    /// path, the path relative to the current directory, "./" + that; "file_abs" / "file_rel" = the text is
    /// written to disk and read back by Source::from_latin1_file under that spelling; "libedit" = `file`
    /// names a file of the std / ieee libraries (relative to /repo/vhdl_libraries) and `text` is appended
    /// to its original contents (empty text = the original contents again)
    via: String,
}

/// the editable files of the standard libraries (libedit steps)
const LIB_FILES: [&str; 7] = [
    "std/standard.vhd",
    "std/textio.vhd",
    "std/env.vhd",
    "ieee2008/std_logic_1164.vhdl",
    "ieee2008/std_logic_1164-body.vhdl",
    "ieee2008/numeric_std.vhdl",
    "ieee2008/numeric_std-body.vhdl",
];

fn lib_text(file: &str, suffix: &str) -> String {
    let bytes = std::fs::read(Path::new(STD_DIR).join(file)).expect("read library file");
    let mut t: String = bytes.iter().map(|b| *b as char).collect();
    t.push_str(suffix);
    t
}

#[derive(Clone, Debug)]
struct History {
    id: String,
    libraries: BTreeMap<String, Vec<String>>,
    initial: BTreeMap<String, String>,
    lints: bool,
    /// ieee.numeric_std is part of the project also with the reduced standard libraries
    numeric: bool,
    steps: Vec<Step>,
}

fn simple_name(s: &str) -> bool {
    !s.is_empty()
        && s.chars()
            .all(|c| c.is_ascii_alphanumeric() || c == '_' || c == '.' || c == '-')
        && !s.starts_with('.')
}

impl History {
    fn to_map(&self) -> Map<String, Value> {
        let mut m = Map::new();
        m.insert("id".into(), json!(self.id));
        m.insert("libraries".into(), json!(self.libraries));
        m.insert("initial".into(), json!(self.initial));
        m.insert("lints".into(), json!(self.lints));
        if self.numeric {
            m.insert("numeric_std".into(), json!(true));
        }
        let steps: Vec<Value> = self
            .steps
            .iter()
            .map(|s| {
                if s.via.is_empty() {
                    json!({"file": s.file, "text": s.text, "kind": s.kind})
                } else {
                    json!({"file": s.file, "text": s.text, "kind": s.kind, "via": s.via})
                }
            })
            .collect();
        m.insert("steps".into(), Value::Array(steps));
        m
    }

    fn from_json(v: &Value, default_id: &str) -> Result<History, String> {
        let v = v.get("history").unwrap_or(v);
        let obj = v.as_object().ok_or("history is not an object")?;
        let id = obj
            .get("id")
            .and_then(|x| x.as_str())
            .unwrap_or(default_id)
            .to_string();
        let mut libraries = BTreeMap::new();
        for (lib, files) in obj
            .get("libraries")
            .and_then(|x| x.as_object())
            .ok_or("no libraries")?
        {
            if !simple_name(lib) || lib.contains('.') {
                return Err(format!("bad library name {lib}"));
            }
            let mut names = Vec::new();
            for f in files.as_array().ok_or("library files not a list")? {
                let f = f.as_str().ok_or("file name not a string")?;
                if !simple_name(f) {
                    return Err(format!("bad file name {f}"));
                }
                names.push(f.to_string());
            }
            libraries.insert(lib.clone(), names);
        }
        let mut initial = BTreeMap::new();
        if let Some(init) = obj.get("initial").and_then(|x| x.as_object()) {
            for (f, t) in init {
                initial.insert(f.clone(), t.as_str().ok_or("text not a string")?.to_string());
            }
        }
        let lints = obj.get("lints").and_then(|x| x.as_bool()).unwrap_or(true);
        let numeric = obj.get("numeric_std").and_then(|x| x.as_bool()).unwrap_or(false);
        let mut steps = Vec::new();
        if let Some(st) = obj.get("steps").and_then(|x| x.as_array()) {
            for s in st {
                let file = s
                    .get("file")
                    .and_then(|x| x.as_str())
                    .ok_or("step without file")?
                    .to_string();
                let via = s.get("via").and_then(|x| x.as_str()).unwrap_or("").to_string();
                if via == "libedit" {
                    if !LIB_FILES.contains(&file.as_str()) {
                        return Err(format!("not an editable library file: {file}"));
                    }
                } else if !simple_name(&file) {
                    return Err(format!("bad file name {file}"));
                }
                let text = s
                    .get("text")
                    .and_then(|x| x.as_str())
                    .ok_or("step without text")?
                    .to_string();
                let kind = s
                    .get("kind")
                    .and_then(|x| x.as_str())
                    .unwrap_or("replace")
                    .to_string();
                steps.push(Step { file, text, kind, via });
            }
        }
        let h = History {
            id,
            libraries,
            initial,
            lints,
            numeric,
            steps,
        };
        for t in h.initial.values().chain(h.steps.iter().map(|s| &s.text)) {
            if !t.is_ascii() {
                return Err("texts must be ASCII".into());
            }
        }
        Ok(h)
    }

    fn mapped_files(&self) -> Vec<String> {
        let mut seen = BTreeSet::new();
        let mut out = Vec::new();
        for files in self.libraries.values() {
            for f in files {
                if seen.insert(f.clone()) {
                    out.push(f.clone());
                }
            }
        }
        out
    }
}

// ------------------------------------------------------------------ projects

#[derive(Clone, Copy, PartialEq, Debug)]
enum LibsMode {
    Mini,
    Full,
}

fn config_text(h: &History, libs: LibsMode) -> String {
    let mut s = String::from("[libraries]\n");
    if libs == LibsMode::Mini {
        s.push_str(&format!("std.files = ['{STD_DIR}/std/*.vhd']\nstd.is_third_party = true\n"));
        s.push_str(&format!(
            "ieee.files = ['{STD_DIR}/ieee2008/std_logic_1164.vhdl', '{STD_DIR}/ieee2008/std_logic_1164-body.vhdl'{}]\nieee.is_third_party = true\n",
            if h.numeric {
                format!(", '{STD_DIR}/ieee2008/numeric_std.vhdl', '{STD_DIR}/ieee2008/numeric_std-body.vhdl'")
            } else {
                String::new()
            }
        ));
    }
    for (lib, files) in &h.libraries {
        let names: Vec<String> = files.iter().map(|f| format!("'{f}'")).collect();
        s.push_str(&format!("{lib}.files = [{}]\n", names.join(", ")));
    }
    s
}

fn mk_project(dir: &Path, toml: &str, libs: LibsMode, lints: bool) -> Project {
    let mut msgs = NullMessages;
    let mut cfg = Config::default();
    if libs == LibsMode::Full {
        cfg.load_external_config(&mut msgs, Some(STD_DIR.to_string()));
    }
    let c2 = Config::from_str(toml, dir).expect("config text");
    cfg.append(&c2, &mut msgs);
    let mut p = Project::from_config(cfg, &mut msgs);
    if lints {
        p.enable_all_linters();
    }
    p
}

// ------------------------------------------------------------------ observation

fn base(p: &Path) -> String {
    p.file_name()
        .map(|x| x.to_string_lossy().to_string())
        .unwrap_or_else(|| p.to_string_lossy().to_string())
}

fn range_str(p: &SrcPos) -> String {
    format!(
        "{}:{}-{}:{}",
        p.range.start.line, p.range.start.character, p.range.end.line, p.range.end.character
    )
}

fn is_unit_dup(d: &Diagnostic) -> bool {
    format!("{:?}", d.code) == "Duplicate"
        && (d.message.starts_with("A primary unit has already been declared")
            || d.message.starts_with("Duplicate architecture")
            || d.message.starts_with("Duplicate package body"))
}

#[derive(Default, Clone)]
struct Observation {
    diag: Vec<String>,
    refs: Vec<String>,
    /// a design unit name is defined in two different files of one library
    dup: bool,
    circ_files: Vec<String>,
    codes: Vec<String>,
}

fn canon_diag(d: &Diagnostic) -> String {
    let mut rel: Vec<String> = d
        .related
        .iter()
        .map(|(p, m)| format!("{}:{}:{}", base(p.source.file_name()), range_str(p), m))
        .collect();
    rel.sort();
    format!(
        "{:?}|{}|{}|{}|{}",
        d.code,
        base(d.pos.source.file_name()),
        range_str(&d.pos),
        d.message,
        rel.join(";")
    )
}

fn observe(p: &Project, diags: &[Diagnostic], dir: &Path, files: &[String]) -> Observation {
    let mut o = Observation::default();
    let mut circ = BTreeSet::new();
    for d in diags {
        o.diag.push(canon_diag(d));
        let code = format!("{:?}", d.code);
        if is_unit_dup(d) {
            let here = base(d.pos.source.file_name());
            if d.related.iter().any(|(p, _)| base(p.source.file_name()) != here) {
                o.dup = true;
            }
        }
        if code == "CircularDependency" {
            circ.insert(base(d.pos.source.file_name()));
        }
        o.codes.push(code);
    }
    o.diag.sort();
    o.circ_files = circ.into_iter().collect();
    for f in files {
        if let Some(src) = p.get_source(&dir.join(f)) {
            for (pos, ent) in p.find_all_entity_references(&src) {
                let decl = match ent.decl_pos() {
                    Some(dp) => format!("{}:{}", base(dp.source.file_name()), range_str(dp)),
                    None => "none".to_string(),
                };
                o.refs.push(format!(
                    "{}|{} -> {}|{}",
                    base(pos.source.file_name()),
                    range_str(&pos),
                    decl,
                    ent.describe()
                ));
            }
        }
    }
    o.refs.sort();
    o
}

fn std_id(s: &str) -> bool {
    s.starts_with("std|") || s.starts_with("ieee|") || s == "std" || s == "ieee"
}

fn pairs_json(v: &[(String, String)]) -> Value {
    Value::Array(
        v.iter()
            .filter(|(k, u)| !std_id(k) && !std_id(u))
            .map(|(k, u)| json!([k, u]))
            .collect(),
    )
}

fn ids_json(v: &[String]) -> Value {
    Value::Array(v.iter().filter(|x| !std_id(x)).map(|x| json!(x)).collect())
}

/// The dependency bookkeeping of the last `analyse()` of the incremental project (hook H2)
fn trace_json(p: &Project, circ_files: &[String]) -> (Value, Vec<String>, Vec<String>) {
    let root = p.verif_root();
    let t = root.verif_trace();
    let (users_of, liball, missing) = root.verif_dependency_maps();
    let units: Vec<Value> = root
        .verif_units()
        .iter()
        .filter(|(uid, _, _, _)| !std_id(uid))
        .map(|(uid, file, analyzed, circular)| json!([uid, base(Path::new(file)), analyzed, circular]))
        .collect();
    let missing_keys: Vec<String> = missing
        .iter()
        .filter(|(k, u)| !std_id(k) && !std_id(u))
        .map(|(k, _)| k.clone())
        .collect();
    let added: Vec<String> = t.added.iter().filter(|x| !std_id(x)).cloned().collect();
    let v = json!({
        "added": ids_json(&t.added),
        "removed": ids_json(&t.removed),
        "reset": ids_json(&t.reset),
        "users_of_after_reset": pairs_json(&t.users_of),
        "liball_after_reset": pairs_json(&t.users_of_library_all),
        "missing_after_reset": pairs_json(&t.missing_unit),
        "reanalyzed": ids_json(&t.reanalyzed),
        "analyzed": ids_json(&t.analyzed),
        "users_of": pairs_json(&users_of),
        "liball": pairs_json(&liball),
        "missing": pairs_json(&missing),
        "units": units,
        "circ_diag_files": circ_files,
    });
    (v, added, missing_keys)
}

fn multiset_diff(a: &[String], b: &[String]) -> (Vec<String>, Vec<String>) {
    // both sorted
    let (mut i, mut j) = (0, 0);
    let (mut only_a, mut only_b) = (Vec::new(), Vec::new());
    while i < a.len() || j < b.len() {
        if j >= b.len() || (i < a.len() && a[i] < b[j]) {
            only_a.push(a[i].clone());
            i += 1;
        } else if i >= a.len() || b[j] < a[i] {
            only_b.push(b[j].clone());
            j += 1;
        } else {
            i += 1;
            j += 1;
        }
    }
    (only_a, only_b)
}

#[derive(Default, Clone)]
struct HistStats {
    steps: usize,
    compared: usize,
    skipped_dup: usize,
    cycle: bool,
    missing_later: bool,
    lint: bool,
    unmapped: bool,
    syntax: bool,
    same_file_dup: bool,
    n_refs: usize,
    codes: BTreeMap<String, usize>,
}

struct RunResult {
    verdict: String,
    bad_step: Option<usize>,
    panic_side: Option<String>,
    obs: Vec<Value>,
    trace: Vec<Value>,
    stats: HistStats,
    first_diff: Vec<String>,
}

fn list_size(v: &[String]) -> usize {
    v.iter().map(|s| s.len() + 4).sum()
}

/// Runs one history: the incremental project step by step, a fresh project for every point.
fn run_history(h: &History, libs: LibsMode, wdir: &Path, stop_at_first: bool) -> RunResult {
    let inc_dir = wdir.join("inc");
    let fresh_dir = wdir.join("fresh");
    for d in [&inc_dir, &fresh_dir] {
        let _ = std::fs::remove_dir_all(d);
        std::fs::create_dir_all(d).expect("create work dir");
    }
    let toml = config_text(h, libs);
    let mapped = h.mapped_files();
    let mut cur: BTreeMap<String, String> = BTreeMap::new();
    for f in &mapped {
        let t = h.initial.get(f).cloned().unwrap_or_default();
        std::fs::write(inc_dir.join(f), &t).expect("write initial file");
        cur.insert(f.clone(), t);
    }
    let mut unmapped: Vec<String> = Vec::new();
    let mut lib_edits: BTreeMap<String, String> = BTreeMap::new();
    let mut res = RunResult {
        verdict: "ok".into(),
        bad_step: None,
        panic_side: None,
        obs: Vec::new(),
        trace: Vec::new(),
        stats: HistStats::default(),
        first_diff: Vec::new(),
    };
    let mut prev_missing: BTreeSet<String> = BTreeSet::new();
    let mut inc: Option<Project> = None;

    for k in 0..=h.steps.len() {
        // ---- incremental side
        let inc_result = catch_unwind(AssertUnwindSafe(|| {
            if k == 0 {
                inc = Some(mk_project(&inc_dir, &toml, libs, h.lints));
            } else {
                let st = &h.steps[k - 1];
                let p = inc.as_mut().unwrap();
                if st.via == "libedit" {
                    let path = Path::new(STD_DIR).join(&st.file);
                    let src = p.get_source(&path).expect("library file is part of the project");
                    src.change(None, &lib_text(&st.file, &st.text));
                    p.update_source(&src);
                } else {
                    let path = inc_dir.join(&st.file);
                    // the same file spelled relative to the current directory (set to the output directory)
                    let rel = std::env::current_dir()
                        .ok()
                        .and_then(|cwd| path.strip_prefix(&cwd).ok().map(|r| r.to_path_buf()));
                    let spelled = |how: &str| -> PathBuf {
                        match (how, &rel) {
                            ("rel", Some(r)) => r.clone(),
                            ("dot", Some(r)) => Path::new(".").join(r),
                            _ => path.clone(),
                        }
                    };
                    match st.via.as_str() {
                        "inline_abs" => p.update_source(&Source::inline(&spelled("abs"), &st.text)),
                        "inline_rel" => p.update_source(&Source::inline(&spelled("rel"), &st.text)),
                        "inline_dot" => p.update_source(&Source::inline(&spelled("dot"), &st.text)),
                        "file_abs" | "file_rel" => {
                            std::fs::write(&path, &st.text).expect("write updated file");
                            let sp = spelled(if st.via == "file_rel" { "rel" } else { "abs" });
                            let src = Source::from_latin1_file(&sp).expect("read updated file");
                            p.update_source(&src);
                        }
                        _ => match p.get_source(&path) {
                            Some(src) => {
                                src.change(None, &st.text);
                                p.update_source(&src);
                            }
                            None => p.update_source(&Source::inline(&path, &st.text)),
                        },
                    }
                }
            }
            let p = inc.as_mut().unwrap();
            p.analyse()
        }));
        if k > 0 {
            let st = &h.steps[k - 1];
            if st.via == "libedit" {
                lib_edits.insert(st.file.clone(), st.text.clone());
            } else {
                if !mapped.contains(&st.file) && !unmapped.contains(&st.file) {
                    unmapped.push(st.file.clone());
                    res.stats.unmapped = true;
                }
                cur.insert(st.file.clone(), st.text.clone());
            }
        }
        let inc_diags = match inc_result {
            Ok(d) => d,
            Err(_) => {
                res.verdict = "panic".into();
                res.bad_step = Some(k);
                res.panic_side = Some("inc".into());
                res.obs.push(json!({"compared": false, "skipped": null, "panic": "inc"}));
                break;
            }
        };
        let mut all_files = mapped.clone();
        all_files.extend(unmapped.iter().cloned());
        let inc_obs = catch_unwind(AssertUnwindSafe(|| {
            let p = inc.as_ref().unwrap();
            let o = observe(p, &inc_diags, &inc_dir, &all_files);
            let t = trace_json(p, &o.circ_files);
            (o, t)
        }));
        let (inc_o, (trace, added, missing_keys)) = match inc_obs {
            Ok(x) => x,
            Err(_) => {
                res.verdict = "panic".into();
                res.bad_step = Some(k);
                res.panic_side = Some("inc-observe".into());
                res.obs.push(json!({"compared": false, "skipped": null, "panic": "inc-observe"}));
                break;
            }
        };
        res.trace.push(trace);
        // a unit that was waited for (missing_unit) has arrived
        for a in &added {
            let f: Vec<&str> = a.split('|').collect();
            if f.len() == 4 && prev_missing.contains(&format!("{}|{}|{}", f[0], f[2], f[3])) {
                res.stats.missing_later = true;
            }
        }
        prev_missing = missing_keys.into_iter().collect();

        // ---- fresh side
        let fresh_result = catch_unwind(AssertUnwindSafe(|| {
            for f in &mapped {
                std::fs::write(fresh_dir.join(f), &cur[f]).expect("write fresh file");
            }
            let mut q = mk_project(&fresh_dir, &toml, libs, h.lints);
            for f in &unmapped {
                q.update_source(&Source::inline(&fresh_dir.join(f), &cur[f]));
            }
            for (f, suffix) in &lib_edits {
                let src = q.get_source(&Path::new(STD_DIR).join(f)).expect("library file is part of the project");
                src.change(None, &lib_text(f, suffix));
                q.update_source(&src);
            }
            let d = q.analyse();
            observe(&q, &d, &fresh_dir, &all_files)
        }));
        let fresh_o = match fresh_result {
            Ok(o) => o,
            Err(_) => {
                res.verdict = "panic".into();
                res.bad_step = Some(k);
                res.panic_side = Some("fresh".into());
                res.obs.push(json!({"compared": false, "skipped": null, "panic": "fresh"}));
                break;
            }
        };

        // ---- compare
        res.stats.steps += 1;
        let compared = !fresh_o.dup;
        let mut mismatch = false;
        let mut diff: Vec<String> = Vec::new();
        if compared {
            res.stats.compared += 1;
            let (d_inc, d_fresh) = multiset_diff(&inc_o.diag, &fresh_o.diag);
            let (r_inc, r_fresh) = multiset_diff(&inc_o.refs, &fresh_o.refs);
            mismatch = !(d_inc.is_empty() && d_fresh.is_empty() && r_inc.is_empty() && r_fresh.is_empty());
            for x in d_inc {
                diff.push(format!("inc:D {x}"));
            }
            for x in d_fresh {
                diff.push(format!("fresh:D {x}"));
            }
            for x in r_inc {
                diff.push(format!("inc:R {x}"));
            }
            for x in r_fresh {
                diff.push(format!("fresh:R {x}"));
            }
            diff.truncate(10);
        } else {
            res.stats.skipped_dup += 1;
        }
        for c in &inc_o.codes {
            *res.stats.codes.entry(c.clone()).or_insert(0) += 1;
            match c.as_str() {
                "CircularDependency" => res.stats.cycle = true,
                "Unused" | "MissingInSensitivityList" | "SuperfluousInSensitivityList" => res.stats.lint = true,
                "SyntaxError" => res.stats.syntax = true,
                _ => {}
            }
        }
        if compared && fresh_o.codes.iter().any(|c| c == "Duplicate") && fresh_o.diag.iter().any(|d| d.contains("already been declared") || d.contains("Duplicate architecture") || d.contains("Duplicate package body")) {
            res.stats.same_file_dup = true;
        }
        res.stats.n_refs += inc_o.refs.len();
        let mut o = Map::new();
        o.insert("compared".into(), json!(compared));
        o.insert("skipped".into(), if compared { Value::Null } else { json!("dup") });
        o.insert("n_diag".into(), json!(inc_o.diag.len()));
        o.insert("n_fresh_diag".into(), json!(fresh_o.diag.len()));
        if mismatch || list_size(&inc_o.diag) + list_size(&fresh_o.diag) <= 2048 {
            o.insert("inc_diag".into(), json!(inc_o.diag));
            o.insert("fresh_diag".into(), json!(fresh_o.diag));
        }
        o.insert("n_refs".into(), json!(inc_o.refs.len()));
        o.insert("diff".into(), json!(diff));
        res.obs.push(Value::Object(o));
        if mismatch && res.bad_step.is_none() {
            res.verdict = "mismatch".into();
            res.bad_step = Some(k);
            res.first_diff = diff;
            if stop_at_first {
                break;
            }
        }
    }
    res
}

// ------------------------------------------------------------------ shrinker

fn split_units(text: &str) -> Vec<String> {
    // generated texts separate design units by an empty line
    text.split("\n\n")
        .filter(|s| !s.trim().is_empty())
        .map(|s| {
            let mut t = s.to_string();
            if !t.ends_with('\n') {
                t.push('\n');
            }
            t
        })
        .collect()
}

struct Shrinker<'a> {
    libs: LibsMode,
    wdir: &'a Path,
    verdict: String,
    runs: usize,
    max_runs: usize,
}

impl Shrinker<'_> {
    /// does the candidate still fail in the same way?  returns the failing obs index
    fn fails(&mut self, h: &History) -> Option<(usize, Vec<String>)> {
        if self.runs >= self.max_runs {
            return None;
        }
        self.runs += 1;
        let r = run_history(h, self.libs, self.wdir, true);
        if r.verdict == self.verdict {
            r.bad_step.map(|b| (b, r.first_diff))
        } else {
            None
        }
    }
}

fn shrink(h: &History, bad_step: usize, verdict: &str, libs: LibsMode, wdir: &Path) -> Option<(History, usize, Vec<String>)> {
    let mut sh = Shrinker {
        libs,
        wdir,
        verdict: verdict.to_string(),
        runs: 0,
        max_runs: 60,
    };
    let mut best = h.clone();
    best.steps.truncate(bad_step);
    let (mut best_bad, mut best_diff) = sh.fails(&best)?;
    // 1. steps: remove chunks, halving the chunk size
    let mut chunk = std::cmp::max(1, best.steps.len() / 2);
    loop {
        let mut i = 0;
        while i < best.steps.len() {
            let mut cand = best.clone();
            let end = std::cmp::min(i + chunk, cand.steps.len());
            cand.steps.drain(i..end);
            if let Some((b, d)) = sh.fails(&cand) {
                cand.steps.truncate(b);
                best = cand;
                best_bad = b;
                best_diff = d;
            } else {
                i += chunk;
            }
        }
        if chunk == 1 {
            break;
        }
        chunk /= 2;
    }
    // 2. files: drop a file altogether
    let mut names: Vec<String> = best.mapped_files();
    for s in &best.steps {
        if !names.contains(&s.file) {
            names.push(s.file.clone());
        }
    }
    for f in names {
        let mut cand = best.clone();
        for files in cand.libraries.values_mut() {
            files.retain(|x| *x != f);
        }
        cand.initial.remove(&f);
        cand.steps.retain(|s| s.file != f);
        if let Some((b, d)) = sh.fails(&cand) {
            cand.steps.truncate(b);
            best = cand;
            best_bad = b;
            best_diff = d;
        }
    }
    // 3. texts: remove one design unit (generated texts separate units by an empty line)
    let mut slots: Vec<(Option<usize>, String)> = best.initial.keys().map(|f| (None, f.clone())).collect();
    for i in 0..best.steps.len() {
        slots.push((Some(i), String::new()));
    }
    for (step, file) in slots {
        let text = match step {
            Some(i) if i < best.steps.len() => best.steps[i].text.clone(),
            Some(_) => continue,
            None => match best.initial.get(&file) {
                Some(t) => t.clone(),
                None => continue,
            },
        };
        let units = split_units(&text);
        if units.len() < 2 {
            if !text.is_empty() && step.is_none() {
                // try an empty initial text
                let mut cand = best.clone();
                cand.initial.insert(file.clone(), String::new());
                if let Some((b, d)) = sh.fails(&cand) {
                    cand.steps.truncate(b);
                    best = cand;
                    best_bad = b;
                    best_diff = d;
                }
            }
            continue;
        }
        for drop in 0..units.len() {
            let t: Vec<String> = units
                .iter()
                .enumerate()
                .filter(|(j, _)| *j != drop)
                .map(|(_, u)| u.clone())
                .collect();
            let t = t.join("\n");
            let mut cand = best.clone();
            match step {
                Some(i) => cand.steps[i].text = t,
                None => {
                    cand.initial.insert(file.clone(), t);
                }
            }
            if let Some((b, d)) = sh.fails(&cand) {
                cand.steps.truncate(b);
                best = cand;
                best_bad = b;
                best_diff = d;
                break;
            }
        }
    }
    best.id = format!("{}-shrunk", h.id);
    Some((best, best_bad, best_diff))
}

// ------------------------------------------------------------------ generator

const NP: usize = 4; // packages p0..p3
const NE: usize = 3; // entities e0..e2
const N2: usize = 2; // ctx, cfg, gp, ip

struct GenCx<'a> {
    /// library of the file; None: unmapped file (anonymous library work)
    own: Option<&'a str>,
    libs: &'a [String],
    /// index of the file within its library
    idx: usize,
    /// aim the references at the names which another file defines by preference:
    /// (library of that file, its index there)
    target: Option<(&'a str, usize)>,
    /// number of files of the own library
    nlib: usize,
}

/// a library prefix for a reference and the library clause it needs
fn pick_lib(rng: &mut Rng, cx: &GenCx) -> (Option<String>, String) {
    if let Some((l, _)) = cx.target {
        if Some(l) == cx.own && rng.chance(9, 10) {
            return (None, "work".to_string());
        }
        return (Some(l.to_string()), l.to_string());
    }
    let others: Vec<&String> = cx.libs.iter().filter(|l| Some(l.as_str()) != cx.own).collect();
    let r = rng.below(100);
    if r < 45 || others.is_empty() {
        (None, "work".to_string())
    } else if r < 92 || cx.own.is_none() {
        let l = (*rng.pick(&others)).clone();
        (Some(l.clone()), l)
    } else {
        let l = cx.own.unwrap().to_string();
        (Some(l.clone()), l)
    }
}

/// an explicitly named library (context declarations may not mention work)
fn pick_named_lib(rng: &mut Rng, cx: &GenCx) -> String {
    rng.pick(cx.libs).clone()
}

/// index of a defined name: the file's own index in its library (so that the files of a library
/// rarely define one name twice); None: the pool has no name for this file, draw another shape
fn def_idx(rng: &mut Rng, cx: &GenCx, n: usize) -> Option<usize> {
    if cx.idx < n {
        if rng.chance(98, 100) {
            Some(cx.idx)
        } else {
            Some(rng.below(n))
        }
    } else if rng.chance(1, 20) {
        Some(rng.below(n))
    } else {
        None
    }
}

/// index of a referenced name: biased towards the names that the first files of a library define
fn ref_idx(rng: &mut Rng, cx: &GenCx, n: usize) -> usize {
    if let Some((_, i)) = cx.target {
        return i % n;
    }
    if rng.chance(3, 5) {
        rng.below(std::cmp::min(2, n))
    } else {
        rng.below(n)
    }
}

/// the primary unit of a lone secondary unit: mostly the name that another file of the library
/// defines by preference, so that primary and secondary units live in different files
fn sec_idx(rng: &mut Rng, cx: &GenCx, n: usize) -> usize {
    let r = rng.below(10);
    if r < 6 && cx.nlib > 1 {
        let mut j = rng.below(cx.nlib - 1);
        if j >= cx.idx {
            j += 1;
        }
        j % n
    } else if r < 9 {
        cx.idx % n
    } else {
        rng.below(n)
    }
}

fn lib_clause(l: &Option<String>) -> String {
    match l {
        Some(l) => format!("library {l};\n"),
        None => String::new(),
    }
}

const PORTS: &str = "  port (a : in bit; q : out bit);\n";

fn entity_text(name: &str) -> String {
    format!("entity {name} is\n{PORTS}end entity;\n")
}

fn arch_text(rng: &mut Rng, ent: &str, lone: bool) -> String {
    // an architecture in a file of its own is often a second architecture
    let aname = if rng.chance(if lone { 4 } else { 1 }, 9) { "alt" } else { "rtl" };
    let unused = if rng.chance(3, 4) {
        format!("  signal unused_{} : bit;\n", rng.below(3))
    } else {
        String::new()
    };
    let (sens, body) = match rng.below(3) {
        0 => ("(a)", "q <= a and s;"),
        1 => ("(a, s)", "q <= a;"),
        _ => ("(a, s)", "q <= a and s;"),
    };
    format!(
        "architecture {aname} of {ent} is\n  signal s : bit;\n{unused}begin\n  s <= a;\n  p_main : process {sens}\n  begin\n    {body}\n  end process;\nend architecture;\n"
    )
}

fn pkg_decl_text(k: usize) -> String {
    format!("package p{k} is\n  constant c{k} : integer;\n  function f{k}(x : integer) return integer;\nend package;\n")
}

fn pkg_body_text(b: usize, uses: &str, init: &str) -> String {
    format!(
        "{uses}package body p{b} is\n  constant c{b} : integer := {init};\n  function f{b}(x : integer) return integer is\n  begin\n    return x + 1;\n  end function;\nend package body;\n"
    )
}

fn inst_arch_text(rng: &mut Rng, cx: &GenCx, ent: &str) -> String {
    let (lc, lib) = pick_lib(rng, cx);
    let t = ref_idx(rng, cx, NE);
    let mut decl = String::new();
    let mut clause = lib_clause(&lc);
    let inst = match rng.below(5) {
        0 | 1 => format!("  u0 : entity {lib}.e{t} port map (a => x, q => y);\n"),
        2 => {
            let an = if rng.chance(1, 4) { "alt" } else { "rtl" };
            format!("  u0 : entity {lib}.e{t}({an}) port map (a => x, q => y);\n")
        }
        3 => {
            clause = String::new();
            decl = format!("  component e{t} is\n  {PORTS}  end component;\n");
            format!("  u0 : e{t} port map (a => x, q => y);\n")
        }
        _ => format!("  u0 : configuration {lib}.cfg{} port map (a => x, q => y);\n", rng.below(N2)),
    };
    let unused = if rng.chance(1, 2) { "  signal unused_i : bit;\n" } else { "" };
    format!(
        "{clause}architecture rtl of {ent} is\n  signal x : bit;\n  signal y : bit;\n{unused}{decl}begin\n  x <= a;\n  q <= y;\n{inst}end architecture;\n"
    )
}

/// One design unit (or a primary unit with its secondary unit); returns the text and the names it defines
fn gen_unit(rng: &mut Rng, cx: &GenCx) -> (String, Vec<String>) {
    loop {
        if let Some(r) = try_gen_unit(rng, cx) {
            return r;
        }
    }
}

fn try_gen_unit(rng: &mut Rng, cx: &GenCx) -> Option<(String, Vec<String>)> {
    let k = def_idx(rng, cx, NP)?;
    let x = ref_idx(rng, cx, NP);
    let (lc, lib) = pick_lib(rng, cx);
    let clause = lib_clause(&lc);
    let shape = if cx.target.is_some() && rng.chance(3, 4) {
        // the shapes that refer to a package of the target
        10 + rng.below(37)
    } else {
        rng.below(150)
    };
    Some(match shape {
        // 1 plain package
        0..=9 => (
            format!("package p{k} is\n  constant c{k} : integer := {};\nend package;\n", rng.below(5)),
            vec![format!("P:p{k}")],
        ),
        // 2 use all
        10..=23 => (
            format!("{clause}use {lib}.p{x}.all;\npackage p{k} is\n  constant c{k} : integer := c{x};\nend package;\n"),
            vec![format!("P:p{k}")],
        ),
        // 3 selected name
        24..=31 => (
            format!("{clause}package p{k} is\n  constant c{k} : integer := {lib}.p{x}.c{x};\nend package;\n"),
            vec![format!("P:p{k}")],
        ),
        // 4 use item
        32..=37 => (
            format!("{clause}use {lib}.p{x}.c{x};\npackage p{k} is\n  constant c{k} : integer := c{x} + 1;\nend package;\n"),
            vec![format!("P:p{k}")],
        ),
        // 5 use library.all
        38..=46 => (
            format!("{clause}use {lib}.all;\npackage p{k} is\n  constant c{k} : integer := p{x}.c{x};\nend package;\n"),
            vec![format!("P:p{k}")],
        ),
        // 6 deferred constant, body in the same file / elsewhere / body alone
        47..=63 => {
            let decl = pkg_decl_text(k);
            let which = rng.below(17);
            // a lone body mostly belongs to the package of another file
            let b = if which >= 10 { sec_idx(rng, cx, NP) } else { k };
            let (uses, init) = if rng.chance(1, 3) {
                (format!("{clause}use {lib}.p{x}.all;\n"), format!("c{x}"))
            } else {
                (String::new(), format!("{}", 1 + rng.below(7)))
            };
            let body = pkg_body_text(b, &uses, &init);
            if which < 6 {
                (format!("{decl}\n{body}"), vec![format!("P:p{k}"), format!("B:p{k}")])
            } else if which < 10 {
                (decl, vec![format!("P:p{k}")])
            } else {
                (body, vec![format!("B:p{b}")])
            }
        }
        // 7 entity / architecture with lint material
        64..=85 => {
            let which = rng.below(22);
            if which < 5 {
                let e = def_idx(rng, cx, NE)?;
                let a = arch_text(rng, &format!("e{e}"), false);
                (
                    format!("{}\n{}", entity_text(&format!("e{e}")), a),
                    vec![format!("P:e{e}"), format!("A:e{e}")],
                )
            } else if which < 13 {
                let e = def_idx(rng, cx, NE)?;
                (entity_text(&format!("e{e}")), vec![format!("P:e{e}")])
            } else {
                let t = sec_idx(rng, cx, NE);
                (arch_text(rng, &format!("e{t}"), true), vec![format!("A:e{t}")])
            }
        }
        // 8 instantiating architecture
        86..=97 => {
            if rng.chance(1, 2) {
                let e = def_idx(rng, cx, NE)?;
                let a = inst_arch_text(rng, cx, &format!("e{e}"));
                (
                    format!("{}\n{}", entity_text(&format!("e{e}")), a),
                    vec![format!("P:e{e}"), format!("A:e{e}")],
                )
            } else {
                let t = sec_idx(rng, cx, NE);
                (inst_arch_text(rng, cx, &format!("e{t}")), vec![format!("A:e{t}")])
            }
        }
        // 9 configuration
        98..=103 => {
            let n = def_idx(rng, cx, N2)?;
            let t = ref_idx(rng, cx, NE);
            let pre = if rng.chance(1, 3) { "work." } else { "" };
            let an = if rng.chance(1, 4) { "alt" } else { "rtl" };
            (
                format!("configuration cfg{n} of {pre}e{t} is\n  for {an}\n  end for;\nend configuration;\n"),
                vec![format!("P:cfg{n}")],
            )
        }
        // 10 context declaration / context reference
        104..=109 => {
            let n = def_idx(rng, cx, N2)?;
            let l = pick_named_lib(rng, cx);
            let t = if rng.chance(1, 2) { n } else { n + 2 };
            (
                format!("context ctx{n} is\n  library {l};\n  use {l}.p{t}.all;\nend context;\n"),
                vec![format!("P:ctx{n}")],
            )
        }
        110..=116 => {
            let n = rng.below(N2);
            let t = if rng.chance(1, 2) { n } else { n + 2 };
            (
                format!("{clause}context {lib}.ctx{n};\npackage p{k} is\n  constant c{k} : integer := c{t};\nend package;\n"),
                vec![format!("P:p{k}")],
            )
        }
        // 11 generic package, instance, user of the instance
        117..=120 => {
            let n = def_idx(rng, cx, N2)?;
            (
                format!("package gp{n} is\n  generic (k : integer := 1);\n  constant c : integer := k;\nend package;\n"),
                vec![format!("P:gp{n}")],
            )
        }
        121..=126 => {
            let n = def_idx(rng, cx, N2)?;
            let g = rng.below(N2);
            (
                format!("{clause}package ip{n} is new {lib}.gp{g} generic map (k => {});\n", 2 + rng.below(3)),
                vec![format!("P:ip{n}")],
            )
        }
        127..=132 => {
            let n = ref_idx(rng, cx, N2);
            (
                format!("{clause}package p{k} is\n  constant c{k} : integer := {lib}.ip{n}.c;\nend package;\n"),
                vec![format!("P:p{k}")],
            )
        }
        // 12 the same name with another kind
        133..=137 => (entity_text(&format!("p{k}")), vec![format!("P:p{k}")]),
        138..=140 => {
            let e = def_idx(rng, cx, NE)?;
            (
                format!("package e{e} is\n  constant c{e} : integer := 0;\nend package;\n"),
                vec![format!("P:e{e}")],
            )
        }
        // ieee user
        141..=145 => (
            format!("library ieee;\nuse ieee.std_logic_1164.all;\npackage p{k} is\n  constant c{k} : integer := 2;\n  constant sl{k} : std_logic := '1';\n  constant sv{k} : std_logic_vector(1 downto 0) := \"01\";\nend package;\n"),
            vec![format!("P:p{k}")],
        ),
        // mutual dependency with the neighbour name
        _ => {
            let o = (k + 1) % NP;
            (
                format!("use work.p{o}.all;\npackage p{k} is\n  constant c{k} : integer := c{o};\nend package;\n"),
                vec![format!("P:p{k}")],
            )
        }
    })
}

/// One text of a file: 1-2 design units, sometimes empty, rarely broken
fn gen_variant(rng: &mut Rng, cx: &GenCx) -> String {
    let r = rng.below(100);
    if r < 6 {
        return String::new();
    }
    let n = if rng.chance(6, 10) { 1 } else { 2 };
    let mut defined: BTreeSet<String> = BTreeSet::new();
    let mut parts: Vec<String> = Vec::new();
    while parts.len() < n {
        let mut tries = 0;
        loop {
            let (t, names) = gen_unit(rng, cx);
            tries += 1;
            let clash = names.iter().any(|x| defined.contains(x));
            if !clash || tries > 30 || rng.chance(1, 150) {
                defined.extend(names);
                parts.push(t);
                break;
            }
        }
    }
    let text = parts.join("\n");
    if r >= 97 && text.len() > 8 {
        // 14: a truncated text
        let cut = 4 + rng.below(text.len() - 8);
        return text[..cut].to_string();
    }
    text
}

// ------------------------------------------------------------------ chain scenarios
//
// Structured histories (a quarter of all histories) in which the effect of a change has to travel
// over a chain of units:  D (defines what is missing) <- U (reads it through `use lib.all`, through a
// still missing `lib.pkg`, through a package that gets / loses its body, through a still missing
// architecture) <- W (another file, uses what U declares) <- X.  The file of D is filled, emptied and
// restored.  And the duplicate scenario: a file with three units is copied to a second file of the
// library (all three parked as duplicates), then the original is emptied: all parked units have to be
// re-admitted.

fn scenario_steps(
    rng: &mut Rng,
    file: &str,
    present: &str,
    alt: Option<String>,
    initially_present: bool,
    max_steps: usize,
) -> Vec<Step> {
    let mut steps = Vec::new();
    let mut is_present = initially_present;
    let n = std::cmp::max(1, std::cmp::min(max_steps, 2 + rng.below(4)));
    let mut first = true;
    while steps.len() < n {
        if is_present {
            if !first && alt.is_some() && rng.chance(1, 4) {
                steps.push(Step { file: file.into(), text: alt.clone().unwrap(), kind: "replace".into(), via: String::new() });
            } else {
                steps.push(Step { file: file.into(), text: String::new(), kind: "empty".into(), via: String::new() });
                is_present = false;
            }
        } else {
            steps.push(Step {
                file: file.into(),
                text: present.into(),
                kind: if first { "replace".into() } else { "restore".into() },
                via: String::new(),
            });
            is_present = true;
        }
        first = false;
    }
    steps
}

fn gen_scenario(rng: &mut Rng, id: String, max_steps: usize) -> History {
    let mut libraries: BTreeMap<String, Vec<String>> = BTreeMap::new();
    let mut initial: BTreeMap<String, String> = BTreeMap::new();
    let lints = rng.chance(9, 10);
    let steps: Vec<Step>;
    // W and X: users of what U declares, in other files (W sometimes in another library)
    let w_other_lib = rng.chance(1, 3);
    let w_prefix = if w_other_lib { "library lib_a;\nuse lib_a.u0.all;\n" } else { "use work.u0.all;\n" };
    let x_text = |wlib: &str| -> String {
        format!(
            "library {wlib};\nentity x0 is\nend entity;\narchitecture a of x0 is\n  signal s : integer := {wlib}.w0.cw;\nbegin\nend architecture;\n"
        )
    };
    match rng.below(8) {
        0 | 1 | 2 => {
            // D = lib_b.pkg1; U sees it through `use lib_b.all` / `use lib_b.pkg1.all` / a selected name
            let d = "package pkg1 is\n  subtype t1 is integer range 0 to 7;\n  constant k : t1 := 3;\nend package;\n";
            let d_alt = "package pkg1 is\n  subtype t1 is integer range 0 to 15;\n  constant k : t1 := 9;\n  constant k3 : t1 := 1;\nend package;\n";
            let (u, w_expr) = match rng.below(5) {
                0 => ("library lib_b;\nuse lib_b.all;\npackage u0 is\n  subtype t is pkg1.t1;\n  constant cu : t := pkg1.k;\nend package;\n", "cu + 1"),
                1 => ("library lib_b;\nuse lib_b.all;\npackage u0 is\n  alias k2 is pkg1.k;\nend package;\n", "k2 + 1"),
                2 => ("library lib_b;\nuse lib_b.pkg1.all;\npackage u0 is\n  constant cu : t1 := k;\nend package;\n", "cu + 1"),
                3 => ("library lib_b;\npackage u0 is\n  constant cu : lib_b.pkg1.t1 := lib_b.pkg1.k;\nend package;\n", "cu + 1"),
                _ => ("library lib_b;\nuse lib_b.all;\npackage u0 is\n  function fu(x : pkg1.t1) return integer;\nend package;\npackage body u0 is\n  function fu(x : pkg1.t1) return integer is\n  begin\n    return x + pkg1.k;\n  end function;\nend package body;\n", "fu(1)"),
            };
            let w = format!("{w_prefix}package w0 is\n  constant cw : integer := {w_expr};\nend package;\n");
            let wlib = if w_other_lib { "lib_c" } else { "lib_a" };
            libraries.insert("lib_b".into(), vec!["d.vhd".into(), "q.vhd".into()]);
            initial.insert("q.vhd".into(), "package q9 is\n  constant c9 : integer := 9;\nend package;\n".into());
            let mut a_files = vec!["u.vhd".to_string()];
            initial.insert("u.vhd".into(), u.into());
            if w_other_lib {
                libraries.insert("lib_c".into(), vec!["w.vhd".into(), "x.vhd".into()]);
            } else {
                a_files.push("w.vhd".into());
                a_files.push("x.vhd".into());
            }
            libraries.insert("lib_a".into(), a_files);
            initial.insert("w.vhd".into(), w);
            initial.insert("x.vhd".into(), if rng.chance(2, 3) { x_text(wlib) } else { String::new() });
            let present0 = rng.chance(1, 3);
            initial.insert("d.vhd".into(), if present0 { d.into() } else { String::new() });
            steps = scenario_steps(rng, "d.vhd", d, Some(d_alt.into()), present0, max_steps);
        }
        3 | 4 => {
            // package-body sensitivity: pk <- u0 <- w0 <- x0, the body of pk comes and goes
            let p = "package pk is\n  constant c : integer;\n  function f(x : integer) return integer;\nend package;\n";
            let b = "package body pk is\n  constant c : integer := 5;\n  function f(x : integer) return integer is\n  begin\n    return x + c;\n  end function;\nend package body;\n";
            let b_alt = "package body pk is\n  constant c : integer := 6;\n  function f(x : integer) return integer is\n  begin\n    return x;\n  end function;\nend package body;\n";
            let u = "use work.pk.all;\npackage u0 is\n  constant cu : integer := f(c);\nend package;\n";
            let w = format!("{w_prefix}package w0 is\n  constant cw : integer := cu + 1;\nend package;\n");
            let wlib = if w_other_lib { "lib_c" } else { "lib_a" };
            let mut a_files: Vec<String> = vec!["p.vhd".into(), "b.vhd".into(), "u.vhd".into()];
            if w_other_lib {
                libraries.insert("lib_c".into(), vec!["w.vhd".into(), "x.vhd".into()]);
            } else {
                a_files.push("w.vhd".into());
                a_files.push("x.vhd".into());
            }
            libraries.insert("lib_a".into(), a_files);
            libraries.insert("lib_b".into(), vec!["q.vhd".into()]);
            initial.insert("q.vhd".into(), "package q9 is\n  constant c9 : integer := 9;\nend package;\n".into());
            initial.insert("p.vhd".into(), p.into());
            initial.insert("u.vhd".into(), u.into());
            initial.insert("w.vhd".into(), w);
            initial.insert("x.vhd".into(), x_text(wlib));
            let present0 = rng.chance(1, 2);
            initial.insert("b.vhd".into(), if present0 { b.into() } else { String::new() });
            steps = scenario_steps(rng, "b.vhd", b, Some(b_alt.into()), present0, max_steps);
        }
        5 | 6 => {
            // a still missing secondary (or primary) unit named in an instantiation:
            // e1(rtl) <- architecture str of top0 <- configuration cfg0 <- x0
            let e = "entity e1 is\n  port (a : in bit; q : out bit);\nend entity;\n";
            let a = "architecture rtl of e1 is\nbegin\n  q <= a;\nend architecture;\n";
            let a_alt = "architecture rtl of e1 is\n  signal m : bit;\nbegin\n  m <= a;\n  q <= m;\nend architecture;\n";
            let top = "entity top0 is\nend entity;\narchitecture str of top0 is\n  signal s, t : bit;\nbegin\n  u1 : entity work.e1(rtl) port map (a => s, q => t);\nend architecture;\n";
            let cfg = "configuration cfg0 of top0 is\n  for str\n  end for;\nend configuration;\n";
            let x = "entity x0 is\nend entity;\narchitecture a of x0 is\nbegin\n  u2 : configuration work.cfg0;\nend architecture;\n";
            libraries.insert(
                "lib_a".into(),
                vec!["e.vhd".into(), "a.vhd".into(), "top.vhd".into(), "cfg.vhd".into(), "x.vhd".into()],
            );
            libraries.insert("lib_b".into(), vec!["q.vhd".into()]);
            initial.insert("q.vhd".into(), "package q9 is\n  constant c9 : integer := 9;\nend package;\n".into());
            initial.insert("top.vhd".into(), top.into());
            initial.insert("cfg.vhd".into(), cfg.into());
            initial.insert("x.vhd".into(), x.into());
            let present0 = rng.chance(1, 3);
            if rng.chance(2, 3) {
                // the architecture is what comes and goes
                initial.insert("e.vhd".into(), e.into());
                initial.insert("a.vhd".into(), if present0 { a.into() } else { String::new() });
                steps = scenario_steps(rng, "a.vhd", a, Some(a_alt.into()), present0, max_steps);
            } else {
                // the entity is what comes and goes (the architecture stays)
                initial.insert("a.vhd".into(), a.into());
                initial.insert("e.vhd".into(), if present0 { e.into() } else { String::new() });
                steps = scenario_steps(rng, "e.vhd", e, None, present0, max_steps);
            }
        }
        _ => {
            // three units of one file parked as duplicates of another file's units, then re-admitted
            let t = "package da is\n  constant ca : integer := 1;\nend package;\n\nuse work.da.all;\npackage db is\n  constant cb : integer := ca + 1;\nend package;\n\nentity dc is\n  port (a : in bit; q : out bit);\nend entity;\n";
            let t4 = format!("{t}\narchitecture rtl of dc is\nbegin\n  q <= a;\nend architecture;\n");
            let t = if rng.chance(1, 2) { t.to_string() } else { t4 };
            let z = "use work.da.all;\nuse work.db.all;\npackage z0 is\n  constant cz : integer := ca + cb;\nend package;\n\nentity z1 is\nend entity;\narchitecture a of z1 is\n  signal s, t : bit;\nbegin\n  u1 : entity work.dc port map (a => s, q => t);\nend architecture;\n";
            libraries.insert("lib_a".into(), vec!["x.vhd".into(), "y.vhd".into(), "z.vhd".into()]);
            libraries.insert("lib_b".into(), vec!["q.vhd".into()]);
            initial.insert("q.vhd".into(), "package q9 is\n  constant c9 : integer := 9;\nend package;\n".into());
            initial.insert("z.vhd".into(), z.into());
            initial.insert("x.vhd".into(), t.clone());
            let mut st: Vec<Step> = Vec::new();
            let both = rng.chance(1, 3);
            if both {
                // the copy exists from the start: which file wins is arrival order, emptying either must work
                initial.insert("y.vhd".into(), t.clone());
            } else {
                initial.insert("y.vhd".into(), if rng.chance(1, 2) { String::new() } else { "package yy is\nend package;\n".into() });
                st.push(Step { file: "y.vhd".into(), text: t.clone(), kind: "replace".into(), via: String::new() });
            }
            let (first, second) = if rng.chance(2, 3) { ("x.vhd", "y.vhd") } else { ("y.vhd", "x.vhd") };
            st.push(Step { file: first.into(), text: String::new(), kind: "empty".into(), via: String::new() });
            st.push(Step { file: first.into(), text: t.clone(), kind: "restore".into(), via: String::new() });
            st.push(Step { file: second.into(), text: String::new(), kind: "empty".into(), via: String::new() });
            st.push(Step { file: second.into(), text: t.clone(), kind: "restore".into(), via: String::new() });
            st.push(Step { file: first.into(), text: String::new(), kind: "empty".into(), via: String::new() });
            st.truncate(std::cmp::max(2, std::cmp::min(max_steps, 2 + rng.below(5))));
            steps = st;
        }
    }
    History { id, libraries, initial, lints, numeric: false, steps }
}


// Scenarios for worlds with same-named units in two libraries (missing units that arrive in either
// order) and for `use lib.all` combined with the direct instantiation of a secondary unit
// (entity(architecture)) whose file is edited in place so that only positions move.
fn gen_scenario2(rng: &mut Rng, id: String, max_steps: usize) -> History {
    let mut libraries: BTreeMap<String, Vec<String>> = BTreeMap::new();
    let mut initial: BTreeMap<String, String> = BTreeMap::new();
    let lints = rng.chance(9, 10);
    let mut steps: Vec<Step> = Vec::new();
    let n = std::cmp::max(1, std::cmp::min(max_steps, 2 + rng.below(5)));
    if rng.chance(1, 2) {
        // one user of lib_b.X and lib_c.X (same unit name); the two definitions come and go independently
        let first_b = rng.chance(1, 2);
        let (t1, t2, user): (String, String, String);
        let secondary = rng.chance(2, 5);
        if !secondary {
            t1 = "package pkg is\n  constant c1 : integer := 1;\nend package;\n".into();
            t2 = "package pkg is\n  constant c2 : integer := 2;\nend package;\n".into();
            let (l1, l2) = if first_b {
                ("lib_b.pkg.c1", "lib_c.pkg.c2")
            } else {
                ("lib_c.pkg.c2", "lib_b.pkg.c1")
            };
            user = match rng.below(3) {
                0 => format!("library lib_b;\nlibrary lib_c;\npackage user0 is\n  constant x1 : integer := {l1};\n  constant x2 : integer := {l2};\nend package;\n"),
                1 => format!("library lib_b;\nlibrary lib_c;\nuse {l1};\nuse {l2};\npackage user0 is\n  constant x : integer := c1 + c2;\nend package;\n"),
                _ => format!("library lib_b;\nlibrary lib_c;\nentity user0 is\nend entity;\narchitecture a of user0 is\n  signal s1 : integer := {l1};\n  signal s2 : integer := {l2};\nbegin\nend architecture;\n"),
            };
            libraries.insert("lib_b".into(), vec!["p1.vhd".into()]);
            libraries.insert("lib_c".into(), vec!["p2.vhd".into()]);
        } else {
            let e = "entity ent is\n  port (a : in bit; q : out bit);\nend entity;\n";
            t1 = "architecture a1 of ent is\nbegin\n  q <= a;\nend architecture;\n".into();
            t2 = "architecture a1 of ent is\nbegin\n  q <= not a;\nend architecture;\n".into();
            let (l1, l2) = if first_b { ("lib_b", "lib_c") } else { ("lib_c", "lib_b") };
            user = format!("library lib_b;\nlibrary lib_c;\nentity user0 is\nend entity;\narchitecture a of user0 is\n  signal s, t1, t2 : bit;\nbegin\n  u1 : entity {l1}.ent(a1) port map (a => s, q => t1);\n  u2 : entity {l2}.ent(a1) port map (a => s, q => t2);\nend architecture;\n");
            libraries.insert("lib_b".into(), vec!["e1.vhd".into(), "p1.vhd".into()]);
            libraries.insert("lib_c".into(), vec!["e2.vhd".into(), "p2.vhd".into()]);
            initial.insert("e1.vhd".into(), e.into());
            initial.insert("e2.vhd".into(), e.into());
        }
        libraries.insert("lib_a".into(), vec!["user.vhd".into(), "w.vhd".into()]);
        initial.insert("user.vhd".into(), user);
        initial.insert(
            "w.vhd".into(),
            if rng.chance(1, 2) { "package w9 is\n  constant c9 : integer := 9;\nend package;\n".into() } else { String::new() },
        );
        let mut present = [rng.chance(1, 2), rng.chance(1, 2)];
        initial.insert("p1.vhd".into(), if present[0] { t1.clone() } else { String::new() });
        initial.insert("p2.vhd".into(), if present[1] { t2.clone() } else { String::new() });
        let mut seen = [present[0], present[1]];
        while steps.len() < n {
            // prefer: make both missing, then let one of them come back
            let i = if present[0] && present[1] { rng.below(2) } else if present[0] { 0 } else if present[1] { 1 } else { rng.below(2) };
            let (f, t) = if i == 0 { ("p1.vhd", &t1) } else { ("p2.vhd", &t2) };
            if present[i] {
                steps.push(Step { file: f.into(), text: String::new(), kind: "empty".into(), via: String::new() });
            } else {
                steps.push(Step { file: f.into(), text: t.clone(), kind: if seen[i] { "restore".into() } else { "replace".into() }, via: String::new() });
                seen[i] = true;
            }
            present[i] = !present[i];
        }
    } else {
        // `use lib_b.all` + entity lib_b.ent(rtl); the file of the architecture is edited in place
        let e = "entity ent is\n  port (a : in bit; q : out bit);\nend entity;\n";
        let a0 = "architecture rtl of ent is\nbegin\n  q <= a;\nend architecture;\n";
        let a1 = "architecture rtl of ent is\n  signal m : bit;\nbegin\n  m <= a;\n  q <= m;\nend architecture;\n";
        let inst = if rng.chance(3, 4) { "entity lib_b.ent(rtl)" } else { "entity lib_b.ent" };
        let top = match rng.below(4) {
            0 => format!("entity top0 is\nend entity;\n\nlibrary lib_b;\nuse lib_b.all;\narchitecture str of top0 is\n  signal s, t : bit;\nbegin\n  u1 : {inst} port map (a => s, q => t);\nend architecture;\n"),
            1 => format!("library lib_b;\nentity top0 is\nend entity;\n\narchitecture str of top0 is\n  use lib_b.all;\n  signal s, t : bit;\nbegin\n  u1 : {inst} port map (a => s, q => t);\nend architecture;\n"),
            2 => format!("library lib_b;\nuse lib_b.all;\nentity top0 is\nend entity;\n\narchitecture str of top0 is\n  signal s, t : bit;\nbegin\n  u1 : {inst} port map (a => s, q => t);\nend architecture;\n"),
            _ => format!("library lib_b;\nentity top0 is\nend entity;\n\narchitecture str of top0 is\n  signal s, t : bit;\nbegin\n  u1 : {inst} port map (a => s, q => t);\nend architecture;\n"),
        };
        libraries.insert("lib_a".into(), vec!["top.vhd".into()]);
        libraries.insert("lib_b".into(), vec!["e.vhd".into(), "a.vhd".into(), "o.vhd".into()]);
        initial.insert("top.vhd".into(), top);
        initial.insert("e.vhd".into(), e.into());
        initial.insert("a.vhd".into(), a0.into());
        initial.insert("o.vhd".into(), "package o9 is\n  constant c9 : integer := 9;\nend package;\n".into());
        let mut cur_a = a0.to_string();
        let mut cur_e = e.to_string();
        while steps.len() < n {
            match rng.below(10) {
                0..=4 => {
                    // move the architecture down: comment lines / an unrelated unit above it
                    let pre = match rng.below(3) {
                        0 => "-- moved\n\n".to_string(),
                        1 => "-- a\n-- b\n-- c\n\n".to_string(),
                        _ => "package filler is\nend package;\n\n".to_string(),
                    };
                    cur_a = if cur_a.is_empty() { a0.to_string() } else { format!("{pre}{cur_a}") };
                    steps.push(Step { file: "a.vhd".into(), text: cur_a.clone(), kind: "shift".into(), via: String::new() });
                }
                5 => {
                    cur_e = format!("-- moved\n{cur_e}");
                    steps.push(Step { file: "e.vhd".into(), text: cur_e.clone(), kind: "shift".into(), via: String::new() });
                }
                6 | 7 => {
                    cur_a = if cur_a.contains("signal m") { a0.to_string() } else { a1.to_string() };
                    steps.push(Step { file: "a.vhd".into(), text: cur_a.clone(), kind: "replace".into(), via: String::new() });
                }
                _ => {
                    if cur_a.is_empty() {
                        cur_a = a0.to_string();
                        steps.push(Step { file: "a.vhd".into(), text: cur_a.clone(), kind: "restore".into(), via: String::new() });
                    } else {
                        cur_a = String::new();
                        steps.push(Step { file: "a.vhd".into(), text: String::new(), kind: "empty".into(), via: String::new() });
                    }
                }
            }
        }
    }
    History { id, libraries, initial, lints, numeric: false, steps }
}


// Scenarios for ONE design unit that looks up SEVERAL distinct, currently missing units whose names share
// the library and / or the primary name (the keys of DesignRoot::missing_unit that differ in one component
// only): several architectures of one entity (one of them named like the entity, as a package body is),
// the entity itself together with its architectures, the same architecture name for two entities, the
// same entity name in two libraries with different architectures, several packages of one library with
// an entity of that name in another library, a package and its body.  The references appear in a random
// order (sometimes one of them twice); every missing unit has a file of its own, and the history fills,
// empties, replaces and restores these files in random order, so that each of the missing units is at
// some point the one that arrives while the others are still missing.
#[derive(Clone)]
enum Ref4 {
    Inst(String, String, Option<String>),
    Pkg(String, String),
}

struct Tgt4 {
    file: String,
    text: String,
    alt: Option<String>,
}

fn gen_scenario4(rng: &mut Rng, id: String, max_steps: usize) -> History {
    let mut libraries: BTreeMap<String, Vec<String>> = BTreeMap::new();
    let mut initial: BTreeMap<String, String> = BTreeMap::new();
    for l in ["lib_a", "lib_b", "lib_c"] {
        libraries.insert(l.into(), Vec::new());
    }
    let mut refs: Vec<Ref4> = Vec::new();
    let mut tgts: Vec<Tgt4> = Vec::new();
    let mut nfile = 0usize;
    let arch = |e: &str, a: &str| format!("architecture {a} of {e} is\nbegin\n  q <= a;\nend architecture;\n");
    let arch_alt = |e: &str, a: &str| {
        format!("architecture {a} of {e} is\n  signal m : bit;\nbegin\n  m <= a;\n  q <= m;\nend architecture;\n")
    };
    let pkg = |p: &str, k: usize| format!("package {p} is\n  constant c : integer := {k};\nend package;\n");
    // a unit that is always there / a unit that comes and goes, each in a new file of library l
    let mut fixed = |libraries: &mut BTreeMap<String, Vec<String>>, initial: &mut BTreeMap<String, String>, l: &str, text: String| {
        let f = format!("f{nfile}.vhd");
        nfile += 1;
        libraries.get_mut(l).unwrap().push(f.clone());
        initial.insert(f, text);
    };
    let mut ntgt = 0usize;
    let mut target = |libraries: &mut BTreeMap<String, Vec<String>>, tgts: &mut Vec<Tgt4>, l: &str, text: String, alt: Option<String>| {
        let f = format!("t{ntgt}.vhd");
        ntgt += 1;
        libraries.get_mut(l).unwrap().push(f.clone());
        tgts.push(Tgt4 { file: f, text, alt });
    };
    let l1: String = if rng.chance(1, 2) { "lib_a".into() } else { "lib_b".into() };
    let l2: String = if l1 == "lib_a" { if rng.chance(1, 2) { "lib_b".into() } else { "lib_c".into() } } else { "lib_c".into() };
    let inst = |l: &str, e: &str, a: &str| Ref4::Inst(l.into(), e.into(), Some(a.into()));
    match rng.below(8) {
        0 | 1 | 2 => {
            // 2-4 architectures of one entity; sometimes the entity comes and goes as well
            let names = ["a1", "a2", "a3", "ent"];
            let k = 2 + rng.below(3);
            let start = rng.below(4);
            if rng.chance(1, 3) {
                target(&mut libraries, &mut tgts, &l1, entity_text("ent"), None);
            } else {
                fixed(&mut libraries, &mut initial, &l1, entity_text("ent"));
            }
            for j in 0..k {
                let a = names[(start + j) % 4];
                target(&mut libraries, &mut tgts, &l1, arch("ent", a), Some(arch_alt("ent", a)));
                refs.push(inst(&l1, "ent", a));
            }
            if rng.chance(1, 3) {
                refs.push(Ref4::Inst(l1.clone(), "ent".into(), None));
            }
        }
        3 => {
            // the same architecture name for two entities of one library (+ a second architecture of one)
            for e in ["e1", "e2"] {
                if rng.chance(1, 4) {
                    target(&mut libraries, &mut tgts, &l1, entity_text(e), None);
                } else {
                    fixed(&mut libraries, &mut initial, &l1, entity_text(e));
                }
                target(&mut libraries, &mut tgts, &l1, arch(e, "rtl"), Some(arch_alt(e, "rtl")));
                refs.push(inst(&l1, e, "rtl"));
            }
            if rng.chance(1, 2) {
                target(&mut libraries, &mut tgts, &l1, arch("e1", "a2"), None);
                refs.push(inst(&l1, "e1", "a2"));
            }
        }
        4 => {
            // one entity name in two libraries, architectures a1 / a2 of either
            fixed(&mut libraries, &mut initial, &l1, entity_text("ent"));
            fixed(&mut libraries, &mut initial, &l2, entity_text("ent"));
            let all = [(&l1, "a1"), (&l2, "a2"), (&l1, "a2"), (&l2, "a1")];
            let k = 2 + rng.below(3);
            for (l, a) in all.iter().take(k) {
                target(&mut libraries, &mut tgts, l, arch("ent", a), Some(arch_alt("ent", a)));
                refs.push(inst(l, "ent", a));
            }
        }
        5 => {
            // packages pk1, pk2 of one library, an entity pk1 with architecture(s) in another library
            target(&mut libraries, &mut tgts, &l1, pkg("pk1", 1), Some(pkg("pk1", 11)));
            target(&mut libraries, &mut tgts, &l1, pkg("pk2", 2), Some(pkg("pk2", 12)));
            refs.push(Ref4::Pkg(l1.clone(), "pk1".into()));
            refs.push(Ref4::Pkg(l1.clone(), "pk2".into()));
            if rng.chance(1, 2) {
                target(&mut libraries, &mut tgts, &l2, entity_text("pk1"), None);
            } else {
                fixed(&mut libraries, &mut initial, &l2, entity_text("pk1"));
            }
            for a in ["pk1", "pk2"] {
                if a == "pk1" || rng.chance(1, 2) {
                    target(&mut libraries, &mut tgts, &l2, arch("pk1", a), None);
                    refs.push(inst(&l2, "pk1", a));
                }
            }
        }
        6 => {
            // a package with a deferred constant and its body in two files, a second package, and an
            // entity + architecture of the package's name in another library
            target(&mut libraries, &mut tgts, &l1, "package pk is\n  constant c : integer;\nend package;\n".into(), Some(pkg("pk", 3)));
            target(
                &mut libraries,
                &mut tgts,
                &l1,
                "package body pk is\n  constant c : integer := 5;\nend package body;\n".into(),
                Some("package body pk is\n  constant c : integer := 6;\n  constant d : integer := 1;\nend package body;\n".into()),
            );
            refs.push(Ref4::Pkg(l1.clone(), "pk".into()));
            if rng.chance(1, 2) {
                target(&mut libraries, &mut tgts, &l1, pkg("pk2", 2), None);
                refs.push(Ref4::Pkg(l1.clone(), "pk2".into()));
            }
            fixed(&mut libraries, &mut initial, &l2, entity_text("pk"));
            target(&mut libraries, &mut tgts, &l2, arch("pk", "pk"), Some(arch_alt("pk", "pk")));
            refs.push(inst(&l2, "pk", "pk"));
            if rng.chance(1, 2) {
                target(&mut libraries, &mut tgts, &l2, arch("pk", "a1"), None);
                refs.push(inst(&l2, "pk", "a1"));
            }
        }
        _ => {
            // everything at once in one library: entity, two architectures, a package
            target(&mut libraries, &mut tgts, &l1, entity_text("ent"), None);
            target(&mut libraries, &mut tgts, &l1, arch("ent", "a1"), None);
            target(&mut libraries, &mut tgts, &l1, arch("ent", "a2"), Some(arch_alt("ent", "a2")));
            target(&mut libraries, &mut tgts, &l1, pkg("pk1", 1), None);
            refs.push(inst(&l1, "ent", "a1"));
            refs.push(inst(&l1, "ent", "a2"));
            refs.push(Ref4::Pkg(l1.clone(), "pk1".into()));
            refs.push(Ref4::Inst(l1.clone(), "ent".into(), None));
        }
    }
    // the user: one architecture with all the references in a random order, sometimes one of them twice
    if rng.chance(1, 4) {
        let r = refs[rng.below(refs.len())].clone();
        refs.push(r);
    }
    for i in (1..refs.len()).rev() {
        let j = rng.below(i + 1);
        refs.swap(i, j);
    }
    let user_text = |name: &str, refs: &[Ref4], work: bool| -> String {
        let mut decls = String::new();
        let mut stmts = String::new();
        for (i, r) in refs.iter().enumerate() {
            match r {
                Ref4::Inst(l, e, a) => {
                    let l = if work && l == "lib_a" { "work" } else { l.as_str() };
                    let a = a.as_ref().map(|a| format!("({a})")).unwrap_or_default();
                    decls.push_str(&format!("  signal t{i} : bit;\n"));
                    stmts.push_str(&format!("  u{i} : entity {l}.{e}{a} port map (a => s, q => t{i});\n"));
                }
                Ref4::Pkg(l, p) => {
                    let l = if work && l == "lib_a" { "work" } else { l.as_str() };
                    decls.push_str(&format!("  signal i{i} : integer := {l}.{p}.c;\n"));
                }
            }
        }
        format!(
            "library lib_a;\nlibrary lib_b;\nlibrary lib_c;\nentity {name} is\nend entity;\narchitecture a of {name} is\n  signal s : bit;\n{decls}begin\n{stmts}end architecture;\n"
        )
    };
    let work = rng.chance(1, 2);
    libraries.get_mut("lib_a").unwrap().push("user.vhd".into());
    initial.insert("user.vhd".into(), user_text("user0", &refs, work));
    // a second user in another file (the same references in reverse order) or a configuration of the
    // first one; a unit on top of the first user; fillers so that no library is empty
    libraries.get_mut("lib_a").unwrap().push("w.vhd".into());
    let w = match rng.below(4) {
        0 => {
            let mut rr = refs.clone();
            rr.reverse();
            user_text("user1", &rr, !work)
        }
        1 => "configuration cfg0 of user0 is\n  for a\n  end for;\nend configuration;\n".to_string(),
        2 => "entity x0 is\nend entity;\narchitecture a of x0 is\nbegin\n  u0 : entity work.user0(a);\nend architecture;\n".to_string(),
        _ => String::new(),
    };
    initial.insert("w.vhd".into(), w);
    for l in ["lib_b", "lib_c"] {
        let f = format!("q_{l}.vhd");
        libraries.get_mut(l).unwrap().push(f.clone());
        initial.insert(f, format!("package q9_{l} is\n  constant c9 : integer := 9;\nend package;\n"));
    }
    // the missing units: mostly all missing at the start; then a random walk of fill / empty / replace
    let p0 = rng.below(3); // 0: all missing, 1: a quarter present, 2: half
    let mut present: Vec<bool> = tgts.iter().map(|_| p0 > 0 && rng.chance(p0, 4)).collect();
    let mut seen = present.clone();
    let mut is_alt: Vec<bool> = tgts.iter().map(|_| false).collect();
    for (i, t) in tgts.iter().enumerate() {
        initial.insert(t.file.clone(), if present[i] { t.text.clone() } else { String::new() });
    }
    let mut steps: Vec<Step> = Vec::new();
    let n = std::cmp::max(1, std::cmp::min(max_steps, 3 + rng.below(6)));
    while steps.len() < n {
        let missing: Vec<usize> = (0..tgts.len()).filter(|i| !present[*i]).collect();
        // prefer filling while something is missing, so that every arrival order is reached
        let i = if !missing.is_empty() && rng.chance(3, 5) { *rng.pick(&missing) } else { rng.below(tgts.len()) };
        let t = &tgts[i];
        if present[i] {
            if t.alt.is_some() && rng.chance(1, 4) {
                is_alt[i] = !is_alt[i];
                let text = if is_alt[i] { t.alt.clone().unwrap() } else { t.text.clone() };
                steps.push(Step { file: t.file.clone(), text, kind: "replace".into(), via: String::new() });
            } else {
                steps.push(Step { file: t.file.clone(), text: String::new(), kind: "empty".into(), via: String::new() });
                present[i] = false;
            }
        } else {
            let text = if is_alt[i] { t.alt.clone().unwrap() } else { t.text.clone() };
            steps.push(Step { file: t.file.clone(), text, kind: if seen[i] { "restore".into() } else { "replace".into() }, via: String::new() });
            present[i] = true;
            seen[i] = true;
        }
    }
    History { id, libraries, initial, lints: rng.chance(9, 10), numeric: false, steps }
}


// Worlds whose standard-library files are edited (comment appended / original restored) while user
// units depend on the entities the analyser special-cases: matching operators on arrays of
// std_ulogic, BOOLEAN / BIT / TIME / STRING, 'image, to_string, textio, env, numeric_std.
const USER_MATCHING: &str = "library ieee;\nuse ieee.std_logic_1164.all;\npackage mu is\n  type nibble_t is array (3 downto 0) of std_ulogic;\n  function eq(x, y : nibble_t) return std_ulogic;\n  function ne(x, y : nibble_t) return std_ulogic;\nend package;\n\npackage body mu is\n  function eq(x, y : nibble_t) return std_ulogic is\n  begin\n    return x ?= y;\n  end function;\n  function ne(x, y : nibble_t) return std_ulogic is\n  begin\n    return x ?/= y;\n  end function;\nend package body;\n";
const USER_TEXTIO: &str = "use std.textio.all;\nuse std.env.all;\npackage tu is\n  constant t0 : time := 1 ns;\n  constant b0 : boolean := (1 < 2) and true;\n  constant s0 : string := integer'image(3) & to_string(5) & time'image(t0);\n  constant n0 : natural := s0'length;\n  procedure say(x : in integer);\nend package;\n\npackage body tu is\n  procedure say(x : in integer) is\n    variable l : line;\n  begin\n    write(l, string'(\"x = \"));\n    write(l, x);\n    writeline(output, l);\n    if x > 3 then\n      stop(0);\n    end if;\n  end procedure;\nend package body;\n";
const USER_NUMERIC: &str = "library ieee;\nuse ieee.std_logic_1164.all;\nuse ieee.numeric_std.all;\nentity cnt is\n  port (clk : in std_logic; rst : in std_logic; q : out std_logic_vector(3 downto 0));\nend entity;\n\narchitecture rtl of cnt is\n  signal c : unsigned(3 downto 0) := (others => '0');\n  signal z : std_ulogic;\nbegin\n  process (clk)\n  begin\n    if rising_edge(clk) then\n      if rst = '1' then\n        c <= (others => '0');\n      else\n        c <= c + 1;\n      end if;\n    end if;\n  end process;\n  z <= c ?= to_unsigned(3, 4);\n  q <= std_logic_vector(c) when to_x01(z) = '1' else (others => 'Z');\nend architecture;\n";

fn gen_scenario3(rng: &mut Rng, id: String, max_steps: usize) -> History {
    let mut libraries: BTreeMap<String, Vec<String>> = BTreeMap::new();
    let mut initial: BTreeMap<String, String> = BTreeMap::new();
    libraries.insert("lib_a".into(), vec!["m.vhd".into(), "t.vhd".into(), "n.vhd".into()]);
    initial.insert("m.vhd".into(), USER_MATCHING.into());
    initial.insert("t.vhd".into(), USER_TEXTIO.into());
    initial.insert("n.vhd".into(), USER_NUMERIC.into());
    let users = [("m.vhd", USER_MATCHING), ("t.vhd", USER_TEXTIO), ("n.vhd", USER_NUMERIC)];
    let mut cur: BTreeMap<String, String> = initial.clone();
    let mut edited: BTreeSet<String> = BTreeSet::new();
    let mut steps: Vec<Step> = Vec::new();
    let n = std::cmp::max(1, std::cmp::min(max_steps, 2 + rng.below(4)));
    while steps.len() < n {
        if rng.chance(3, 5) {
            // std_logic_1164 most often: its id is remembered by the design root
            let f = if rng.chance(2, 5) { "ieee2008/std_logic_1164.vhdl" } else { *rng.pick(&LIB_FILES) };
            let revert = edited.contains(f) && rng.chance(1, 2);
            let text = if revert { String::new() } else { format!("\n-- edited {}\n", steps.len()) };
            if revert {
                edited.remove(f);
            } else {
                edited.insert(f.to_string());
            }
            steps.push(Step { file: f.into(), text, kind: if revert { "restore".into() } else { "shift".into() }, via: "libedit".into() });
        } else {
            let (f, orig) = *rng.pick(&users);
            let t = match rng.below(3) {
                0 => format!("-- shifted\n{}", cur[f]),
                1 => String::new(),
                _ => orig.to_string(),
            };
            let kind = if t.is_empty() { "empty" } else if t == orig { "restore" } else { "shift" };
            cur.insert(f.to_string(), t.clone());
            steps.push(Step { file: f.into(), text: t, kind: kind.into(), via: String::new() });
        }
    }
    History { id, libraries, initial, lints: rng.chance(9, 10), numeric: true, steps }
}

/// how the updates reach the project: a quarter of the steps use another way than get_source + change
fn decorate(rng: &mut Rng, mut h: History) -> History {
    const VIAS: [&str; 5] = ["inline_abs", "inline_rel", "inline_dot", "file_abs", "file_rel"];
    for st in h.steps.iter_mut() {
        if st.via.is_empty() && rng.chance(1, 4) {
            st.via = rng.pick(&VIAS).to_string();
        }
    }
    // now and then a file of the standard libraries is touched in an ordinary history
    if rng.chance(1, 12) && !h.steps.is_empty() {
        let at = rng.below(h.steps.len() + 1);
        let f = if h.numeric { *rng.pick(&LIB_FILES) } else { LIB_FILES[rng.below(5)] };
        h.steps.insert(at, Step { file: f.into(), text: "\n-- touched\n".into(), kind: "shift".into(), via: "libedit".into() });
    }
    h
}

fn gen_history(rng: &mut Rng, id: String, max_steps: usize) -> History {
    let h = gen_history0(rng, id, max_steps);
    let mut h = decorate(rng, h);
    h.steps.truncate(std::cmp::max(1, max_steps));
    h
}

fn gen_history0(rng: &mut Rng, id: String, max_steps: usize) -> History {
    if rng.chance(3, 8) {
        return match rng.below(8) {
            0 | 1 | 2 => gen_scenario2(rng, id, max_steps),
            3 => gen_scenario3(rng, id, max_steps),
            _ => gen_scenario(rng, id, max_steps),
        };
    }
    let mut libs: Vec<String> = vec!["lib_a".into(), "lib_b".into()];
    if rng.chance(1, 4) {
        libs.push("lib_c".into());
    }
    let nfiles = 3 + rng.below(4);
    let mut per_lib: Vec<usize> = vec![1; libs.len()];
    for _ in libs.len()..nfiles {
        // at most NP files per library: every file has a package name of its own
        let mut i = rng.below(libs.len());
        if per_lib[i] >= NP {
            i = (0..libs.len()).find(|j| per_lib[*j] < NP).unwrap_or(i);
        }
        per_lib[i] += 1;
    }
    let mut libraries = BTreeMap::new();
    // (file, library index, index in library)
    let mut files: Vec<(String, usize, usize)> = Vec::new();
    for (li, l) in libs.iter().enumerate() {
        let letter = (b'a' + li as u8) as char;
        let names: Vec<String> = (0..per_lib[li]).map(|j| format!("{letter}{j}.vhd")).collect();
        for (j, n) in names.iter().enumerate() {
            files.push((n.clone(), li, j));
        }
        libraries.insert(l.clone(), names);
    }
    let variant = |rng: &mut Rng, f: &(String, usize, usize), tgt: Option<(&str, usize)>| {
        gen_variant(
            rng,
            &GenCx {
                own: Some(&libs[f.1]),
                libs: &libs,
                idx: f.2,
                target: tgt,
                nlib: per_lib[f.1],
            },
        )
    };
    let mut initial = BTreeMap::new();
    let mut cur: BTreeMap<String, String> = BTreeMap::new();
    let mut prev: BTreeMap<String, String> = BTreeMap::new();
    for f in &files {
        let t = variant(rng, f, None);
        initial.insert(f.0.clone(), t.clone());
        cur.insert(f.0.clone(), t);
    }
    // often a primary unit and its secondary unit start in two files of one library
    if rng.chance(3, 10) {
        let cands: Vec<usize> = (0..libs.len()).filter(|l| per_lib[*l] >= 2).collect();
        if !cands.is_empty() {
            let l = *rng.pick(&cands);
            let of_lib: Vec<&(String, usize, usize)> = files.iter().filter(|f| f.1 == l).collect();
            let i = rng.below(of_lib.len());
            let mut j = rng.below(of_lib.len() - 1);
            if j >= i {
                j += 1;
            }
            let (f, g) = (of_lib[i], of_lib[j]);
            let cx = GenCx {
                own: Some(&libs[l]),
                libs: &libs,
                idx: g.2,
                target: None,
                nlib: per_lib[l],
            };
            let (tf, tg) = if f.2 < NE && rng.chance(3, 5) {
                let e = format!("e{}", f.2);
                let a = if rng.chance(2, 3) { arch_text(rng, &e, false) } else { inst_arch_text(rng, &cx, &e) };
                (entity_text(&e), a)
            } else {
                let k = f.2 % NP;
                (pkg_decl_text(k), pkg_body_text(k, "", "4"))
            };
            for (name, t) in [(&f.0, tf), (&g.0, tg)] {
                initial.insert(name.clone(), t.clone());
                cur.insert(name.clone(), t);
            }
        }
    }
    let lints = rng.chance(9, 10);
    let nsteps = 1 + rng.below(std::cmp::max(1, max_steps));
    let mut steps: Vec<Step> = Vec::new();
    let mut unm: Vec<String> = Vec::new();
    while steps.len() < nsteps {
        let r = rng.below(100);
        let mut push = |steps: &mut Vec<Step>, cur: &mut BTreeMap<String, String>, prev: &mut BTreeMap<String, String>, file: &str, text: String, kind: &str| {
            if let Some(old) = cur.get(file) {
                prev.insert(file.to_string(), old.clone());
            }
            cur.insert(file.to_string(), text.clone());
            steps.push(Step {
                file: file.to_string(),
                text,
                kind: kind.to_string(),
                via: String::new(),
            });
        };
        if r >= 92 {
            // shift: insert comment lines at the top of a file (positions move, tokens do not)
            let nonempty: Vec<String> = files.iter().map(|f| f.0.clone()).filter(|f| !cur[f].is_empty()).collect();
            if !nonempty.is_empty() {
                let f = rng.pick(&nonempty).clone();
                let t = format!("-- shifted\n\n{}", cur[&f]);
                push(&mut steps, &mut cur, &mut prev, &f, t, "shift");
                continue;
            }
        }
        if r < 10 {
            // empty a file
            let mut cands: Vec<String> = files.iter().map(|f| f.0.clone()).collect();
            cands.extend(unm.iter().cloned());
            let nonempty: Vec<String> = cands.iter().filter(|f| !cur[*f].is_empty()).cloned().collect();
            let f = if nonempty.is_empty() { rng.pick(&cands).clone() } else { rng.pick(&nonempty).clone() };
            push(&mut steps, &mut cur, &mut prev, &f, String::new(), "empty");
        } else if r < 25 {
            // restore previous or initial contents
            let mut cands: Vec<(String, String)> = Vec::new();
            for (f, t) in &cur {
                if let Some(p) = prev.get(f) {
                    if p != t {
                        cands.push((f.clone(), p.clone()));
                    }
                }
                if let Some(i) = initial.get(f) {
                    if i != t {
                        cands.push((f.clone(), i.clone()));
                    }
                }
            }
            if cands.is_empty() {
                let f = rng.pick(&files).clone();
                let t = variant(rng, &f, None);
                push(&mut steps, &mut cur, &mut prev, &f.0, t, "replace");
            } else {
                let (f, t) = rng.pick(&cands).clone();
                push(&mut steps, &mut cur, &mut prev, &f, t, "restore");
            }
        } else if r < 35 {
            // unmapped file
            let f = format!("u{}.vhd", rng.below(2));
            let idx = if f == "u0.vhd" { 0 } else { 1 };
            let t = gen_variant(
                rng,
                &GenCx {
                    own: None,
                    libs: &libs,
                    idx,
                    target: None,
                    nlib: 2,
                },
            );
            if !unm.contains(&f) {
                unm.push(f.clone());
            }
            push(&mut steps, &mut cur, &mut prev, &f, t, "unmapped");
        } else if r < 47 && steps.len() + 2 <= nsteps && files.len() >= 2 {
            // a dependency between two files comes, goes and comes back with the other direction
            let i = rng.below(files.len());
            let mut j = rng.below(files.len() - 1);
            if j >= i {
                j += 1;
            }
            let (f, g) = (files[i].clone(), files[j].clone());
            if steps.len() + 3 <= nsteps {
                let t = variant(rng, &f, Some((libs[g.1].as_str(), g.2)));
                push(&mut steps, &mut cur, &mut prev, &f.0, t, "replace");
            }
            let t = match rng.below(4) {
                0 => String::new(),
                1 => format!("package p{} is\n  constant c{} : integer := 1;\nend package;\n", f.2 % NP, f.2 % NP),
                _ => variant(rng, &f, None),
            };
            let kind = if t.is_empty() { "empty" } else { "replace" };
            push(&mut steps, &mut cur, &mut prev, &f.0, t, kind);
            let t = variant(rng, &g, Some((libs[f.1].as_str(), f.2)));
            push(&mut steps, &mut cur, &mut prev, &g.0, t, "replace");
        } else if r < 60 && steps.len() + 2 <= nsteps && files.len() >= 2 {
            // swap the contents of two files
            let i = rng.below(files.len());
            let mut j = rng.below(files.len() - 1);
            if j >= i {
                j += 1;
            }
            // mostly files of different libraries (within one library the first half is a duplicate state)
            // (and with the same index there, so that the names they define do not clash)
            if rng.chance(2, 3) {
                if let Some(o) = (0..files.len()).find(|o| files[*o].1 != files[i].1 && files[*o].2 == files[i].2) {
                    j = o;
                }
            }
            let (fi, fj) = (files[i].0.clone(), files[j].0.clone());
            let (ti, tj) = (cur[&fi].clone(), cur[&fj].clone());
            push(&mut steps, &mut cur, &mut prev, &fi, tj, "swap1");
            push(&mut steps, &mut cur, &mut prev, &fj, ti, "swap2");
        } else {
            // a third of the replacements refer to what one particular other file defines, so that
            // dependencies between two files come, go and change direction
            let f = rng.pick(&files).clone();
            let tgt = if rng.chance(1, 3) {
                let g = rng.pick(&files);
                if g.0 != f.0 {
                    Some((libs[g.1].as_str(), g.2))
                } else {
                    None
                }
            } else {
                None
            };
            let t = variant(rng, &f, tgt);
            push(&mut steps, &mut cur, &mut prev, &f.0, t, "replace");
        }
    }
    History {
        id,
        libraries,
        initial,
        lints,
        numeric: false,
        steps,
    }
}

// ------------------------------------------------------------------ driver

fn process(h: &History, libs: LibsMode, wdir: &Path) -> (String, RunResult) {
    let r = run_history(h, libs, wdir, false);
    let mut m = h.to_map();
    m.insert("verdict".into(), json!(r.verdict));
    m.insert("bad_step".into(), json!(r.bad_step));
    if let Some(s) = &r.panic_side {
        m.insert("panic_side".into(), json!(s));
    }
    m.insert("obs".into(), Value::Array(r.obs.clone()));
    m.insert("trace".into(), Value::Array(r.trace.clone()));
    let mut shrunk = Value::Null;
    let mut shrunk_bad = Value::Null;
    let mut shrunk_diff = Value::Null;
    if r.verdict != "ok" {
        if let Some(b) = r.bad_step {
            if let Some((sh, sb, sd)) = shrink(h, b, &r.verdict, libs, wdir) {
                shrunk = Value::Object(sh.to_map());
                shrunk_bad = json!(sb);
                shrunk_diff = json!(sd);
            }
        }
    }
    m.insert("shrunk".into(), shrunk);
    m.insert("shrunk_bad_step".into(), shrunk_bad);
    m.insert("shrunk_diff".into(), shrunk_diff);
    (Value::Object(m).to_string(), r)
}

fn run_all(histories: Vec<History>, outdir: &Path, threads: usize, libs: LibsMode) {
    std::fs::create_dir_all(outdir).expect("create outdir");
    // relative spellings of the project files are relative to the output directory
    let outdir = &std::fs::canonicalize(outdir).expect("canonical outdir");
    std::env::set_current_dir(outdir).expect("chdir to outdir");
    let t0 = Instant::now();
    let threads = std::cmp::max(1, std::cmp::min(threads, std::cmp::max(1, histories.len())));
    let histories = std::sync::Arc::new(histories);
    let mut handles = Vec::new();
    for w in 0..threads {
        let hs = histories.clone();
        let outdir = outdir.to_path_buf();
        let b = std::thread::Builder::new().stack_size(64 << 20);
        handles.push(
            b.spawn(move || {
                let wdir = outdir.join(format!("w{w}"));
                let inflight = outdir.join(format!("inflight-{w}.json"));
                let mut out = Vec::new();
                let mut i = w;
                while i < hs.len() {
                    let h = &hs[i];
                    std::fs::write(&inflight, Value::Object(h.to_map()).to_string()).expect("write inflight");
                    let (line, r) = process(h, libs, &wdir);
                    let _ = std::fs::remove_file(&inflight);
                    out.push((i, line, r.verdict.clone(), r.stats.clone()));
                    i += threads;
                }
                let _ = std::fs::remove_dir_all(&wdir);
                out
            })
            .expect("spawn"),
        );
    }
    let mut all = Vec::new();
    for h in handles {
        all.extend(h.join().expect("worker thread failed"));
    }
    all.sort_by_key(|x| x.0);
    let mut text = String::new();
    let (mut steps, mut compared, mut skipped, mut mism, mut panics) = (0, 0, 0, 0, 0);
    let (mut cyc, mut later, mut lint, mut unm, mut syn, mut sfd, mut refs) = (0, 0, 0, 0, 0, 0, 0);
    let mut codes: BTreeMap<String, usize> = BTreeMap::new();
    for (_, line, verdict, st) in &all {
        text.push_str(line);
        text.push('\n');
        steps += st.steps;
        compared += st.compared;
        skipped += st.skipped_dup;
        match verdict.as_str() {
            "mismatch" => mism += 1,
            "panic" => panics += 1,
            _ => {}
        }
        cyc += st.cycle as usize;
        later += st.missing_later as usize;
        lint += st.lint as usize;
        unm += st.unmapped as usize;
        syn += st.syntax as usize;
        sfd += st.same_file_dup as usize;
        refs += st.n_refs;
        for (c, n) in &st.codes {
            *codes.entry(c.clone()).or_insert(0) += n;
        }
    }
    std::fs::write(outdir.join("results.jsonl"), text).expect("write results");
    let secs = t0.elapsed().as_secs_f64();
    let stats = json!({
        "histories": all.len(), "points": steps, "compared": compared, "skipped_dup": skipped,
        "mismatches": mism, "panics": panics,
        "histories_with_cycle_diag": cyc, "histories_with_missing_unit_arriving_later": later,
        "histories_with_lint_diag": lint, "histories_with_unmapped_file": unm,
        "histories_with_syntax_error": syn, "histories_with_compared_same_file_duplicate": sfd,
        "references_observed": refs, "diagnostic_codes": codes,
        "seconds": secs, "histories_per_second": all.len() as f64 / secs.max(1e-9),
        "threads": threads, "libs": format!("{libs:?}"),
    });
    std::fs::write(outdir.join("stats.json"), stats.to_string()).expect("write stats");
    println!(
        "histories={} steps={} compared={} skipped_dup={} mismatches={}{}",
        all.len(),
        steps,
        compared,
        skipped,
        mism,
        if panics > 0 { format!(" panics={panics}") } else { String::new() }
    );
    eprintln!("c01: {:.2}s, {:.1} histories/s ({threads} threads, {libs:?})", secs, all.len() as f64 / secs.max(1e-9));
}

fn libs_arg(a: Option<&String>) -> LibsMode {
    match a.map(|s| s.as_str()) {
        Some("full") => LibsMode::Full,
        Some("mini") | None => LibsMode::Mini,
        Some(x) => {
            eprintln!("unknown libs mode {x}");
            std::process::exit(2)
        }
    }
}

fn usage() -> ! {
    eprintln!("usage: c01 run <seed> <count> <max_steps> <outdir> [threads=16] [mini|full]\n       c01 replay <history.json> <outdir> [mini|full]\n       c01 corpus <file.jsonl> <outdir> [threads=16] [mini|full]");
    std::process::exit(2)
}

fn main() {
    let args: Vec<String> = std::env::args().collect();
    if args.len() < 2 {
        usage();
    }
    // panics of the implementation are caught and recorded; only failures of the harness are shown
    std::panic::set_hook(Box::new(|info| {
        if let Some(l) = info.location() {
            if l.file().ends_with("c01.rs") {
                eprintln!("c01: harness failure: {info}");
            }
        }
    }));
    match args[1].as_str() {
        "run" => {
            if args.len() < 6 {
                usage();
            }
            let seed: u64 = args[2].parse().expect("seed");
            let count: usize = args[3].parse().expect("count");
            let max_steps: usize = args[4].parse().expect("max_steps");
            let outdir = PathBuf::from(&args[5]);
            let threads: usize = args.get(6).map(|x| x.parse().expect("threads")).unwrap_or(16);
            let libs = libs_arg(args.get(7));
            // Rng::new(s + 1) is Rng::new(s) advanced by one call: take the first (mixed) output as
            // the state of the master generator so that neighbouring seeds give unrelated histories
            let mut master = Rng::new(seed).fork();
            let mut hs = Vec::new();
            for i in 0..count {
                let mut r = master.fork();
                hs.push(gen_history(&mut r, format!("s{seed}-{i}"), max_steps));
            }
            // a fixed share of the stream: one unit that is missing several units with overlapping names
            // (appended, with a generator of its own, so that the histories above stay what they were)
            let mut master4 = Rng::new(seed ^ 0x4d15_5eed_0000_0004).fork();
            for i in 0..std::cmp::max(4, count / 8) {
                let mut r = master4.fork();
                let h = gen_scenario4(&mut r, format!("s{seed}-m{i}"), max_steps);
                let mut h = decorate(&mut r, h);
                h.steps.truncate(std::cmp::max(1, max_steps));
                hs.push(h);
            }
            run_all(hs, &outdir, threads, libs);
        }
        "replay" => {
            if args.len() < 4 {
                usage();
            }
            let text = std::fs::read_to_string(&args[2]).expect("read history");
            let v: Value = serde_json::from_str(&text).expect("history json");
            let h = History::from_json(&v, "replay").expect("history");
            run_all(vec![h], Path::new(&args[3]), 1, libs_arg(args.get(4)));
        }
        "corpus" => {
            if args.len() < 4 {
                usage();
            }
            let text = std::fs::read_to_string(&args[2]).expect("read corpus");
            let mut hs = Vec::new();
            for (i, line) in text.lines().enumerate() {
                let l = line.trim();
                if l.is_empty() || l.starts_with('#') {
                    continue;
                }
                let v: Value = serde_json::from_str(l).unwrap_or_else(|e| panic_exit(&format!("corpus line {}: {e}", i + 1)));
                let h = History::from_json(&v, &format!("corpus-{}", i + 1)).unwrap_or_else(|e| panic_exit(&format!("corpus line {}: {e}", i + 1)));
                hs.push(h);
            }
            let threads: usize = args.get(4).map(|x| x.parse().expect("threads")).unwrap_or(16);
            run_all(hs, Path::new(&args[3]), threads, libs_arg(args.get(5)));
        }
        "shapes" => {
            // development: each generated text alone in a project; syntax errors are unexpected
            let seed: u64 = args[2].parse().expect("seed");
            let n: usize = args[3].parse().expect("n");
            let dir = PathBuf::from("/verif/.cache/scratch/C01/shapes");
            std::fs::create_dir_all(&dir).unwrap();
            let libs: Vec<String> = vec!["lib_a".into(), "lib_b".into()];
            let mut rng = Rng::new(seed);
            let mut hist: BTreeMap<String, (usize, String)> = BTreeMap::new();
            for i in 0..n {
                let own = if i % 5 == 4 { None } else { Some("lib_a") };
                let (t, _) = gen_unit(&mut rng, &GenCx { own, libs: &libs, idx: i % 3, target: None, nlib: 3 });
                std::fs::write(dir.join("a0.vhd"), &t).unwrap();
                let h = History {
                    id: "x".into(),
                    libraries: [("lib_a".to_string(), vec!["a0.vhd".to_string()]), ("lib_b".to_string(), vec![])].into_iter().collect(),
                    initial: BTreeMap::new(),
                    lints: true,
                    numeric: false,
                    steps: vec![],
                };
                let mut p = mk_project(&dir, &config_text(&h, LibsMode::Mini), LibsMode::Mini, true);
                for d in p.analyse() {
                    let msg: String = d.message.chars().map(|c| if c.is_ascii_digit() { '#' } else { c }).collect();
                    let key = format!("{:?} {}", d.code, msg);
                    let e = hist.entry(key).or_insert((0, t.clone()));
                    e.0 += 1;
                }
            }
            for (k, (n, sample)) in &hist {
                println!("{n:6} {k}");
                if k.starts_with("SyntaxError") || args.get(4).is_some() {
                    println!("---\n{sample}---");
                }
            }
        }
        "bench" => {
            let outdir = PathBuf::from(&args[2]);
            let n: usize = args.get(3).map(|x| x.parse().unwrap()).unwrap_or(20);
            std::fs::create_dir_all(&outdir).unwrap();
            std::fs::write(outdir.join("a0.vhd"), "library ieee;\nuse ieee.std_logic_1164.all;\npackage p0 is\n  constant s : std_logic := '1';\nend package;\n").unwrap();
            let h = History {
                id: "b".into(),
                libraries: [("lib_a".to_string(), vec!["a0.vhd".to_string()])].into_iter().collect(),
                initial: BTreeMap::new(),
                lints: true,
                numeric: false,
                steps: vec![],
            };
            for libs in [LibsMode::Mini, LibsMode::Full] {
                let t0 = Instant::now();
                let mut nd = 0;
                for _ in 0..n {
                    let mut p = mk_project(&outdir, &config_text(&h, libs), libs, true);
                    nd += p.analyse().len();
                }
                println!("{libs:?}: {:.1} ms per project (load + analyse), diagnostics={nd}", t0.elapsed().as_secs_f64() * 1000.0 / n as f64);
            }
        }
        _ => usage(),
    }
}

fn panic_exit(msg: &str) -> ! {
    eprintln!("c01: {msg}");
    std::process::exit(2)
}
