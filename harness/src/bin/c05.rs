//! C05/C06 harness: analyses printed MiniVHDL programs (and the bundled libraries) and reports diagnostics.
//!
//! usage: c05 libs <out> [standard]
//!          analyse /repo/vhdl_libraries (std + ieee as configured there) alone.
//!        c05 run <bundle> <out> <workdir> [threads] [batch] [standard]
//!          standard = 1993 | 2008 | 2019: the `standard` key of the project configuration (default: the
//!          implementation's default)
//!          bundle (text, produced by the extracted printer via ocaml/c05_run.ml):
//!              P <pid>                         starts a program
//!              F <library> <file name> <n>     a file of n lines, followed by exactly n lines of text
//!          Library names are unique per program (the printer puts the program tag into them), so many
//!          programs share one `Project` (one batch = one Project = one load of std/ieee).
//! out: one JSON object per line:
//!   {"pid": "...", "panic": false, "diags": [{"file","lib","sl","sc","el","ec","code","sev","msg"}...]}
//! (all severities are emitted; severity from the default SeverityMap; `pid` = "@libs" for the bundled
//!  libraries and for diagnostics in a batch that belong to no program file.)
use std::collections::HashMap;
use std::io::Write as _;
use std::panic::{catch_unwind, AssertUnwindSafe};
use std::path::{Path, PathBuf};
use std::sync::{Arc, Mutex};
use vhdl_lang::{Config, Diagnostic, MessageHandler, Message, Project, Severity, SeverityMap};

struct Quiet;
impl MessageHandler for Quiet {
    fn push(&mut self, _m: Message) {}
}

#[derive(Clone)]
struct FileEnt {
    lib: String,
    name: String,
    text: String,
}
#[derive(Clone)]
struct Prog {
    pid: String,
    files: Vec<FileEnt>,
}

fn parse_bundle(path: &str) -> Vec<Prog> {
    let data = std::fs::read_to_string(path).expect("bundle");
    let mut progs: Vec<Prog> = vec![];
    let mut lines = data.split('\n');
    while let Some(l) = lines.next() {
        if let Some(rest) = l.strip_prefix("P ") {
            progs.push(Prog { pid: rest.trim().to_string(), files: vec![] });
        } else if let Some(rest) = l.strip_prefix("F ") {
            let f: Vec<&str> = rest.split(' ').collect();
            let n: usize = f[2].parse().unwrap();
            let mut text = String::new();
            for _ in 0..n {
                text.push_str(lines.next().unwrap_or(""));
                text.push('\n');
            }
            progs.last_mut().unwrap().files.push(FileEnt { lib: f[0].to_string(), name: f[1].to_string(), text });
        }
    }
    progs
}

fn sev_name(s: Option<Severity>) -> &'static str {
    match s {
        Some(Severity::Error) => "error",
        Some(Severity::Warning) => "warning",
        Some(Severity::Info) => "info",
        Some(Severity::Hint) => "hint",
        None => "none",
    }
}

fn diag_json(d: &Diagnostic, lib: &str, file: &str, sm: &SeverityMap) -> serde_json::Value {
    serde_json::json!({
        "file": file, "lib": lib,
        "sl": d.pos.range.start.line, "sc": d.pos.range.start.character,
        "el": d.pos.range.end.line, "ec": d.pos.range.end.character,
        "code": format!("{:?}", d.code), "sev": sev_name(sm[d.code]), "msg": d.message,
    })
}

fn base_config() -> Config {
    let mut msgs = Quiet;
    let mut cfg = Config::default();
    cfg.load_external_config(&mut msgs, Some("/repo/vhdl_libraries".to_string()));
    cfg
}

fn run_libs(out: &str, standard: Option<String>) {
    let sm = SeverityMap::default();
    let mut msgs = Quiet;
    let r = catch_unwind(AssertUnwindSafe(|| {
        let mut cfg = base_config();
        if let Some(st) = &standard {
            let c2 = Config::from_str(&format!("standard = \"{st}\"\n[libraries]\n"), Path::new("/")).expect("config");
            cfg.append(&c2, &mut msgs);
        }
        let mut p = Project::from_config(cfg, &mut msgs);
        let nfiles = p.files().count();
        (p.analyse(), nfiles)
    }));
    let mut f = std::fs::File::create(out).unwrap();
    match r {
        Ok((diags, nfiles)) => {
            let v: Vec<_> = diags
                .iter()
                .map(|d| {
                    let file = d.pos.source.file_name().display().to_string();
                    diag_json(d, "", &file, &sm)
                })
                .collect();
            writeln!(f, "{}", serde_json::json!({"pid": "@libs", "panic": false, "nfiles": nfiles, "diags": v})).unwrap();
        }
        Err(_) => {
            writeln!(f, "{}", serde_json::json!({"pid": "@libs", "panic": true, "diags": []})).unwrap();
        }
    }
}

fn run_batch(bi: usize, progs: &[Prog], workdir: &str, standard: &Option<String>) -> Vec<serde_json::Value> {
    let sm = SeverityMap::default();
    let dir = PathBuf::from(workdir).join(format!("b{bi}"));
    let _ = std::fs::remove_dir_all(&dir);
    std::fs::create_dir_all(&dir).unwrap();
    let mut toml = match standard {
        Some(st) => format!("standard = \"{st}\"\n[libraries]\n"),
        None => String::from("[libraries]\n"),
    };
    // file path -> (program index, lib, file name)
    let mut owner: HashMap<PathBuf, (usize, String, String)> = HashMap::new();
    let mut libs: Vec<(String, Vec<String>)> = vec![];
    for (pi, p) in progs.iter().enumerate() {
        for fe in &p.files {
            let rel = format!("p{}_{}", pi, fe.name);
            let path = dir.join(&rel);
            std::fs::write(&path, &fe.text).unwrap();
            owner.insert(path.clone(), (pi, fe.lib.clone(), fe.name.clone()));
            match libs.iter_mut().find(|(l, _)| *l == fe.lib) {
                Some((_, v)) => v.push(rel),
                None => libs.push((fe.lib.clone(), vec![rel])),
            }
        }
    }
    for (l, files) in &libs {
        let fl: Vec<String> = files.iter().map(|f| format!("'{f}'")).collect();
        toml.push_str(&format!("{}.files = [{}]\n", l, fl.join(", ")));
    }
    std::fs::write(dir.join("vhdl_ls.toml"), &toml).unwrap();
    let dir2 = dir.clone();
    let r = catch_unwind(AssertUnwindSafe(move || {
        let mut msgs = Quiet;
        let mut cfg = base_config();
        let c2 = Config::from_str(&toml, &dir2).expect("config");
        cfg.append(&c2, &mut msgs);
        let mut p = Project::from_config(cfg, &mut msgs);
        p.analyse()
    }));
    let mut per: Vec<Vec<serde_json::Value>> = vec![vec![]; progs.len()];
    let mut other: Vec<serde_json::Value> = vec![];
    let mut res = vec![];
    match r {
        Ok(diags) => {
            for d in &diags {
                let fname = d.pos.source.file_name().to_path_buf();
                match owner.get(&fname) {
                    Some((pi, lib, name)) => per[*pi].push(diag_json(d, lib, name, &sm)),
                    None => {
                        // diagnostics in the bundled libraries are reported by `libs`; keep errors only
                        if sm[d.code] == Some(Severity::Error) {
                            other.push(diag_json(d, "", &fname.display().to_string(), &sm))
                        }
                    }
                }
            }
            for (pi, p) in progs.iter().enumerate() {
                res.push(serde_json::json!({"pid": p.pid, "panic": false, "diags": per[pi]}));
            }
            if !other.is_empty() {
                res.push(serde_json::json!({"pid": "@libs", "panic": false, "batch": bi, "diags": other}));
            }
        }
        Err(_) => {
            // find the culprit(s): re-run every program of the batch alone
            if progs.len() == 1 {
                res.push(serde_json::json!({"pid": progs[0].pid, "panic": true, "diags": []}));
            } else {
                for (pi, p) in progs.iter().enumerate() {
                    let sub = run_batch(bi * 100000 + pi + 1, std::slice::from_ref(p), workdir, standard);
                    res.extend(sub);
                }
            }
        }
    }
    let _ = std::fs::remove_dir_all(&dir);
    res
}

fn main() {
    std::panic::set_hook(Box::new(|_| {}));
    let args: Vec<String> = std::env::args().collect();
    match args.get(1).map(|s| s.as_str()) {
        Some("libs") => run_libs(&args[2], args.get(3).cloned()),
        Some("run") => {
            let progs = parse_bundle(&args[2]);
            let out = &args[3];
            let workdir = args[4].clone();
            let threads: usize = args.get(5).and_then(|s| s.parse().ok()).unwrap_or(16);
            let batch: usize = args.get(6).and_then(|s| s.parse().ok()).unwrap_or(64);
            let standard: Option<String> = args.get(7).cloned();
            std::fs::create_dir_all(&workdir).unwrap();
            let batches: Vec<(usize, Vec<Prog>)> =
                progs.chunks(batch.max(1)).enumerate().map(|(i, c)| (i, c.to_vec())).collect();
            let queue = Arc::new(Mutex::new(batches));
            let results: Arc<Mutex<Vec<(usize, Vec<serde_json::Value>)>>> = Arc::new(Mutex::new(vec![]));
            let mut hs = vec![];
            for _ in 0..threads.max(1) {
                let q = queue.clone();
                let rs = results.clone();
                let wd = workdir.clone();
                let st = standard.clone();
                hs.push(std::thread::Builder::new().stack_size(256 << 20).spawn(move || loop {
                    let item = q.lock().unwrap().pop();
                    match item {
                        Some((bi, ps)) => {
                            let r = run_batch(bi, &ps, &wd, &st);
                            rs.lock().unwrap().push((bi, r));
                        }
                        None => break,
                    }
                }).unwrap());
            }
            for h in hs {
                let _ = h.join();
            }
            let mut rs = results.lock().unwrap();
            rs.sort_by_key(|(bi, _)| *bi);
            let mut f = std::io::BufWriter::new(std::fs::File::create(out).unwrap());
            for (_, r) in rs.iter() {
                for v in r {
                    writeln!(f, "{}", v).unwrap();
                }
            }
        }
        _ => {
            eprintln!("usage: c05 libs <out> | c05 run <bundle> <out> <workdir> [threads] [batch]");
            std::process::exit(2);
        }
    }
    let _ = Path::new(".");
}
