//! C02 harness: parsing is total and yields in-bounds, consistent syntax.
//!
//! usage: c02 gen <seed> <tier> <cases_out>          generate inputs (one per line: `<class> <hex of UTF-8>`)
//!        c02 genstack <tier> <cases_out>            the recursion-depth stream for the unoptimised build
//!        c02 work <cases> <out> <start> <end> [<stride> <offset>]   run the oracle on the cases i in [start,end) with
//!                                                    i % stride == offset (a child of the watchdog)
//!        c02 expand <recipe>                        print the text of a recipe case (`@nest:..`, `@chain:..`, `@nestproc,n`, `@nestfunc,n`)
//!        c02 ops <seed> <n> <cases_out> <impl_out>  cursor-algebra differential (TokenStream vs Parse/Stream.v)
//!        c02 opsfile <cases_in> <impl_out>          the same on recorded cases
//!
//! `work` writes, flushed, `B <i> <bytes>` before an input is touched and `R <i> <json>` after it: when the
//! process hangs, is killed or aborts, the last `B` names the input in flight (checks/c02.py is the
//! watchdog: CPU time per input, address-space limit, abnormal exit).
//!
//! ORACLE per input (independent of the Coq model), on `VHDLParser::parse_design_source`:
//!   * no panic (catch_unwind), no diagnostic flood (a loop that does not consume);
//!   * the units' token vectors are non-empty, and their concatenation is a prefix of the token list
//!     obtained by tokenising the text separately (Tokenizer + TokenStream::new through hook H1);
//!   * every `TokenId` stored anywhere in a unit (scan of the `Debug` rendering, string and character
//!     literals skipped) is smaller than the length of the unit's own token vector and every
//!     `TokenSpan` has start <= end;
//!   * a position-touching `Searcher` walks every unit with the unit's own token vector as the
//!     `TokenAccess`: no panic, every position handed out or reachable from the declarations
//!     (identifiers, spans, end identifiers) is an ordered range inside the text;
//!   * every diagnostic range (and related range) is ordered and lies inside the text, or is the
//!     EOF marker [end, end+1);
//!   * the per-iteration records of hook H3 are written out for the replay through the Coq model of
//!     the loop (Parse/DesignFileLoop.v).
use std::fmt::Write as _;
use std::io::Write as _;
use std::panic::{catch_unwind, AssertUnwindSafe};
use std::path::Path;
use verif_harness::rng::Rng;
use vhdl_lang::ast::search::{DeclarationItem, FoundDeclaration, NotFinished, Search, SearchState, Searcher};
use vhdl_lang::ast::*;
use vhdl_lang::verif::data::{ContentReader, DiagnosticHandler};
use vhdl_lang::verif::syntax::{
    kind_str, kinds_error, verif_expect_semicolon_or_last, verif_or_recover_until, verif_take_loop_trace, Kind,
    Symbols, TokenStream, Tokenizer, Value,
};
use vhdl_lang::{
    Diagnostic, HasTokenSpan, Position, Range, Source, SrcPos, Token, TokenAccess, TokenId, TokenSpan, VHDLParser,
    VHDLStandard,
};

// ---------------------------------------------------------------------------------------------
// text geometry (independent of Contents): LSP lines and the EOF marker
// ---------------------------------------------------------------------------------------------
struct TextIndex {
    /// UTF-16 length of every line of the text (terminators LF, CR, CRLF excluded); the text after
    /// the last terminator is the last line (possibly empty)
    len16: Vec<u32>,
    /// [end, end+1) where end = (index of the last stored line, its UTF-16 length with the terminator
    /// counted as one unit); (0,0) for the empty text
    eof: Range,
}

fn text_index(text: &str) -> TextIndex {
    let mut len16 = Vec::new();
    let mut cur: u32 = 0;
    let mut stored_lines: u32 = 0; // lines of `Contents`: every terminated line, plus a non-empty rest
    let mut last_stored_len: u32 = 0;
    let cs: Vec<char> = text.chars().collect();
    let mut i = 0;
    while i < cs.len() {
        let c = cs[i];
        if c == '\n' || c == '\r' {
            if c == '\r' && i + 1 < cs.len() && cs[i + 1] == '\n' {
                i += 1;
            }
            len16.push(cur);
            stored_lines += 1;
            last_stored_len = cur + 1;
            cur = 0;
        } else {
            cur += c.len_utf16() as u32;
        }
        i += 1;
    }
    len16.push(cur);
    if cur > 0 {
        stored_lines += 1;
        last_stored_len = cur;
    }
    let end = Position {
        line: stored_lines.saturating_sub(1),
        character: if stored_lines == 0 { 0 } else { last_stored_len },
    };
    TextIndex {
        len16,
        eof: Range {
            start: end,
            end: Position {
                line: end.line,
                character: end.character + 1,
            },
        },
    }
}

impl TextIndex {
    fn pos_ok(&self, p: Position) -> bool {
        (p.line as usize) < self.len16.len() && p.character <= self.len16[p.line as usize]
    }
    fn range_in_text(&self, r: Range) -> bool {
        r.start <= r.end && self.pos_ok(r.start) && self.pos_ok(r.end)
    }
    fn diag_range_ok(&self, r: Range) -> bool {
        self.range_in_text(r) || r == self.eof
    }
}

/// The lines of the text (terminators LF, CR, CRLF removed), for slicing by UTF-16 columns.
fn text_lines(text: &str) -> Vec<&str> {
    let mut out = Vec::new();
    let b = text.as_bytes();
    let mut s = 0;
    let mut i = 0;
    while i < b.len() {
        if b[i] == b'\n' || b[i] == b'\r' {
            out.push(&text[s..i]);
            if b[i] == b'\r' && i + 1 < b.len() && b[i + 1] == b'\n' {
                i += 1;
            }
            s = i + 1;
        }
        i += 1;
    }
    out.push(&text[s..]);
    out
}

/// Tokens whose value carries the source text of the literal (bit strings are re-read from the line
/// by `ContentReader::value_at`, abstract literals are collected while scanning): that text must be
/// the source between the token's UTF-16 columns.  One UTF-16 encoding per line is cached.
fn check_literal_texts(text: &str, toks: &[Token], viol: &mut Vec<String>) {
    let mut lines: Option<Vec<&str>> = None;
    let mut cached: Option<(usize, Vec<u16>)> = None;
    for t in toks {
        let lit = match &t.value {
            Value::BitString(txt, _) => txt.to_string(),
            Value::AbstractLiteral(txt, _) => txt.to_string(),
            _ => continue,
        };
        let r = t.pos.range();
        if r.start.line != r.end.line {
            continue;
        }
        let ls = lines.get_or_insert_with(|| text_lines(text));
        let ln = r.start.line as usize;
        if ln >= ls.len() {
            continue; // reported by the range checks
        }
        if cached.as_ref().map(|c| c.0) != Some(ln) {
            cached = Some((ln, ls[ln].encode_utf16().collect()));
        }
        let u = &cached.as_ref().unwrap().1;
        let (a, b) = (r.start.character as usize, r.end.character as usize);
        if a > b || b > u.len() {
            continue;
        }
        let slice = String::from_utf16_lossy(&u[a..b]);
        if slice != lit {
            if viol.len() < 6 {
                viol.push(format!(
                    "token {} at {} carries the literal text {:?}, the source between its columns is {:?}",
                    kind_str(t.kind),
                    fmt_range(r),
                    lit,
                    slice
                ));
            }
            return;
        }
    }
}

fn fmt_range(r: Range) -> String {
    format!("{}:{}-{}:{}", r.start.line, r.start.character, r.end.line, r.end.character)
}

// ---------------------------------------------------------------------------------------------
// diagnostics handler with flood detection
// ---------------------------------------------------------------------------------------------
struct Flood {
    v: Vec<Diagnostic>,
    limit: usize,
}
impl DiagnosticHandler for Flood {
    fn push(&mut self, d: Diagnostic) {
        if self.v.len() >= self.limit {
            panic!("DIAG-FLOOD");
        }
        self.v.push(d)
    }
}

// ---------------------------------------------------------------------------------------------
// scan of the Debug rendering of a unit: every TokenId / TokenSpan
// ---------------------------------------------------------------------------------------------
struct IdScan {
    ids: usize,
    spans: usize,
    max_id: Option<usize>,
    bad: Vec<String>,
}

fn scan_debug(s: &str, ntok: usize) -> IdScan {
    let b: Vec<char> = s.chars().collect();
    let mut out = IdScan {
        ids: 0,
        spans: 0,
        max_id: None,
        bad: Vec::new(),
    };
    let n = b.len();
    let mut i = 0;
    let digits = |j: &mut usize| -> Option<usize> {
        let s0 = *j;
        let mut v: u128 = 0;
        while *j < n && b[*j].is_ascii_digit() {
            v = (v * 10 + b[*j].to_digit(10).unwrap() as u128).min(u64::MAX as u128);
            *j += 1;
        }
        if *j > s0 {
            Some(v as usize)
        } else {
            None
        }
    };
    let note = |out: &mut IdScan, id: usize| {
        out.ids += 1;
        out.max_id = Some(out.max_id.map_or(id, |m| m.max(id)));
        if id >= ntok && out.bad.len() < 4 {
            out.bad.push(format!("TokenId({}) >= {} tokens of its unit", id, ntok));
        }
    };
    while i < n {
        let c = b[i];
        if c == '"' {
            // string literal of the Debug output: skip to the closing unescaped quote
            i += 1;
            while i < n && b[i] != '"' {
                if b[i] == '\\' {
                    i += 1;
                }
                i += 1;
            }
            i += 1;
        } else if c == '\'' {
            // char literal: 'x', '\n', '\'', '\u{..}'
            if i + 1 < n && b[i + 1] == '\\' {
                i += 2;
                while i < n && b[i] != '\'' {
                    i += 1;
                }
                // '\'' : the quote found is the escaped one when directly after the backslash
                if i + 1 < n && b[i - 1] == '\\' && b[i + 1] == '\'' {
                    i += 1;
                }
                i += 1;
            } else if i + 2 < n && b[i + 2] == '\'' {
                i += 3;
            } else {
                i += 1;
            }
        } else if c == 'T' && s[..].len() > 0 && b[i..].starts_with(&['T', 'o', 'k', 'e', 'n', 'I', 'd', '(']) {
            let mut j = i + 8;
            if let Some(id) = digits(&mut j) {
                note(&mut out, id);
            }
            i = j;
        } else if c.is_ascii_digit() && (i == 0 || !(b[i - 1].is_alphanumeric() || b[i - 1] == '_' || b[i - 1] == '.')) {
            // `start:end` = Display/Debug of a TokenSpan
            let mut j = i;
            let a = digits(&mut j);
            if j < n && b[j] == ':' && j + 1 < n && b[j + 1].is_ascii_digit() {
                j += 1;
                let e = digits(&mut j);
                if let (Some(a), Some(e)) = (a, e) {
                    out.spans += 1;
                    note(&mut out, a);
                    note(&mut out, e);
                    if a > e && out.bad.len() < 4 {
                        out.bad.push(format!("TokenSpan {}:{} has start > end", a, e));
                    }
                }
            }
            i = j.max(i + 1);
        } else {
            i += 1;
        }
    }
    out
}

// ---------------------------------------------------------------------------------------------
// the position-touching Searcher
// ---------------------------------------------------------------------------------------------
struct Walk<'a> {
    ti: &'a TextIndex,
    touched: usize,
    decls: usize,
    bad: Vec<String>,
}

impl Walk<'_> {
    fn touch(&mut self, what: &str, pos: &SrcPos) {
        self.touched += 1;
        let r = pos.range();
        if !self.ti.range_in_text(r) && self.bad.len() < 4 {
            self.bad.push(format!("{} position {} is not an ordered range inside the text", what, fmt_range(r)));
        }
    }
    fn id(&mut self, what: &str, ctx: &dyn TokenAccess, id: TokenId) {
        let p = ctx.get_pos(id).clone();
        self.touch(what, &p);
    }
    fn opt_id(&mut self, what: &str, ctx: &dyn TokenAccess, id: Option<TokenId>) {
        if let Some(id) = id {
            self.id(what, ctx, id);
        }
    }
    fn span(&mut self, what: &str, ctx: &dyn TokenAccess, span: TokenSpan) {
        if span.start_token > span.end_token && self.bad.len() < 4 {
            self.bad.push(format!("{} span {:?} has start > end", what, span));
        }
        let p = span.pos(ctx);
        self.touch(what, &p);
        self.id(what, ctx, span.start_token);
        self.id(what, ctx, span.end_token);
    }
    fn ident(&mut self, what: &str, ctx: &dyn TokenAccess, ident: &Ident) {
        let p = ident.pos(ctx).clone();
        self.touch(what, &p);
    }
    fn spanned(&mut self, what: &str, ctx: &dyn TokenAccess, x: &dyn HasTokenSpan) {
        let p = x.get_pos(ctx);
        self.touch(what, &p);
        self.span(what, ctx, TokenSpan {
            start_token: x.get_start_token(),
            end_token: x.get_end_token(),
        });
    }
}

impl Searcher for Walk<'_> {
    fn search_pos_with_ref(&mut self, _ctx: &dyn TokenAccess, pos: &SrcPos, _r: &vhdl_lang::verif::named_entity::Reference) -> SearchState {
        self.touch("reference", pos);
        NotFinished
    }
    fn search_with_pos(&mut self, _ctx: &dyn TokenAccess, pos: &SrcPos) -> SearchState {
        self.touch("search_with_pos", pos);
        NotFinished
    }
    fn search_decl(&mut self, ctx: &dyn TokenAccess, decl: FoundDeclaration<'_>) -> SearchState {
        self.decls += 1;
        match &decl.ast {
            DeclarationItem::Object(o) => {
                self.id("object colon", ctx, o.colon_token);
                for i in o.idents.iter() {
                    self.ident("object ident", ctx, &i.tree);
                }
                if let Some(e) = &o.expression {
                    self.span("object expression", ctx, e.span);
                }
            }
            DeclarationItem::ElementDeclaration(e) => {
                self.spanned("element", ctx, *e);
                self.id("element colon", ctx, e.colon_token);
                for i in e.idents.iter() {
                    self.ident("element ident", ctx, &i.tree);
                }
            }
            DeclarationItem::EnumerationLiteral(id, lit) => {
                self.ident("enum type ident", ctx, id);
                self.id("enum literal", ctx, lit.tree.token);
            }
            DeclarationItem::InterfaceObject(o) => {
                self.spanned("interface object", ctx, *o);
                self.id("interface colon", ctx, o.colon_token);
                for i in o.idents.iter() {
                    self.ident("interface ident", ctx, &i.tree);
                }
            }
            DeclarationItem::InterfaceFile(o) => {
                self.spanned("interface file", ctx, *o);
                self.id("interface file colon", ctx, o.colon_token);
                for i in o.idents.iter() {
                    self.ident("interface file ident", ctx, &i.tree);
                }
            }
            DeclarationItem::File(f) => {
                self.id("file colon", ctx, f.colon_token);
                for i in f.idents.iter() {
                    self.ident("file ident", ctx, &i.tree);
                }
                if let Some((t, e)) = &f.open_info {
                    self.id("file open", ctx, *t);
                    self.span("file open expr", ctx, e.span);
                }
                if let Some((t, e)) = &f.file_name {
                    self.id("file is", ctx, *t);
                    self.span("file name expr", ctx, e.span);
                }
            }
            DeclarationItem::Type(t) => {
                self.spanned("type", ctx, *t);
                self.ident("type ident", ctx, &t.ident.tree);
                self.opt_id("type end ident", ctx, t.end_ident_pos);
            }
            DeclarationItem::InterfaceType(i) => self.ident("interface type", ctx, &i.tree),
            DeclarationItem::InterfacePackage(p) => {
                self.spanned("interface package", ctx, *p);
                self.ident("interface package ident", ctx, &p.ident.tree);
                self.span("interface package name", ctx, p.package_name.span);
                self.span("interface package map", ctx, p.generic_map.span);
            }
            DeclarationItem::PhysicalTypePrimary(i) => self.ident("physical primary", ctx, &i.tree),
            DeclarationItem::PhysicalTypeSecondary(i, lit) => {
                self.ident("physical secondary", ctx, &i.tree);
                self.ident("physical unit", ctx, &lit.unit.item);
            }
            DeclarationItem::Component(c) => {
                self.spanned("component", ctx, *c);
                self.ident("component ident", ctx, &c.ident.tree);
                self.opt_id("component is", ctx, c.is_token);
                self.id("component end", ctx, c.end_token);
                self.opt_id("component end ident", ctx, c.end_ident_pos);
            }
            DeclarationItem::Attribute(a) => {
                self.ident("attribute ident", ctx, &a.ident.tree);
                self.span("attribute type mark", ctx, a.type_mark.span);
            }
            DeclarationItem::Alias(a) => {
                self.id("alias designator", ctx, a.designator.tree.token);
                self.id("alias is", ctx, a.is_token);
                self.span("alias name", ctx, a.name.span);
                if let Some(s) = &a.signature {
                    self.span("alias signature", ctx, s.span);
                }
            }
            DeclarationItem::SubprogramDecl(s) => {
                self.spanned("subprogram specification", ctx, *s);
                match s {
                    SubprogramSpecification::Procedure(p) => self.id("procedure designator", ctx, p.designator.tree.token),
                    SubprogramSpecification::Function(f) => {
                        self.id("function designator", ctx, f.designator.tree.token);
                        self.span("function return type", ctx, f.return_type.span);
                        if let Some(r) = &f.return_identifier {
                            self.ident("return identifier", ctx, &r.tree);
                        }
                    }
                }
            }
            DeclarationItem::ReturnIdentifier(i) => self.ident("return identifier", ctx, &i.tree),
            DeclarationItem::Subprogram(b) => {
                self.spanned("subprogram body", ctx, *b);
                self.id("subprogram begin", ctx, b.begin_token);
                self.id("subprogram end", ctx, b.end_token);
                self.opt_id("subprogram end ident", ctx, b.end_ident_pos);
                for d in b.declarations.iter() {
                    self.span("subprogram declaration", ctx, d.span);
                }
            }
            DeclarationItem::SubprogramInstantiation(i) => {
                self.spanned("subprogram instantiation", ctx, *i);
                self.ident("subprogram instantiation ident", ctx, &i.ident.tree);
                self.span("subprogram instantiation name", ctx, i.subprogram_name.span);
            }
            DeclarationItem::Package(p) => {
                self.spanned("package", ctx, *p);
                self.ident("package ident", ctx, &p.ident.tree);
                self.id("package end", ctx, p.end_token);
                self.opt_id("package end ident", ctx, p.end_ident_pos);
                for d in p.decl.iter() {
                    self.span("package declaration", ctx, d.span);
                }
            }
            DeclarationItem::PackageBody(p) => {
                self.spanned("package body", ctx, *p);
                self.ident("package body ident", ctx, &p.ident.tree);
                self.id("package body end", ctx, p.end_token);
                self.opt_id("package body end ident", ctx, p.end_ident_pos);
                for d in p.decl.iter() {
                    self.span("package body declaration", ctx, d.span);
                }
            }
            DeclarationItem::PackageInstance(p) => {
                self.spanned("package instance", ctx, *p);
                self.ident("package instance ident", ctx, &p.ident.tree);
                self.span("package instance name", ctx, p.package_name.span);
            }
            DeclarationItem::Configuration(c) => {
                self.spanned("configuration", ctx, *c);
                self.ident("configuration ident", ctx, &c.ident.tree);
                self.span("configuration entity", ctx, c.entity_name.span);
                self.id("configuration end", ctx, c.end_token);
                self.opt_id("configuration end ident", ctx, c.end_ident_pos);
                self.spanned("block configuration", ctx, &c.block_config);
            }
            DeclarationItem::Entity(e) => {
                self.spanned("entity", ctx, *e);
                self.ident("entity ident", ctx, &e.ident.tree);
                self.opt_id("entity begin", ctx, e.begin_token);
                self.id("entity end", ctx, e.end_token);
                self.opt_id("entity end ident", ctx, e.end_ident_pos);
                if let Some(l) = &e.generic_clause {
                    self.spanned("entity generics", ctx, l);
                }
                if let Some(l) = &e.port_clause {
                    self.spanned("entity ports", ctx, l);
                }
                for d in e.decl.iter() {
                    self.span("entity declaration", ctx, d.span);
                }
            }
            DeclarationItem::Architecture(a) => {
                self.spanned("architecture", ctx, *a);
                self.ident("architecture ident", ctx, &a.ident.tree);
                self.ident("architecture entity", ctx, &a.entity_name.item);
                self.id("architecture begin", ctx, a.begin_token);
                self.id("architecture end", ctx, a.end_token);
                self.opt_id("architecture end ident", ctx, a.end_ident_pos);
                for d in a.decl.iter() {
                    self.span("architecture declaration", ctx, d.span);
                }
            }
            DeclarationItem::Context(c) => {
                self.spanned("context", ctx, *c);
                self.ident("context ident", ctx, &c.ident.tree);
                self.id("context end", ctx, c.end_token);
                self.opt_id("context end ident", ctx, c.end_ident_pos);
            }
            DeclarationItem::ForIndex(i, _) => self.ident("for index", ctx, &i.tree),
            DeclarationItem::ForGenerateIndex(l, g) => {
                if let Some(l) = l {
                    self.ident("generate label", ctx, l);
                }
                self.spanned("for generate", ctx, *g);
                self.ident("generate index", ctx, &g.index_name.tree);
                self.id("generate token", ctx, g.generate_token);
                self.id("generate end", ctx, g.end_token);
                if let Some(p) = &g.end_label_pos {
                    self.touch("generate end label", p);
                }
            }
            DeclarationItem::GenerateBody(i) => self.ident("generate body label", ctx, &i.tree),
            DeclarationItem::ConcurrentStatement(s) => {
                if let Some(l) = &s.label.tree {
                    self.ident("concurrent label", ctx, l);
                }
                self.span("concurrent statement", ctx, s.statement.span);
            }
            DeclarationItem::SequentialStatement(s) => {
                if let Some(l) = &s.label.tree {
                    self.ident("sequential label", ctx, l);
                }
                self.span("sequential statement", ctx, s.statement.span);
            }
            DeclarationItem::View(v) => {
                self.ident("view ident", ctx, &v.ident.tree);
                self.id("view is", ctx, v.is_token);
                self.id("view end", ctx, v.end_token);
                self.opt_id("view end ident", ctx, v.end_ident_pos);
                for e in v.elements.iter() {
                    self.spanned("view element", ctx, e);
                    self.id("view element colon", ctx, e.colon_token);
                    for n in e.names.iter() {
                        self.ident("view element name", ctx, &n.tree);
                    }
                }
            }
        }
        NotFinished
    }
}

// ---------------------------------------------------------------------------------------------
// the oracle on one input
// ---------------------------------------------------------------------------------------------
fn unit_kind(u: &AnyDesignUnit) -> &'static str {
    match u {
        AnyDesignUnit::Primary(AnyPrimaryUnit::Entity(_)) => "entity",
        AnyDesignUnit::Primary(AnyPrimaryUnit::Configuration(_)) => "configuration",
        AnyDesignUnit::Primary(AnyPrimaryUnit::Package(_)) => "package",
        AnyDesignUnit::Primary(AnyPrimaryUnit::PackageInstance(_)) => "package_instance",
        AnyDesignUnit::Primary(AnyPrimaryUnit::Context(_)) => "context",
        AnyDesignUnit::Secondary(AnySecondaryUnit::Architecture(_)) => "architecture",
        AnyDesignUnit::Secondary(AnySecondaryUnit::PackageBody(_)) => "package_body",
    }
}

/// Token identity: the keyword a unit / context item starts with, the unit's identifier, and the
/// kind of the last token of each span, looked up in the unit's OWN token vector.
fn check_unit_tokens(utoks: &Vec<Token>, unit: &AnyDesignUnit, viol: &mut Vec<String>) {
    let kind_at = |id: TokenId| utoks.get_token(id).map(|t| t.kind);
    let expect = |viol: &mut Vec<String>, what: &str, id: TokenId, kinds: &[Kind]| match kind_at(id) {
        Some(k) if kinds.contains(&k) => {}
        Some(k) => viol.push(format!(
            "{}: {:?} of the unit's token vector is `{}`, expected {}",
            what,
            id,
            kind_str(k),
            kinds.iter().map(|k| format!("`{}`", kind_str(*k))).collect::<Vec<_>>().join(" or ")
        )),
        None => viol.push(format!("{}: {:?} is outside the unit's {} tokens", what, id, utoks.len())),
    };
    let (start_kw, ident, clause): (Kind, TokenId, &ContextClause) = match unit {
        AnyDesignUnit::Primary(AnyPrimaryUnit::Entity(u)) => (Kind::Entity, u.ident.tree.token, &u.context_clause),
        AnyDesignUnit::Primary(AnyPrimaryUnit::Configuration(u)) => (Kind::Configuration, u.ident.tree.token, &u.context_clause),
        AnyDesignUnit::Primary(AnyPrimaryUnit::Package(u)) => (Kind::Package, u.ident.tree.token, &u.context_clause),
        AnyDesignUnit::Primary(AnyPrimaryUnit::PackageInstance(u)) => (Kind::Package, u.ident.tree.token, &u.context_clause),
        AnyDesignUnit::Primary(AnyPrimaryUnit::Context(u)) => (Kind::Context, u.ident.tree.token, &u.items),
        AnyDesignUnit::Secondary(AnySecondaryUnit::Architecture(u)) => (Kind::Architecture, u.ident.tree.token, &u.context_clause),
        AnyDesignUnit::Secondary(AnySecondaryUnit::PackageBody(u)) => (Kind::Package, u.ident.tree.token, &u.context_clause),
    };
    expect(viol, "first token of the unit's span", unit.get_start_token(), &[start_kw]);
    expect(viol, "identifier of the unit", ident, &[Kind::Identifier]);
    if unit.get_end_token() < unit.get_start_token() {
        viol.push(format!("unit span {:?}..{:?} has start > end", unit.get_start_token(), unit.get_end_token()));
    }
    for item in clause.iter() {
        let (what, kw) = match item {
            ContextItem::Library(_) => ("library clause of the unit's context clause", Kind::Library),
            ContextItem::Use(_) => ("use clause of the unit's context clause", Kind::Use),
            ContextItem::Context(_) => ("context reference of the unit's context clause", Kind::Context),
        };
        expect(viol, what, item.get_start_token(), &[kw]);
        if item.get_end_token() < item.get_start_token() {
            viol.push(format!("{} has start > end", what));
        }
        // a context item lies before the unit's own first token, except inside a context declaration
        if !matches!(unit, AnyDesignUnit::Primary(AnyPrimaryUnit::Context(_))) && item.get_end_token() >= unit.get_start_token() {
            viol.push(format!("{} ends at {:?}, not before the unit's first token {:?}", what, item.get_end_token(), unit.get_start_token()));
        }
    }
}

fn panic_msg(e: Box<dyn std::any::Any + Send>) -> String {
    let m = if let Some(s) = e.downcast_ref::<String>() {
        s.clone()
    } else if let Some(s) = e.downcast_ref::<&str>() {
        s.to_string()
    } else {
        "?".to_string()
    };
    m.chars().take(300).collect()
}

fn json_str(s: &str) -> String {
    serde_json::to_string(s).unwrap()
}

thread_local! {
    static LAST_PANIC_LOC: std::cell::RefCell<String> = const { std::cell::RefCell::new(String::new()) };
}

fn tokenize(symbols: &Symbols, source: &Source, limit: usize) -> (Vec<Token>, usize) {
    let contents = source.contents();
    let tokenizer = Tokenizer::new(symbols, source, ContentReader::new(&contents));
    let mut h = Flood { v: Vec::new(), limit };
    let stream = TokenStream::new(tokenizer, &mut h);
    let mut toks = Vec::new();
    while let Some(t) = stream.peek() {
        toks.push(t.clone());
        stream.skip();
    }
    (toks, h.v.len())
}

/// Runs everything on one text and returns the JSON result object (without braces' key "i").
fn oracle(parser: &VHDLParser, text: &str) -> String {
    let ti = text_index(text);
    let nchars = text.chars().count();
    let source = Source::inline(Path::new("/c02.vhd"), text);
    let mut viol: Vec<String> = Vec::new();
    let mut out = String::new();

    // independent tokenisation
    let lim = 4 * nchars + 64;
    let lexed = catch_unwind(AssertUnwindSafe(|| tokenize(&parser.symbols, &source, lim)));
    let (toks, nlexdiag) = match lexed {
        Ok(x) => x,
        Err(e) => {
            let m = panic_msg(e);
            let kind = if m.contains("DIAG-FLOOD") { "hang" } else { "panic" };
            return format!(
                "{{\"st\":\"{}\",\"msg\":{},\"viol\":[{}]}}",
                kind,
                json_str(&format!("TokenStream::new: {} @ {}", m, LAST_PANIC_LOC.with(|l| l.borrow().clone()))),
                json_str(&format!("tokenizer {}: {}", kind, m))
            );
        }
    };
    let nt = toks.len();

    // the parser
    let _ = verif_take_loop_trace();
    let mut h = Flood {
        v: Vec::new(),
        // a terminating parse pushes a bounded number of diagnostics per token; error recovery of nested
        // interface lists may multiply them (finding F54), hence the generous factor
        limit: 64 * nt + 16 * nchars + 4096,
    };
    let parsed = catch_unwind(AssertUnwindSafe(|| parser.parse_design_source(&source, &mut h)));
    let trace = verif_take_loop_trace();
    let mut tr = String::new();
    for (k, (i, o, l)) in trace.iter().enumerate() {
        if k > 0 {
            tr.push(',');
        }
        write!(tr, "[{},{},{}]", i, o, l).unwrap();
    }
    // one character per token: the kinds the dispatch of parse_design_file looks at, '.' for the rest
    let kinds: String = toks
        .iter()
        .map(|t| match t.kind {
            Kind::Library => 'l',
            Kind::Use => 'u',
            Kind::Context => 'c',
            Kind::Entity => 'e',
            Kind::Architecture => 'a',
            Kind::Configuration => 'f',
            Kind::Package => 'p',
            Kind::Body => 'b',
            Kind::Identifier => 'i',
            Kind::Is => 's',
            Kind::New => 'n',
            _ => '.',
        })
        .collect();
    let design_file = match parsed {
        Ok(df) => df,
        Err(e) => {
            let m = panic_msg(e);
            let kind = if m.contains("DIAG-FLOOD") { "hang" } else { "panic" };
            let loc = LAST_PANIC_LOC.with(|l| l.borrow().clone());
            return format!(
                "{{\"st\":\"{}\",\"msg\":{},\"nt\":{},\"trace\":[{}],\"kinds\":{},\"viol\":[{}]}}",
                kind,
                json_str(&format!("{} @ {}", m, loc)),
                nt,
                tr,
                json_str(&kinds),
                json_str(&format!("parse_design_source {}: {} @ {}", kind, m, loc))
            );
        }
    };
    let diags = h.v;

    // (0) literal texts
    check_literal_texts(text, &toks, &mut viol);

    // (1) slices
    let mut at = 0usize;
    let mut units = String::new();
    for (k, (utoks, unit)) in design_file.design_units.iter().enumerate() {
        if k > 0 {
            units.push(',');
        }
        write!(units, "[\"{}\",{}]", unit_kind(unit), utoks.len()).unwrap();
        if utoks.is_empty() {
            viol.push(format!("unit {} has an empty token vector", k));
        }
        if at + utoks.len() > nt {
            viol.push(format!(
                "unit {}: token vector [{}..{}) reaches beyond the {} tokens of the file",
                k,
                at,
                at + utoks.len(),
                nt
            ));
        } else {
            for (j, t) in utoks.iter().enumerate() {
                // Token: PartialEq is not reflexive for a real literal whose value is NaN (`0.0e+309` = 0 * inf):
                // fall back to kind, position and the Debug rendering of the value
                let o = &toks[at + j];
                if *t != *o && !(t.kind == o.kind && t.pos == o.pos && format!("{:?}", t.value) == format!("{:?}", o.value)) {
                    viol.push(format!(
                        "unit {}: token {} ({} at {}) is not token {} of the file ({} at {})",
                        k,
                        j,
                        kind_str(t.kind),
                        fmt_range(t.pos.range()),
                        at + j,
                        kind_str(toks[at + j].kind),
                        fmt_range(toks[at + j].pos.range())
                    ));
                    break;
                }
            }
        }
        at += utoks.len();
    }

    // (2) ids and spans of every unit, (3) the walk
    let mut nids = 0usize;
    let mut nspans = 0usize;
    let mut touched = 0usize;
    let mut ndecl = 0usize;
    for (k, (utoks, unit)) in design_file.design_units.iter().enumerate() {
        let before = viol.len();
        check_unit_tokens(utoks, unit, &mut viol);
        for v in viol[before..].iter_mut() {
            *v = format!("unit {} ({}): {}", k, unit_kind(unit), v);
        }
        let dbg = catch_unwind(AssertUnwindSafe(|| format!("{:?}", unit)));
        match dbg {
            Ok(d) => {
                let sc = scan_debug(&d, utoks.len());
                nids += sc.ids;
                nspans += sc.spans;
                for b in sc.bad {
                    viol.push(format!("unit {} ({}): {}", k, unit_kind(unit), b));
                }
            }
            Err(e) => viol.push(format!("unit {}: Debug rendering panics: {}", k, panic_msg(e))),
        }
        let walked = catch_unwind(AssertUnwindSafe(|| {
            let mut w = Walk {
                ti: &ti,
                touched: 0,
                decls: 0,
                bad: Vec::new(),
            };
            let _ = unit.search(utoks, &mut w);
            w.spanned("design unit", utoks, unit);
            (w.touched, w.decls, w.bad)
        }));
        match walked {
            Ok((t, d, bad)) => {
                touched += t;
                ndecl += d;
                for b in bad {
                    viol.push(format!("unit {} ({}): {}", k, unit_kind(unit), b));
                }
            }
            Err(e) => viol.push(format!(
                "unit {} ({}): walking the unit with its own token vector panics: {} @ {}",
                k,
                unit_kind(unit),
                panic_msg(e),
                LAST_PANIC_LOC.with(|l| l.borrow().clone())
            )),
        }
    }

    // (4) diagnostics
    let mut eofd = 0usize;
    let ntd = diags.iter().filter(|d| d.message.contains("Nesting too deep")).count();
    for d in diags.iter() {
        let r = d.pos.range();
        if r == ti.eof {
            eofd += 1;
        }
        if !ti.diag_range_ok(r) {
            viol.push(format!(
                "diagnostic {:?} at {} is neither inside the text nor the EOF marker {}",
                d.message,
                fmt_range(r),
                fmt_range(ti.eof)
            ));
        }
        for (p, m) in d.related.iter() {
            if !ti.diag_range_ok(p.range()) {
                viol.push(format!("related position {} ({:?}) is outside the text", fmt_range(p.range()), m));
            }
        }
    }
    let last_diag = diags.last().map(|d| fmt_range(d.pos.range())).unwrap_or_default();
    // the token under the cursor at the last mark of the trace (the one that starts no unit when the
    // loop was left through the Err return)
    let tail_tok = trace
        .last()
        .and_then(|(i, _, _)| toks.get(*i))
        .map(|t| fmt_range(t.pos.range()))
        .unwrap_or_default();
    viol.truncate(6);
    write!(
        out,
        "{{\"st\":\"ok\",\"nt\":{},\"nd\":{},\"nlexd\":{},\"eofd\":{},\"ntd\":{},\"units\":[{}],\"trace\":[{}],\"kinds\":{},\"tail_tok\":{},\"last_diag\":\"{}\",\"ids\":{},\"spans\":{},\"touched\":{},\"decls\":{},\"viol\":[{}]}}",
        nt,
        diags.len(),
        nlexdiag,
        eofd,
        ntd,
        units,
        tr,
        json_str(&kinds),
        json_str(&tail_tok),
        last_diag,
        nids,
        nspans,
        touched,
        ndecl,
        viol.iter().map(|v| json_str(v)).collect::<Vec<_>>().join(",")
    )
    .unwrap();
    out
}

// ---------------------------------------------------------------------------------------------
// input generation
// ---------------------------------------------------------------------------------------------
const WORDS: &[&str] = &[
    "entity", "is", "end", "(", ")", ";", ":", "'", "\"", "--", "/*", "*/", "`", "begin", "process", "<=", ":=",
    "package", "body", "architecture", "of", "use", "library", "context", ".", "all", "x\"", "1e", "16#", "#", "\\",
    "generate", "for", "if", "then", "case", "when", "=>", "|", "component", "port", "generic", "map", "function",
    "return", "procedure", "type", "record", "range", "to", "\r", "\n", "\t", " ", "-- vhdl_ls off\n",
    "-- vhdl_ls on\n", "protected", "view", "<<", ">>", "@", "^", "?", "??", "?=", "?/=", "abs", "not", "new", "null",
    "others", "open", "with", "select", "block", "configuration", "vunit", "assert", "report", "wait", "until", "on",
    "loop", "while", "next", "exit", "file", "alias", "attribute", "signal", "variable", "constant", "shared",
    "impure", "pure", "subtype", "array", "access", "units", "label", "force", "release", "in", "out", "inout",
    "buffer", "linkage", "bus", "register", "guarded", "transport", "reject", "inertial", "after", "unaffected",
    "severity", "default", "parameter", "group", "literal", "postponed", "sequence", "property", "restrict",
    "else", "elsif", "downto", "and", "or", "xor", "mod", "rem", "&", "+", "-", "*", "/", "**", "=", "/=", "<", ">",
    ">=", ",", "[", "]", "<>", "x", "y", "clk", "1", "2.5", "'1'", "\"01\"", "x\"AF\"", "16:FF:", "2:1:", "ns", "work", "ieee",
    "std_logic", "integer", "bit", "true", "e", "a", "p", "t", "private", "vpkg", "vmode", "vprop",
];
const NONLATIN: &[&str] = &["\u{20ac}", "\u{1F600}", "x\u{20ac}", "b\u{20ac}", "ux\u{20ac}", "sb\u{1F600}", "d\u{20ac}", "\u{0416}", "o\u{4e2d}", "\u{2028}"];

/// snippets per context: U top level, D declarative part, C concurrent statements, S sequential statements
const CATALOGUE: &[(char, &str)] = &[
    ('U', "library ieee , std ;"),
    ('U', "use ieee . std_logic_1164 . all , work . p . c ;"),
    ('U', "context work . ctx , lib . c2 ;"),
    ('U', "context ctx is library ieee ; use ieee . numeric_std . all ; context lib . c ; end context ctx ;"),
    ('U', "entity e is generic ( g : natural := 1 ; type t ; package p is new q generic map ( <> ) ; function f ( a : t ) return t is <> ) ; port ( signal clk : in std_logic ; q : out bit_vector ( 7 downto 0 ) := ( others => '0' ) ) ; constant c : integer := 1 ; begin assert g > 0 report \"x\" severity failure ; lbl : process begin wait ; end process ; end entity e ;"),
    ('U', "architecture rtl of e is signal s : bit ; begin s <= '1' ; end architecture rtl ;"),
    ('U', "package p is generic ( g : integer ) ; constant c : integer ; end package p ;"),
    ('U', "package body p is constant c : integer := 1 ; end package body p ;"),
    ('U', "package inst is new work . gp generic map ( g => 1 , t => bit ) ;"),
    ('U', "configuration cfg of e is use work . all ; for rtl for all : comp use entity work . e2 ( a ) generic map ( g => 1 ) port map ( a => b ) ; for inner end for ; end for ; for blk for u1 , u2 : c2 use configuration work . c ; end for ; end for ; end for ; end configuration cfg ;"),
    ('U', "configuration cfg of e is use vunit v1 , v2 ; for a end for ; end ;"),
    ('D', "signal a , b : std_logic_vector ( 7 downto 0 ) := ( others => '0' ) ;"),
    ('D', "signal g : bit bus := '1' ;"),
    ('D', "constant c : time := 10 ns ;"),
    ('D', "shared variable v : prot_t ;"),
    ('D', "variable v : integer range 0 to 7 := 3 ;"),
    ('D', "file f : text open read_mode is \"name.txt\" ;"),
    ('D', "file f2 : text ;"),
    ('D', "type enum_t is ( a , 'b' , c ) ;"),
    ('D', "type int_t is range 0 to 2 ** 8 - 1 ;"),
    ('D', "type phys_t is range 0 to 1e9 units fs ; ps = 1000 fs ; ns = 1000 ps ; end units phys_t ;"),
    ('D', "type arr_t is array ( natural range <> , 0 to 3 ) of bit ;"),
    ('D', "type rec_t is record a , b : integer ; c : bit_vector ( 1 downto 0 ) ; end record rec_t ;"),
    ('D', "type acc_t is access rec_t ;"),
    ('D', "type file_t is file of integer ;"),
    ('D', "type inc_t ;"),
    ('D', "type prot_t is protected procedure p ( x : integer ) ; impure function f return integer ; end protected prot_t ;"),
    ('D', "type prot_t is protected body variable v : integer ; procedure p ( x : integer ) is begin v := x ; end ; end protected body prot_t ;"),
    ('D', "subtype st is resolved std_ulogic range '0' to '1' ;"),
    ('D', "subtype sv is ( resolved ) std_ulogic_vector ( 3 downto 0 ) ;"),
    ('D', "subtype sr is rec_t ( a ( 1 to 2 ) , b ( open ) ) ;"),
    ('D', "alias al : std_logic is s ( 0 ) ;"),
    ('D', "alias \"+\" is ieee . numeric_std . \"+\" [ unsigned , unsigned return unsigned ] ;"),
    ('D', "alias 'a' is lib . pkg . 'a' [ return enum_t ] ;"),
    ('D', "attribute at : string ;"),
    ('D', "attribute at of s , t : signal is \"x\" ;"),
    ('D', "attribute at of f [ integer return bit ] : function is 1 ;"),
    ('D', "attribute at of all : entity is true ; attribute at of others : label is false ;"),
    ('D', "component comp is generic ( g : integer ) ; port ( a : in bit ; b : out bit ) ; end component comp ;"),
    ('D', "component c2 port ( x : inout bit ) ; end component ;"),
    ('D', "function f ( a , b : integer ; signal s : in bit ; file fl : text ) return integer ;"),
    ('D', "pure function f generic ( type t ) parameter ( a : t ) return r of t ;"),
    ('D', "impure function \"and\" ( l : t ) return t is variable v : t ; begin return l ; end function \"and\" ;"),
    ('D', "procedure pr ( constant a : in integer := 0 ; variable b : out bit ; signal c : inout bit_vector ) ;"),
    ('D', "procedure pr is begin null ; end procedure pr ;"),
    ('D', "function fi is new gf generic map ( t => integer ) ;"),
    ('D', "procedure pi is new gp [ integer , bit ] ;"),
    ('D', "package pi is new work . gp generic map ( default ) ;"),
    ('D', "package nested is constant c : bit := '0' ; end package nested ;"),
    ('D', "package body nested is end package body ;"),
    ('D', "use work . p . all ;"),
    ('D', "for all : comp use entity work . e ( a ) ; "),
    ('D', "for u1 : comp use open ;"),
    ('D', "disconnect s : bit after 1 ns ;"),
    ('D', "group g : grp ( a , b ) ;"),
    ('D', "view v of rec_t is a : in ; b : out ; c : view sub_v ; d , e : inout ; end view v ;"),
    ('D', "signal sv : rec_t ( a ( 3 downto 0 ) ) ; constant k : integer := f ( 1 , 2 ) ( 3 ) . x ' length ;"),
    ('C', "s <= a and b or not c after 1 ns , '0' after 2 ns ;"),
    ('C', "lbl : s <= transport a when c = '1' else b when d else unaffected ;"),
    ('C', "with sel select s <= a when \"00\" | \"01\" , b when 2 to 3 , c when others ;"),
    ('C', "with sel select ? s <= guarded reject 1 ns inertial a when '1' , b when others ;"),
    ('C', "( a , b ) <= tuple ;"),
    ('C', "s <= force in '1' ; s <= release out ;"),
    ('C', "p1 : postponed process ( clk , rst ) is variable v : integer ; begin if rising_edge ( clk ) then v := v + 1 ; end if ; end postponed process p1 ;"),
    ('C', "process ( all ) begin end process ;"),
    ('C', "blk : block ( g = '1' ) is generic ( n : integer ) ; generic map ( n => 1 ) ; port ( p : in bit ) ; port map ( p => s ) ; signal t : bit ; begin t <= guarded p ; end block blk ;"),
    ('C', "u1 : comp generic map ( g => 1 ) port map ( a => x , b => open ) ;"),
    ('C', "u2 : entity work . e ( rtl ) port map ( clk , rst , q ( 3 downto 0 ) => d , f ( y ) => z ) ;"),
    ('C', "u3 : configuration work . cfg ; u4 : component comp ; u5 : comp ;"),
    ('C', "gen : for i in 0 to 3 generate signal t : bit ; begin t <= s ( i ) ; end generate gen ;"),
    ('C', "gi : if a : c1 generate s <= '1' ; elsif b : c2 generate s <= '0' ; else c : generate begin s <= 'Z' ; end c ; end generate gi ;"),
    ('C', "gc : case sel generate when a1 : 1 | 2 => s <= '1' ; when others => s <= '0' ; end generate gc ;"),
    ('C', "assert a = b report \"msg\" & integer ' image ( x ) severity warning ;"),
    ('C', "postponed assert false ;"),
    ('C', "lbl : proc ( a , b => c ) ; pkg . proc2 ; postponed p3 ( 1 ) ;"),
    ('C', "s <= << signal . tb . dut . sig : std_logic >> ; t <= << constant ^ . ^ . c : integer >> ; u <= << variable @ lib . pkg . v : bit >> ;"),
    ('S', "wait on a , b until c = '1' for 10 ns ;"),
    ('S', "wait ;"),
    ('S', "assert x report \"m\" severity error ; report \"r\" ;"),
    ('S', "lbl : if a then b := 1 ; elsif c then b := 2 ; else b := 3 ; end if lbl ;"),
    ('S', "case ? sel is when '0' | '1' => null ; when \"10\" => x := 1 ; when others => y <= '0' ; end case ? ;"),
    ('S', "l1 : for i in a ' range loop next l1 when i = 1 ; exit when i = 2 ; end loop l1 ;"),
    ('S', "while x < 10 loop x := x + 1 ; end loop ; loop exit ; end loop ;"),
    ('S', "return ; return a + b ; null ;"),
    ('S', "v := a when c else b ; with s select v := 1 when '0' , 2 when others ;"),
    ('S', "sig <= a after 1 ns ; sig <= force '1' ; sig <= release ; ( x , y ) := pair ;"),
    ('S', "s <= a when c else b ; with sel select s <= transport '1' when a , '0' when others ;"),
    ('S', "proc ( 1 , x => y ) ; obj . method ; p . q ( 1 ) ( 2 ) ;"),
    ('S', "v := new integer ' ( 5 ) ; w := new string ( 1 to 3 ) ; deallocate ( v ) ;"),
    ('S', "x := ( 1 , 2 , others => 3 ) ; y := ( a => 1 , b | c => 2 , 3 to 4 => 5 ) ; z := t ' ( others => '0' ) ;"),
    ('S', "x := - a ** 2 * b / c mod d rem e + f - g & h sll 2 ; y := a ?= b ; z := ?? c ; w := abs x nand not y ;"),
    ('S', "x := a ' b ' c ( 1 ) ; y := s ' subtype ' high ; z := f ( a ) ' range ' length ; w := t ' ( 1 ) ' image ;"),
    ('S', "x := 16#FF# ; y := 2#1010_1010#e2 ; z := 1.5e-3 ; b := 8sb\"1010\" ; c := 12d\"13\" ; d := x\"AF\" ; t := 5 ns ;"),
    ('S', "block_lbl : block is variable v : integer ; begin v := 1 ; end block block_lbl ;"),
    // parser paths added by b083503 / 9be9082 / f856258 / 0240b0c / bba3236 / a41ca14
    ('C', "postponed s <= a ;"),
    ('C', "l : postponed s <= a when c else b ;"),
    ('C', "postponed ( a , b ) <= x ;"),
    ('C', "postponed << signal . t . s : bit >> <= '1' ;"),
    ('C', "postponed with sel select s <= a when '0' , b when others ;"),
    ('C', "s <= guarded x ;"),
    ('C', "l : s <= guarded transport x after 1 ns when c else y ;"),
    ('C', "postponed s <= guarded reject 1 ns inertial x ;"),
    ('D', "attribute a of 'c' : literal is 1 ;"),
    ('D', "attribute a of 'c' , \"+\" , e [ return t ] : literal is 1 ;"),
    ('A', "for all : c use open ; use lib . p . all ;"),
    ('A', "for u1 , u2 : c use entity w . e ( a ) ; use lib . p . all ; signal s : bit ;"),
    ('A', "for all : c use open ; use vunit v1 , v2 ; end for ;"),
    ('D', "for all : c use open ; use lib . p . all ;"),
    ('S', "x := 16:FF: ; y := 2:1:E3 ; z := 16:F.8: ; w := 16:FF ; v := 1 : 2 ; u := 16:g: ;"),
    ('D', "constant c : integer := 16:FF: ; constant d : integer := 16:"),
    ('U', "entity e is port ( a : in bit_vector ( 7 downto 0 ) := ; b : in bit ; c : out bit := ; d : inout t ) ; end ;"),
    ('U', "entity e is generic ( g : integer := ; type t ; h : := 1 ; ; k : natural ) ; port ( a : in ; b : bit ) ; end ;"),
    ('D', "procedure pr ( a : in bit_vector ( 7 downto 0 ) := ; b : in bit ; function f ( x : := ) return t ; c : t ) ;"),
];

const PREFIXES: &[&str] = &[
    "",
    "package p is ",
    "package body p is ",
    "entity e is ",
    "entity e is begin ",
    "architecture a of e is ",
    "architecture a of e is begin ",
    "architecture a of e is begin process begin ",
    "architecture a of e is begin process ( clk ) begin if x then ",
    "architecture a of e is begin g : for i in 0 to 1 generate ",
    "architecture a of e is begin b : block begin ",
    "package p is function f return integer is begin ",
    "package p is type t is protected body ",
    "configuration c of e is ",
    "context c is ",
    "library l ; use l . p . all ; entity e is ",
    "package p is procedure q is begin case x is when 1 => ",
];
const SUFFIXES: &[&str] = &[
    "",
    " end ;",
    " end process ; end ;",
    " end if ; end process ; end architecture ;",
    " end generate ; end ;",
    " ; end ; end ;",
    " end package ; package q is end ;",
    " ; entity f is end ;",
    " end case ; end ; end ;",
];

fn wrap(ctx: char, body: &str) -> String {
    match ctx {
        'D' => format!("package p is {} end package p ;", body),
        'C' => format!("entity e is end ; architecture a of e is begin {} end architecture a ;", body),
        'A' => format!("architecture a of e is {} begin end architecture a ;", body),
        'S' => format!(
            "package body p is procedure q is begin {} end procedure q ; end package body p ;",
            body
        ),
        _ => body.to_string(),
    }
}

/// rough lexemes of a text (comments dropped); good enough to mutate at token level
fn rough_tokens(text: &str) -> Vec<String> {
    let cs: Vec<char> = text.chars().collect();
    let mut out = Vec::new();
    let mut i = 0;
    let two = ["<=", ">=", "=>", ":=", "/=", "**", "<>", "<<", ">>", "?=", "??"];
    while i < cs.len() {
        let c = cs[i];
        if c.is_whitespace() {
            i += 1;
        } else if c == '-' && i + 1 < cs.len() && cs[i + 1] == '-' {
            while i < cs.len() && cs[i] != '\n' && cs[i] != '\r' {
                i += 1;
            }
        } else if c == '"' {
            let s = i;
            i += 1;
            while i < cs.len() && cs[i] != '"' && cs[i] != '\n' {
                i += 1;
            }
            i = (i + 1).min(cs.len());
            out.push(cs[s..i].iter().collect());
        } else if c == '\'' && i + 2 < cs.len() && cs[i + 2] == '\'' {
            out.push(cs[i..i + 3].iter().collect());
            i += 3;
        } else if c.is_alphanumeric() || c == '_' {
            let s = i;
            while i < cs.len() && (cs[i].is_alphanumeric() || cs[i] == '_' || (cs[i] == '.' && i + 1 < cs.len() && cs[i + 1].is_ascii_digit() && cs[s].is_ascii_digit()) || (cs[i] == '#' && cs[s].is_ascii_digit())) {
                i += 1;
            }
            out.push(cs[s..i].iter().collect());
        } else {
            let pair: String = cs[i..(i + 2).min(cs.len())].iter().collect();
            if two.contains(&pair.as_str()) {
                out.push(pair);
                i += 2;
            } else {
                out.push(c.to_string());
                i += 1;
            }
        }
    }
    out
}

fn join_tokens(r: &mut Rng, toks: &[String]) -> String {
    let mut s = String::new();
    for (k, t) in toks.iter().enumerate() {
        if k > 0 {
            match r.below(12) {
                0 => s.push('\n'),
                1 => s.push_str("\r\n"),
                2 => s.push_str("  "),
                3 => s.push_str(" -- c\n"),
                _ => s.push(' '),
            }
        }
        s.push_str(t);
    }
    s
}

fn library_files() -> Vec<(String, String)> {
    let mut v = Vec::new();
    let mut dirs = vec![std::path::PathBuf::from("/repo/vhdl_libraries")];
    while let Some(d) = dirs.pop() {
        let mut es: Vec<_> = std::fs::read_dir(&d).map(|x| x.filter_map(|e| e.ok()).collect()).unwrap_or_default();
        es.sort_by_key(|e: &std::fs::DirEntry| e.path());
        for e in es {
            let p = e.path();
            if p.is_dir() {
                dirs.push(p);
            } else if p.extension().map(|x| x == "vhd" || x == "vhdl").unwrap_or(false) {
                let b = std::fs::read(&p).unwrap();
                v.push((p.to_string_lossy().to_string(), b.iter().map(|&c| c as char).collect::<String>()));
            }
        }
    }
    v.sort();
    v
}

fn mutate_tokens(r: &mut Rng, toks: &mut Vec<String>) {
    let n = 1 + r.below(3);
    for _ in 0..n {
        if toks.is_empty() {
            toks.push(r.pick(WORDS).to_string());
            continue;
        }
        let p = r.below(toks.len());
        match r.below(7) {
            0 => {
                toks.remove(p);
            }
            1 => {
                let t = toks[p].clone();
                toks.insert(p, t);
            }
            2 => toks.insert(p, r.pick(WORDS).to_string()),
            3 => toks[p] = r.pick(WORDS).to_string(),
            4 => toks.truncate(p),
            5 => {
                let q = r.below(toks.len());
                toks.swap(p, q);
            }
            _ => {
                let l = r.below(6).min(toks.len() - p);
                toks.drain(p..p + l);
            }
        }
    }
}

fn hex(s: &str) -> String {
    let mut o = String::with_capacity(2 * s.len());
    for b in s.as_bytes() {
        write!(o, "{:02x}", b).unwrap();
    }
    o
}
fn unhex(h: &str) -> String {
    let b: Vec<u8> = (0..h.len() / 2).map(|i| u8::from_str_radix(&h[2 * i..2 * i + 2], 16).unwrap()).collect();
    String::from_utf8(b).unwrap()
}

/// Recipe inputs: a case line `<class> @<shape>,<n>,<c|u>` is expanded by the worker (the texts are up
/// to several MB, too bulky for the case file).  `shape_text` is the single source of these texts
/// (`c02 expand <recipe>` prints one).
///
/// nesting shapes: (prefix, open, middle, close, suffix); closed = prefix open^n middle close^n suffix,
/// unclosed = prefix open^n
const NEST_SHAPES: &[(&str, &str, &str, &str, &str, &str)] = &[
    ("paren", "package p is constant c : integer := ", "( ", "1", " )", " ; end ;"),
    ("if", "package body p is procedure q is begin ", "if a then ", "null ;", " end if ;", " end ; end ;"),
    ("loop", "package body p is procedure q is begin ", "loop ", "null ;", " end loop ;", " end ; end ;"),
    ("while", "package body p is procedure q is begin ", "l : while a loop ", "", " end loop ;", " end ; end ;"),
    ("call", "package p is constant c : integer := a", " ( b", "", " )", " ; end ;"),
    ("aggregate", "package p is constant c : t := ", "( others => ", "0", " )", " ; end ;"),
    ("qualified", "package p is constant c : t := ", "t ' ( ", "0", " )", " ; end ;"),
    ("block", "architecture a of e is begin ", "b : block begin ", "", " end block ;", " end ;"),
    ("if_generate", "architecture a of e is begin ", "g : if c generate ", "", " end generate ;", " end ;"),
    ("for_generate", "architecture a of e is begin ", "g : for i in 0 to 1 generate ", "", " end generate ;", " end ;"),
    ("case_generate", "architecture a of e is begin ", "g : case x generate when 1 => ", "", " end generate ;", " end ;"),
    ("case", "package body p is procedure q is begin ", "case x is when 1 => ", "null ;", " end case ;", " end ; end ;"),
    ("not", "package p is constant c : boolean := ", "not ", "x", "", " ; end ;"),
    ("minus", "package p is constant c : integer := ", "- ", "1", "", " ; end ;"),
    ("abs_paren", "package p is constant c : integer := ", "abs ( - ", "1", " )", " ; end ;"),
    ("subprogram_body", "package body p is ", "procedure q is ", "", " begin end ;", " end ;"),
    ("function_body", "package body p is ", "function f return t is ", "", " begin return 1 ; end ;", " end ;"),
    ("package", "package p is ", "package q is ", "", " end ;", " end ;"),
    ("protected_body", "package body p is ", "type t is protected body ", "", " end protected body ;", " end ;"),
    ("record", "package p is type t is ", "record a : ", "bit ;", " end record ;", " end ;"),
    ("constraint", "package p is signal s : t ", "( a ", "( 1 to 2 )", " )", " ; end ;"),
    ("array_constraint", "package p is subtype s is t ", "( open ) ", "", "", " ; end ;"),
    ("resolution", "package p is subtype s is ", "( r ", "", " )", " t ; end ;"),
    ("external_name", "package p is constant c : integer := ", "<< signal s : t ( ", "1", " ) >>", " ; end ;"),
    ("interface_subprogram", "package p is ", "procedure q ( procedure r ", "", " )", " ; end ;"),
    ("block_configuration", "configuration c of e is for a ", "for b ", "", " end for ;", " end for ; end ;"),
    ("component_configuration", "configuration c of e is for a ", "for all : c use entity w . e ; for a ", "", " end for ; end for ;", " end for ; end ;"),
    ("process_if", "architecture a of e is begin process begin ", "if a then ", "", " end if ;", " end process ; end ;"),
    // round 2: every way a primary / name / choice / association can contain itself
    ("op_call", "package p is constant c : integer := ", "\"+\" ( ", "1", " , 2 )", " ; end ;"),
    ("op_call_and", "package p is constant c : boolean := ", "\"and\" ( a , ", "b", " )", " ; end ;"),
    ("string_index", "package p is constant c : character := ", "\"abc\" ( ", "1", " )", " ; end ;"),
    ("char_prefix", "package p is constant c : integer := ", "'1' ( ", "1", " )", " ; end ;"),
    ("literal_paren", "package p is constant c : integer := ", "1 ( ", "1", " )", " ; end ;"),
    ("null_paren", "package p is constant c : t := ", "null ( ", "1", " )", " ; end ;"),
    // one level per line: the tokenizer re-reads the current line for every bit string literal (value_at),
    // which is quadratic on a single line of 10^5 literals (100 s) — slow, but not what this class is about
    ("bitstring_paren", "package p is constant c : t := ", "x\"a\" (\n", "1", " )", " ; end ;"),
    ("allocator", "package p is constant c : t := ", "new t ' ( ", "1", " )", " ; end ;"),
    ("allocator_constraint", "package p is constant c : t := ", "new t ( 1 to f ( ", "1", " ) )", " ; end ;"),
    ("attribute_parameter", "package p is constant c : integer := ", "a ' b ( ", "1", " )", " ; end ;"),
    ("call_then_index", "package p is constant c : integer := ", "f ( ", "x", " ) ( i )", " ; end ;"),
    ("slice", "package p is constant c : integer := ", "a ( 1 to f ( ", "2", " ) )", " ; end ;"),
    ("named_association", "package p is constant c : integer := ", "f ( x => ", "1", " )", " ; end ;"),
    ("choice_bar", "package p is constant c : t := ", "( 1 | ", "2", " => 0 )", " ; end ;"),
    ("choice_named", "package p is constant c : t := ", "( a => ", "0", " )", " ; end ;"),
    ("choice_range", "package p is constant c : t := ", "( 1 to f ( ", "2", " ) => 0 )", " ; end ;"),
    ("conditional_in_paren", "architecture a of e is begin s <= ", "( x when c else ", "y", " )", " ; end ;"),
    ("when_else_call", "architecture a of e is begin s <= ", "f ( '0' ) when g ( ", "a", " ) else '1'", " ; end ;"),
    ("selected_call", "architecture a of e is begin with ", "f ( ", "x", " )", " select s <= '0' when others ; end ;"),
    ("waveform_call", "architecture a of e is begin s <= '0' after ", "f ( ", "1 ns", " )", " ; end ;"),
    ("target_aggregate", "architecture a of e is begin ", "( ", "a", " , b )", " <= x ; end ;"),
    ("external_index", "package p is constant c : integer := ", "<< signal . a ( ", "1", " ) . b : bit >>", " ; end ;"),
    ("external_in_call", "package p is constant c : integer := ", "f ( << constant . c : integer >> + ", "1", " )", " ; end ;"),
    ("generic_subprogram", "package p is ", "procedure q generic ( ", "type t", " )", " ; end ;"),
    ("generic_function_default", "package p is ", "function f generic ( function g ( a : t ) return t is ", "<>", " ) return t", " ; end ;"),
    ("interface_default", "package p is procedure q ( a : t := ", "f ( ", "1", " )", " ) ; end ;"),
    ("elsif_generate", "architecture a of e is begin ", "g : if a generate elsif b generate ", "", " end generate ;", " end ;"),
    ("else_generate", "architecture a of e is begin ", "g : if a generate else generate ", "", " end generate ;", " end ;"),
    ("case_generate_2", "architecture a of e is begin ", "g : case x generate when 1 => when others => ", "", " end generate ;", " end ;"),
    ("block_generate", "architecture a of e is begin ", "b : block begin g : if c generate ", "", " end generate ; end block ;", " end ;"),
    ("loop_if", "package body p is procedure q is begin ", "loop if a then ", "null ;", " end if ; end loop ;", " end ; end ;"),
    ("record_constraint", "package p is subtype s is r ", "( e ", "( 1 to 2 )", " )", " ; end ;"),
    ("record_constraint_2", "package p is subtype s is r ", "( e ( 1 to 2 ) , f ", "( 1 to 2 )", " )", " ; end ;"),
    ("resolution_2", "package p is subtype s is ", "( f ", "g", " )", " t ; end ;"),
    ("resolution_record", "package p is subtype s is ", "( a r , b ", "r", " )", " t ; end ;"),
    ("range_call", "package p is subtype s is integer range ", "f ( ", "1", " )", " to 2 ; end ;"),
    ("case_choice_call", "package body p is procedure q is begin case x is when ", "f ( ", "1", " )", " => null ; end case ; end ; end ;"),
    ("procedure_call", "package body p is procedure q is begin ", "p ( ", "1", " )", " ; end ; end ;"),
    ("generic_map_call", "architecture a of e is begin u : entity w . e generic map ( g => ", "f ( ", "1", " )", " ) ; end ;"),
    ("port_map_conversion", "architecture a of e is begin u : entity w . e port map ( ", "f ( ", "a", " )", " => b ) ; end ;"),
    ("subprogram_package_body", "package body p is ", "procedure q is package body r is ", "", " end ; begin end ;", " end ;"),
    ("assert_report", "architecture a of e is begin assert c report ", "f ( ", "\"m\"", " )", " ; end ;"),
    ("unary_mix", "package p is constant c : integer := ", "not ( - abs ", "1", " )", " ; end ;"),
    ("physical_call", "package p is constant c : time := ", "f ( 2 ns * ", "1", " )", " ; end ;"),
];
/// shapes added in round 2 run at these depths only
const ROUND2_FROM: &str = "op_call";
/// iterative chains: (prefix, link, suffix): prefix link^n suffix
const CHAIN_SHAPES: &[(&str, &str, &str, &str)] = &[
    ("plus", "package p is constant c : integer := 1", " + 1", " ; end ;"),
    ("and", "package p is constant c : boolean := a", " and a", " ; end ;"),
    ("concat", "package p is constant c : string := \"a\"", " & \"a\"", " ; end ;"),
    ("dot", "package p is constant c : integer := a", " . b", " ; end ;"),
    ("index", "package p is constant c : integer := a", " ( 1 )", " ; end ;"),
    ("tick", "package p is constant c : integer := a", " ' b", " ; end ;"),
    ("elsif", "package body p is procedure q is begin if a then null ;", " elsif a then null ;", " end if ; end ; end ;"),
    ("waveform", "architecture a of e is begin s <= '0'", " , '1' after 1 ns", " ; end ;"),
    ("when_else", "architecture a of e is begin s <= '0'", " when a else '1'", " ; end ;"),
];

fn shape_text(recipe: &str) -> String {
    let f: Vec<&str> = recipe.split(',').collect();
    let n: usize = f[1].parse().unwrap();
    if let Some(name) = f[0].strip_prefix("nest:") {
        let (_, pre, open, mid, close, suf) = NEST_SHAPES.iter().find(|x| x.0 == name).unwrap();
        if f.get(2) == Some(&"u") {
            format!("{}{}", pre, open.repeat(n))
        } else {
            format!("{}{}{}{}{}", pre, open.repeat(n), mid, close.repeat(n), suf)
        }
    } else if let Some(name) = f[0].strip_prefix("chain:") {
        let (_, pre, link, suf) = CHAIN_SHAPES.iter().find(|x| x.0 == name).unwrap();
        format!("{}{}{}", pre, link.repeat(n), suf)
    } else if let Some(style) = f[0].strip_prefix("regions:") {
        // n consecutive ignored regions (finding F58 / b8a07ee: Tokenizer::pop must loop, not recurse)
        let unit = match style {
            // closed by a trailing comment on the only token's line, no real token in between
            "trailing" => "-- vhdl_ls off\nx -- vhdl_ls on\n",
            // closed by a trailing comment on the line of a later token of the region
            "trailing_later" => "-- vhdl_ls off\ny z\nx -- vhdl_ls on\n",
            // closed by a comment on a line of its own (leading comment of the next token)
            "own_line" => "-- vhdl_ls off\nx\n-- vhdl_ls on\n",
            // a real token between the regions
            "token_between" => "-- vhdl_ls off\nx -- vhdl_ls on\n;\n",
            // with explanations and block comments
            "explained" => "-- vhdl_ls off: generated\nx ( -- vhdl_ls on (end)\n",
            "block" => "/* vhdl_ls off */ x -- vhdl_ls on\n",
            _ => panic!("unknown region style {}", style),
        };
        format!("{}entity e is end;\n", unit.repeat(n))
    } else if f[0] == "nestproc" {
        // procedure q (procedure q (a : integer; procedure q (a : integer; ...   (unclosed; finding F54, fixed by a41ca14)
        format!("package p is procedure q ( procedure q ( {}", "a : integer ; procedure q ( ".repeat(n))
    } else if f[0] == "nestfunc" {
        // balanced: function f (a : integer; function f (...) return t; z : integer) return t; ...
        format!(
            "package p is {}function f return t{} ; end ;",
            "function f ( a : integer ; ".repeat(n),
            " ; z : integer ) return t".repeat(n)
        )
    } else if f[0] == "nestfunc_noret" {
        // the same with the return type missing: `... ) return ; z : integer ) return ; ...`
        format!(
            "package p is {}function f return {} ; end ;",
            "function f ( a : integer ; ".repeat(n),
            " ; z : integer ) return".repeat(n)
        )
    } else {
        panic!("unknown recipe {}", recipe)
    }
}

/// The `stack` stream: recursion-depth classes, run by an UNOPTIMISED build of vhdl_lang (no tail calls, large
/// frames) on bounded stacks: runs of ignored regions, deep nesting, iterative chains.
fn genstack(tier: &str, out_path: &str) {
    let with_chain = tier.contains("+chain");
    let thorough = tier.starts_with("thorough");
    let mut f = std::io::BufWriter::new(std::fs::File::create(out_path).unwrap());
    let mut emit = |class: String, recipe: String| {
        writeln!(f, "{}@2m @{}", class, recipe).unwrap();
        writeln!(f, "{}@8m @{}", class, recipe).unwrap();
    };
    for style in ["trailing", "trailing_later", "own_line", "token_between", "explained", "block"] {
        let sizes: &[usize] = if thorough { &[10, 1000, 50000, 200000, 1000000] } else { &[10, 1000, 50000] };
        for n in sizes {
            emit(format!("regions/{}/{}", style, n), format!("regions:{},{}", style, n));
        }
        if !thorough && style.starts_with("trailing") {
            emit(format!("regions/{}/{}", style, 200000), format!("regions:{},{}", style, 200000));
        }
    }
    drop(emit);
    // nesting: on a 64 MiB thread — at opt-level 0 the frames of the recursive-descent cycle are so large that the 256
    // levels of the nesting limit do not fit 2 MiB for any shape (100 nested `if`, 50 nested blocks overflow it) nor
    // 8 MiB for nested block / generate statements (observed on 30e5700.., reported to the coordinator); 20000 levels
    // without the limit would need > 200 MiB
    for (name, ..) in NEST_SHAPES.iter() {
        for (n, cu) in [(200usize, "c"), (20000, "u")] {
            if thorough || n == 200 || !name.starts_with("external_") {
                writeln!(f, "deep/{}/{}/{}@64m @nest:{},{},{}", name, n, cu, name, n, cu).unwrap();
            }
        }
        if thorough {
            writeln!(f, "deep/{}/20000/c@64m @nest:{},20000,c", name, name).unwrap();
        }
    }
    let mut emit = |class: String, recipe: String| {
        writeln!(f, "{}@2m @{}", class, recipe).unwrap();
        writeln!(f, "{}@8m @{}", class, recipe).unwrap();
    };
    for (name, ..) in CHAIN_SHAPES.iter() {
        for n in [100usize, 500] {
            emit(format!("long_chain/{}/{}", name, n), format!("chain:{},{}", name, n));
        }
        if with_chain {
            for n in [4000usize, 20000] {
                emit(format!("long_chain/{}/{}", name, n), format!("chain:{},{}", name, n));
            }
        }
    }
    for n in [10usize, 100] {
        emit(format!("nested_interface_subprogram_unclosed/{}", n), format!("nestproc,{}", n));
        emit(format!("nested_interface_subprogram_balanced/{}", n), format!("nestfunc,{}", n));
    }
    drop(emit);
    // beyond the nesting limit: 64 MiB thread (see above)
    writeln!(f, "nested_interface_subprogram_unclosed/300@64m @nestproc,300").unwrap();
    writeln!(f, "nested_interface_subprogram_balanced/300@64m @nestfunc,300").unwrap();
}

fn gen(seed: u64, tier: &str, out_path: &str) {
    // tier = quick | thorough, 
    // flag `+chain` adds the lengths at which the open known finding F53 manifests
    let with_chain = tier.contains("+chain");
    let tier = tier.split('+').next().unwrap();
    let scale = if tier == "thorough" { 60 } else { 1 };
    let mut r = Rng::new(seed ^ 0xC02);
    let mut f = std::io::BufWriter::new(std::fs::File::create(out_path).unwrap());
    let mut emit = |class: &str, text: &str| {
        writeln!(f, "{} {}", class, hex(text)).unwrap();
    };
    let libs = library_files();
    let lib_toks: Vec<Vec<String>> = libs.iter().map(|(_, t)| rough_tokens(t)).collect();
    // 1. bundled libraries, whole
    for (_, t) in libs.iter() {
        emit("lib", t);
    }
    // 2. catalogue: complete, truncated at every token, one token deleted / duplicated / replaced
    for (ctx, body) in CATALOGUE.iter() {
        let full = wrap(*ctx, body);
        emit("cat", &full);
        let bt: Vec<String> = body.split_whitespace().map(|x| x.to_string()).collect();
        for k in 0..bt.len() {
            // half-written: the snippet cut after k tokens, with and without the closing context
            let cut = bt[..k].join(" ");
            emit("cat-trunc", &wrap(*ctx, &cut));
            if k % 2 == 0 {
                let w = wrap(*ctx, "\u{1}");
                let head = w.split('\u{1}').next().unwrap().to_string();
                emit("cat-trunc-eof", &format!("{}{}", head, cut));
            }
            let mut d = bt.clone();
            d.remove(k);
            emit("cat-del", &wrap(*ctx, &d.join(" ")));
            if (k + seed as usize) % 3 == 0 {
                let mut d = bt.clone();
                d.insert(k, bt[k].clone());
                emit("cat-dup", &wrap(*ctx, &d.join(" ")));
                let mut d = bt.clone();
                d[k] = r.pick(WORDS).to_string();
                emit("cat-repl", &wrap(*ctx, &join_tokens(&mut r, &d)));
            }
        }
    }
    // 3. truncation of a bundled file at every token (a small one), and of a hand-made file
    let small = "library ieee ; use ieee . std_logic_1164 . all ; entity e is port ( clk : in std_logic ; q : out std_logic ) ; end entity e ; architecture a of e is signal s : std_logic := '0' ; begin p : process ( clk ) begin if rising_edge ( clk ) then s <= not s ; end if ; end process p ; q <= s ; end architecture a ; package p is constant c : integer := 1 ; end package p ;";
    let st: Vec<String> = small.split_whitespace().map(|x| x.to_string()).collect();
    for k in 0..=st.len() {
        emit("trunc", &st[..k].join(" "));
        emit("trunc-nl", &st[..k].join("\n"));
    }
    if let Some(ix) = libs.iter().position(|(p, _)| p.ends_with("env.vhd")) {
        let t = &lib_toks[ix];
        let step = 1 + t.len() / (400 * scale);
        let mut k = 0;
        while k <= t.len() {
            emit("trunc-lib", &t[..k].join(" "));
            k += step;
        }
    }
    // 4. windows of library tokens in a parse context, mutated
    for _ in 0..(5500 * scale) {
        let li = r.below(lib_toks.len());
        let t = &lib_toks[li];
        if t.is_empty() {
            continue;
        }
        let s = r.below(t.len());
        let l = 5 + { let m = if r.chance(1, 8) { 400 } else { 90 }; r.below(m) };
        let mut w: Vec<String> = t[s..(s + l).min(t.len())].to_vec();
        if r.chance(3, 4) {
            mutate_tokens(&mut r, &mut w);
        }
        let text = format!("{}{}{}", r.pick(PREFIXES), join_tokens(&mut r, &w), r.pick(SUFFIXES));
        emit("lib-window", &text);
    }
    // 5. character-level slices of the libraries starting at a unit keyword, fuzzp-style mutations
    for _ in 0..(2500 * scale) {
        let (_, base) = &libs[r.below(libs.len())];
        let cs: Vec<char> = base.chars().collect();
        if cs.is_empty() {
            continue;
        }
        let mut start = r.below(cs.len());
        if r.chance(3, 4) {
            // move to the next line that starts a design unit or a context item
            let text: String = cs[start..].iter().collect();
            let mut best = None;
            for kw in ["\nentity ", "\npackage ", "\narchitecture ", "\nlibrary ", "\nuse ", "\ncontext ", "\nconfiguration "] {
                if let Some(p) = text.to_lowercase().find(kw) {
                    best = Some(best.map_or(p, |b: usize| b.min(p)));
                }
            }
            if let Some(p) = best {
                start += text[..p].chars().count() + 1;
            }
        }
        let len = 30 + { let m = if r.chance(1, 10) { 6000 } else { 900 }; r.below(m) };
        let end = (start + len).min(cs.len());
        let mut s: Vec<char> = cs[start.min(end)..end].to_vec();
        for _ in 0..r.below(6) {
            if s.is_empty() {
                break;
            }
            let pos = r.below(s.len());
            match r.below(4) {
                0 => {
                    let l = r.below(20).min(s.len() - pos);
                    s.drain(pos..pos + l);
                }
                1 => {
                    let ins: Vec<char> = format!(" {} ", r.pick(WORDS)).chars().collect();
                    s.splice(pos..pos, ins);
                }
                2 => {
                    let ins: Vec<char> = r.pick(WORDS).chars().collect();
                    s.splice(pos..pos, ins);
                }
                _ => s.truncate(pos),
            }
        }
        emit("lib-slice", &s.into_iter().collect::<String>());
    }
    // 6. keyword / delimiter soup, with and without a unit header
    for _ in 0..(3000 * scale) {
        let n = { let m = if r.chance(1, 10) { 120 } else { 25 }; r.below(m) };
        let w: Vec<String> = (0..n).map(|_| r.pick(WORDS).to_string()).collect();
        let text = format!("{}{}{}", r.pick(PREFIXES), join_tokens(&mut r, &w), r.pick(SUFFIXES));
        emit("soup", &text);
    }
    // 7. arbitrary bytes decoded as Latin-1
    for _ in 0..(2500 * scale) {
        let n = { let m = if r.chance(1, 10) { 600 } else { 60 }; r.below(m) };
        let mut s = String::new();
        if r.chance(1, 2) {
            s.push_str(*r.pick(PREFIXES));
        }
        for _ in 0..n {
            let c = match r.below(6) {
                0 => r.below(256) as u8,
                1 => *r.pick(b" \n\t\r;:()'\"-`\\.,#_"),
                2 => b'a' + r.below(26) as u8,
                3 => b'0' + r.below(10) as u8,
                4 => 128 + r.below(128) as u8,
                _ => *r.pick(b"ebxousdEBXOUSD;; ()"),
            };
            s.push(c as char);
        }
        emit("latin1", &s);
    }
    // 8. non-Latin-1 streams
    for _ in 0..(1500 * scale) {
        let n = 1 + r.below(20);
        let mut w: Vec<String> = Vec::new();
        for _ in 0..n {
            if r.chance(1, 3) {
                w.push(r.pick(NONLATIN).to_string());
            } else {
                w.push(r.pick(WORDS).to_string());
            }
        }
        let sep = if r.chance(1, 3) { "" } else { " " };
        let text = format!("{}{}{}", if r.chance(1, 2) { *r.pick(PREFIXES) } else { "" }, w.join(sep), r.pick(SUFFIXES));
        emit("nonlatin", &text);
    }
    // 9. the top-level loop resumes: pending context items, a unit that fails exactly at the keyword of
    //    the next unit or context item, more items, a second failing head, a good unit whose closing ';'
    //    is kept / typed as ':' / missing, at EOF or before further text
    {
        let pre_items = ["", "library l ; ", "library l ; use l . p . all ; ", "context l . c ; library m , n ; "];
        let failing = [
            "", "entity ", "entity e ", "entity e is ", "entity e is port ( ", "entity e is end ", "architecture ",
            "architecture a of ", "architecture a of e is begin process begin ", "package ", "package body ",
            "package p is constant c : ", "package p is new ", "configuration c of ", "context c is ", "context ",
            "library ", "use l . ",
        ];
        let mid_items = ["", "use l . q . all ; ", "library k ; "];
        let fail2 = ["", "entity ", "package body ", "architecture a of "];
        let good = [
            "entity e is end entity ;", "entity e is end entity e ;", "architecture a of e is begin end architecture a ;",
            "package p is end package p ;", "package body p is end package body p ;", "package body p is end package body ;",
            "package i is new g generic map ( x => 1 ) ;", "configuration c of e is for a end for ; end configuration c ;",
            "context c is library l ; use l . p . all ; end context c ;",
        ];
        let endings = [";", ":", ""];
        let trailers = ["", " entity f is end ;", " library z ;", " :", "\n-- end"];
        let keep = if scale > 1 { 1 } else { 6 };
        for p in pre_items.iter() {
            for f1 in failing.iter() {
                for m in mid_items.iter() {
                    for f2 in fail2.iter() {
                        for g in good.iter() {
                            for e in endings.iter() {
                                for t in trailers.iter() {
                                    if r.below(keep) != 0 {
                                        continue;
                                    }
                                    let body = &g[..g.len() - 1];
                                    let text = format!("{}{}{}{}{}{}{}", p, f1, m, f2, body, e, t);
                                    let text = if r.chance(1, 4) { text.replace(" ; ", " ;\n") } else { text };
                                    emit(if *e == ":" { "colon-end" } else { "resume" }, &text);
                                }
                            }
                        }
                    }
                }
            }
        }
        // every top-level catalogue entry with its last ';' typed as ':'
        for (ctx, body) in CATALOGUE.iter() {
            if *ctx == 'U' {
                let b = body.trim_end().trim_end_matches(';');
                emit("colon-end", &format!("{}:", b));
                emit("colon-end", &format!("{}: entity f is end ;", b));
                emit("colon-end", &format!("library l ; {}:\nuse l . p . all ; package q is end :", b));
            }
        }
    }
    // 11. exhaustive: every sequence of up to 3 (thorough: 4) tokens over a 14-word alphabet
    {
        let alpha = ["entity", "e", "is", "end", ";", ":", "package", "body", "(", ")", "library", "use", ".", "architecture"];
        let maxlen = if scale > 1 { 4 } else { 3 };
        let mut idx: Vec<usize> = Vec::new();
        loop {
            // next sequence in length-lexicographic order
            let mut k = idx.len();
            loop {
                if k == 0 {
                    idx = vec![0; idx.len() + 1];
                    break;
                }
                k -= 1;
                if idx[k] + 1 < alpha.len() {
                    idx[k] += 1;
                    for j in k + 1..idx.len() {
                        idx[j] = 0;
                    }
                    break;
                }
            }
            if idx.len() > maxlen {
                break;
            }
            let text: Vec<&str> = idx.iter().map(|i| alpha[*i]).collect();
            emit("exhaustive", &text.join(" "));
        }
    }
    emit("nonlatin", "x\u{20ac}");
    emit("nonlatin", "entity e is end; -- \u{1F600}\n\u{20ac} entity");
    // 12. mixed-width characters: N characters outside the BMP (2 UTF-16 units, 1 char, 4 UTF-8 bytes) in a block
    //     comment, a string or stray, BEFORE a token whose value is (re-)read from the line, followed after 0-6
    //     Latin-1 characters by a 2-, 3- or 4-byte character (stray or in a line comment) — columns are UTF-16
    //     units, any confusion with code points or bytes shifts the text window of the literal
    {
        let astral = ["\u{1F527}", "\u{1D11E}", "\u{20000}", "\u{1F600}"];
        let toks = [
            "x\"3F\"", "b\"01\"", "8x\"AB\"", "12d\"13\"", "ub\"1\"", "sx\"f\"", "16#FF#", "2#1010#e2", "16:FF:", "1.5e3",
            "123", "\"str\"", "\\ext\\", "'c'", "abc", "3 ns",
        ];
        let tails = ["\u{0416}", "\u{2192}", "\u{1F600}", "\u{00e9}"];
        let gaps = ["", ";", "; ", ";--", " ;  ", ";-- >", " + 1 ; "];
        for n in 1..=5usize {
            for (ti, tok) in toks.iter().enumerate() {
                for (gi, gap) in gaps.iter().enumerate() {
                    for (ai, tail) in tails.iter().enumerate() {
                        let a = astral[(n + ti + gi) % astral.len()].repeat(n);
                        let pre = match (n + ti + gi + ai) % 4 {
                            0 => format!("/* {} tuning */ ", a),
                            1 => format!("{} ", a),
                            2 => format!("/*{}*/", a),
                            _ => format!("\"{}\" & ", a),
                        };
                        let line = format!("{}constant k : t := {}{}{} 63", pre, tok, gap, tail);
                        let text = match (ti + gi + ai) % 3 {
                            0 => line,
                            1 => format!("package p is\n{}\nend;", line),
                            _ => format!("package p is -- {}\r\n  {}\r\nend package;\n", astral[ai], line),
                        };
                        emit("astral", &text);
                    }
                }
            }
        }
        for _ in 0..(1500 * scale) {
            // random lines over a mixed-width alphabet with literals in between
            let n = 2 + r.below(14);
            let mut line = String::new();
            for _ in 0..n {
                match r.below(9) {
                    0 | 1 => line.push_str(*r.pick(&astral)),
                    2 => line.push_str(*r.pick(&tails)),
                    3 | 4 => {
                        line.push_str(*r.pick(&toks));
                    }
                    5 => line.push_str(*r.pick(&["/*", "*/", "--", " ", ";", "\n", " := "])),
                    6 => line.push(' '),
                    _ => line.push_str(*r.pick(WORDS)),
                }
                if r.chance(1, 2) {
                    line.push(' ');
                }
            }
            emit("astral", &format!("{}{}", if r.chance(1, 2) { *r.pick(PREFIXES) } else { "" }, line));
        }
    }
    // 13. comments that look like tool directives / pragmas (`-- vhdl_ls off|on` start and end an ignored
    //     region; every comment inside a region is tested for `on`): every byte-level mutation of them — a
    //     multi-byte character, tab or NBSP inserted or substituted at every position, truncation at every
    //     position, case changes — in line and block comments, outside and inside ignored regions, nested
    //     off/off/on/on, at end of file without newline, and backtick tool directives
    {
        let bases = [
            "vhdl_ls off", "vhdl_ls on", " vhdl_ls off", "vhdl_ls off: PSL is not supported", "vhdl_ls on (end of PSL)",
            "vhdl_ls  on", "vhdl_ls", "VHDL_LS OFF", "vhdl_ls offline", "pragma translate_off", "synthesis translate_on",
            "vhdl_ls\toff", "vhdl_ls\u{a0}on",
        ];
        let inserts = ["\u{e9}", "\u{e4}", "\u{f1}", "\u{20ac}", "\u{1F44D}", "\u{a0}", "\t", "\u{2192}n", " "];
        let mut k = 0usize;
        let mut forms = |c: &str, k: usize, emit: &mut dyn FnMut(&str, &str)| {
            let t = match k % 8 {
                0 => format!("entity e is -- {}\nend;", c),
                1 => format!("entity e is /* {} */ end;", c),
                2 => format!("entity e is end; -- {}", c),
                3 => format!("-- vhdl_ls off\nx ( -- {}\ny /* {} */ z\n-- vhdl_ls on\nentity e is end;", c, c),
                4 => format!("-- {}\ngarbage ( ;\n-- vhdl_ls on\nentity e is end; --{}", c, c),
                5 => format!("--{}\n--{}\nx\n-- vhdl_ls on\ny\n--vhdl_ls on\nentity e is end; /*{}", c, c, c),
                6 => format!("entity e is /* vhdl_ls off */ a /*{}*/ b /* vhdl_ls on */ end; /* {}", c, c),
                _ => format!("entity e is end;\n`{}\nentity f is end; `{}", c, c),
            };
            emit("directive", &t);
        };
        for b in bases.iter() {
            let cs: Vec<char> = b.chars().collect();
            forms(b, k, &mut emit);
            k += 1;
            for i in 0..=cs.len() {
                let head: String = cs[..i].iter().collect();
                let tail: String = cs[i..].iter().collect();
                // truncation
                forms(&head, k, &mut emit);
                k += 1;
                for ins in inserts.iter() {
                    // insertion, substitution, truncation + character
                    forms(&format!("{}{}{}", head, ins, tail), k, &mut emit);
                    k += 1;
                    if i < cs.len() {
                        let rest: String = cs[i + 1..].iter().collect();
                        forms(&format!("{}{}{}", head, ins, rest), k, &mut emit);
                        k += 1;
                    }
                    if (i + k) % 3 == 0 {
                        forms(&format!("{}{}", head, ins), k, &mut emit);
                        k += 1;
                    }
                }
                if i < cs.len() && cs[i].is_alphabetic() {
                    let mut c2 = cs.clone();
                    c2[i] = if c2[i].is_uppercase() { c2[i].to_ascii_lowercase() } else { c2[i].to_ascii_uppercase() };
                    forms(&c2.iter().collect::<String>(), k, &mut emit);
                    k += 1;
                }
            }
        }
    }
    // 14. numeric boundary literals: every numeric field the tokenizer / parser converts (integer value u64,
    //     exponent i32, base 2..16, bit string length, based digits, real mantissa, physical values, range
    //     bounds) at MIN-1 .. MAX+1 of i8/i16/i32/i64/u8/u16/u32/u64, plain, with underscores, with leading zeros
    {
        let mut mags: Vec<u128> = vec![0, 1, 2, 3, 9, 10, 15, 16, 17, 36, 37];
        for b in [8u32, 16, 32, 64] {
            let h = 1u128 << (b - 1);
            let f = 1u128 << b;
            for v in [h - 2, h - 1, h, h + 1, h + 2, f - 2, f - 1, f, f + 1] {
                mags.push(v);
            }
        }
        mags.extend([10u128.pow(19), 10u128.pow(20), 1u128 << 100, 308, 309, 1023, 1024, 1025, 4932]);
        mags.sort();
        mags.dedup();
        let underscored = |d: &str| {
            let cs: Vec<char> = d.chars().collect();
            let mut o = String::new();
            for (i, c) in cs.iter().enumerate() {
                if i > 0 && (cs.len() - i) % 3 == 0 {
                    o.push('_');
                }
                o.push(*c);
            }
            o
        };
        let mut k = 0usize;
        for m in mags.iter() {
            let dec = m.to_string();
            let variants = [dec.clone(), underscored(&dec), format!("000{}", dec), format!("0_{}", underscored(&dec))];
            let hexs = format!("{:X}", m);
            let bins = format!("{:b}", m);
            for v in variants.iter() {
                let lits = [
                    format!("{}", v), format!("- {}", v), format!("1e{}", v), format!("1e+{}", v), format!("1e-{}", v), format!("1E-{}", v),
                    format!("1.0e{}", v), format!("1.0e-{}", v), format!("0e-{}", v), format!("0.0e+{}", v),
                    format!("16#F.F#E-{}", v), format!("16#F#e{}", v), format!("2#1#e{}", v), format!("2#1.1#e-{}", v), format!("16:F:e-{}", v),
                    format!("{}#1#", v), format!("{}#0.1#", v), format!("{}:1:", v),
                    format!("{}x\"F\"", v), format!("{}b\"1\"", v), format!("{}d\"1\"", v), format!("{}sx\"F\"", v), format!("{}ub\"\"", v),
                    format!("16#{}#", hexs), format!("2#{}#", bins), format!("16#{}.{}#e1", hexs, hexs), format!("d\"{}\"", v),
                    format!("{}d\"{}\"", (bins.len()), v),
                    format!("{}.0", v), format!("0.{}", v), format!("{}.{}e{}", v, v, v), format!("{}.{}", v, v),
                    format!("{} ns", v), format!("{}.5 fs", v), format!("- {} ps", v),
                ];
                for l in lits.iter() {
                    let t = match k % 7 {
                        0 => format!("package p is constant c : t := {} ; end ;", l),
                        1 => format!("package p is type t is range - {} to {} ; subtype s is t range {} downto 0 ; end ;", l, l, l),
                        2 => format!("package p is signal s : bit_vector ( {} downto - {} ) := ( {} => '1' , others => '0' ) ; end ;", l, l, l),
                        3 => format!("package body p is procedure q is begin wait for {} ; for i in {} to {} loop x := a ( {} ) ** {} ; end loop ; end ; end ;", l, l, l, l, l),
                        4 => format!("{}", l),
                        5 => format!("package p is constant c : t := {}", l),
                        _ => format!("package p is type t is range 0 to 1 units a ; b = {} a ; end units ; constant d : time := {} + {} ; end ;", l, l, l),
                    };
                    emit("numeric", &t);
                    k += 1;
                }
            }
        }
    }
    // 10. nesting depth (regression of F41: limit 256 since 674ec0b), long iterative chains, nested
    //     interface subprograms; each on the main thread and on a 2 MiB-stack thread (`@2m`)
    let mut emit_recipe = |class: String, recipe: String| {
        // the round-2 shapes run their deepest variant on the 2 MiB thread only (the stricter of the two)
        if !class.starts_with("deep2/") {
            writeln!(f, "{} @{}", class, recipe).unwrap();
        }
        writeln!(f, "{}@2m @{}", class.replacen("deep2/", "deep/", 1), recipe).unwrap();
    };
    // depth-major order: the expensive depths are consecutive lines, which the round-robin sharding spreads evenly
    let round2_at = NEST_SHAPES.iter().position(|x| x.0 == ROUND2_FROM).unwrap();
    for n in [100000usize, 20000, 5000, 600, 200, 50] {
        for (k, (name, ..)) in NEST_SHAPES.iter().enumerate() {
            if k >= round2_at && (n == 20000 || n == 600) {
                continue;
            }
            // the external-name shapes cost 100 us per level (one diagnostic each): 10 s at 100000 levels; the quick
            // tier runs them at 30000 (still 10x the depth that overflowed a stack), the thorough tier at 100000
            let n = if n == 100000 && scale == 1 && name.starts_with("external_") { 30000 } else { n };
            for cu in ["c", "u"] {
                let fam = if k >= round2_at && n >= 30000 { "deep2" } else { "deep" };
                emit_recipe(format!("{}/{}/{}/{}", fam, name, n, cu), format!("nest:{},{},{}", name, n, cu));
            }
        }
    }
    for (name, ..) in CHAIN_SHAPES.iter() {
        for n in [100usize, 500] {
            emit_recipe(format!("long_chain/{}/{}", name, n), format!("chain:{},{}", name, n));
        }
        if with_chain {
            for n in [4000usize, 20000, 100000] {
                emit_recipe(format!("long_chain/{}/{}", name, n), format!("chain:{},{}", name, n));
            }
        }
    }
    // regression of F54 (a41ca14): error recovery of nested interface lists is no longer exponential
    for n in [1usize, 5, 10, 24, 40, 100, 300] {
        emit_recipe(format!("nested_interface_subprogram_unclosed/{}", n), format!("nestproc,{}", n));
        emit_recipe(format!("nested_interface_subprogram_balanced/{}", n), format!("nestfunc,{}", n));
        emit_recipe(format!("nested_interface_subprogram_noreturn/{}", n), format!("nestfunc_noret,{}", n));
    }
}

// ---------------------------------------------------------------------------------------------
// worker
// ---------------------------------------------------------------------------------------------
fn work(cases: &str, out_path: &str, start: usize, end: usize, stride: usize, offset: usize) {
    let parser = VHDLParser::new(VHDLStandard::VHDL2008);
    use std::io::BufRead;
    let reader = std::io::BufReader::with_capacity(1 << 20, std::fs::File::open(cases).unwrap());
    let mut out = std::fs::OpenOptions::new().create(true).append(true).open(out_path).unwrap();
    for (i, line) in reader.lines().enumerate() {
        if i >= end {
            break;
        }
        if i < start || i % stride != offset {
            continue;
        }
        let line = line.unwrap();
        let mut it = line.splitn(2, ' ');
        let class = it.next().unwrap_or("");
        let h = it.next().unwrap_or("");
        let input = if let Some(recipe) = h.strip_prefix('@') { shape_text(recipe) } else { unhex(h) };
        // `B <index> <bytes>`: the watchdog scales its CPU limit with the size of the input
        writeln!(out, "B {} {}", i, input.len()).unwrap();
        out.flush().unwrap();
        let stack = if class.ends_with("@2m") {
            Some(2usize << 20) // the stack size of rayon / std worker threads
        } else if class.ends_with("@8m") {
            Some(8usize << 20)
        } else if class.ends_with("@64m") {
            Some(64usize << 20)
        } else {
            None
        };
        let res = if let Some(stack) = stack {
            std::thread::scope(|sc| {
                std::thread::Builder::new()
                    .stack_size(stack)
                    .spawn_scoped(sc, || oracle(&parser, &input))
                    .unwrap()
                    .join()
                    .unwrap_or_else(|_| "{\"st\":\"panic\",\"msg\":\"oracle thread panicked\",\"viol\":[\"oracle thread panicked\"]}".to_string())
            })
        } else {
            oracle(&parser, &input)
        };
        // the result object gets the class and the character count
        writeln!(
            out,
            "R {} {{\"class\":\"{}\",\"nchars\":{},{}",
            i,
            class,
            input.chars().count(),
            &res[1..]
        )
        .unwrap();
        out.flush().unwrap();
    }
    writeln!(out, "E").unwrap();
}

// ---------------------------------------------------------------------------------------------
// cursor-algebra differential
// ---------------------------------------------------------------------------------------------
const OP_KINDS: &[Kind] = &[
    Kind::SemiColon,
    Kind::Colon,
    Kind::Identifier,
    Kind::Entity,
    Kind::Is,
    Kind::End,
    Kind::Package,
    Kind::Body,
    Kind::LeftPar,
    Kind::Comma,
    Kind::New,
];
const OP_WORDS: &[&str] = &[";", ":", "x", "entity", "is", "end", "package", "body", "(", ",", "new", ")", "1", "\n", "\n", ";", ":", "y"];

fn tid(id: TokenId) -> usize {
    let s = format!("{:?}", id);
    s.trim_start_matches("TokenId(").trim_end_matches(')').parse().unwrap()
}
fn fmt_tok(t: &Token) -> String {
    format!("tok:{}@{}", kind_str(t.kind), fmt_range(t.pos.range()))
}

fn gen_ops(r: &mut Rng, ntok: usize) -> Vec<String> {
    let n = 1 + r.below(14);
    let mut ops = Vec::new();
    let kind = |r: &mut Rng| op_kind_name(*r.pick(OP_KINDS)).to_string();
    let kinds = |r: &mut Rng| {
        let n = 1 + r.below(3);
        (0..n).map(|_| op_kind_name(*r.pick(OP_KINDS)).to_string()).collect::<Vec<_>>().join(",")
    };
    // most programs first consume something (get_last_token_id / back at the start panic)
    if r.chance(3, 4) {
        for _ in 0..1 + r.below(3) {
            ops.push("skip".to_string());
        }
    }
    for _ in 0..n {
        let o = match r.below(34) {
            0..=5 => "skip".to_string(),
            6 => "back".to_string(),
            7 => format!("set {}", r.below(ntok + 3)),
            8 => "peek".to_string(),
            9 | 10 => "cur".to_string(),
            11..=13 => "last".to_string(),
            14..=16 => format!("expect {}", kind(r)),
            17 | 18 => format!("popif {}", kind(r)),
            19 => "peekexpect".to_string(),
            20 => format!("nextkinds {}", kinds(r)),
            21 | 22 => format!("skipuntil {}", kinds(r)),
            23 => format!("recover {}", kinds(r)),
            24 | 25 => "posbefore".to_string(),
            26..=28 => "semi".to_string(),
            29 | 30 => "slice".to_string(),
            31 => format!("gettoken {}", r.below(ntok + 2)),
            32 => format!("index {}", r.below(ntok + 2)),
            _ => format!("span {} {}", r.below(ntok + 1), r.below(ntok + 1)),
        };
        ops.push(o);
    }
    ops
}

/// names of the kinds used in cursor programs (kind_str of delimiters clashes with the separators)
const OP_KIND_NAMES: &[&str] = &["semicolon", "colon", "identifier", "entity", "is", "end", "package", "body", "lpar", "comma", "new"];
fn op_kind_name(k: Kind) -> &'static str {
    OP_KIND_NAMES[OP_KINDS.iter().position(|x| *x == k).unwrap()]
}
fn parse_kind(s: &str) -> Kind {
    OP_KINDS[OP_KIND_NAMES.iter().position(|x| *x == s).unwrap_or_else(|| panic!("unknown kind {}", s))]
}
fn parse_kinds(s: &str) -> Vec<Kind> {
    s.split(',').filter(|x| !x.is_empty()).map(parse_kind).collect()
}

/// Runs the ops on a real TokenStream; returns (token dump, observations).
fn run_ops(parser: &VHDLParser, text: &str, ops: &[String]) -> (String, String) {
    let source = Source::inline(Path::new("/c02ops.vhd"), text);
    let contents = source.contents();
    let tokenizer = Tokenizer::new(&parser.symbols, &source, ContentReader::new(&contents));
    let mut d0: Vec<Diagnostic> = Vec::new();
    let stream = TokenStream::new(tokenizer, &mut d0);
    let zero = stream.get_current_token_id();
    let mut dump = Vec::new();
    while let Some(t) = stream.peek() {
        dump.push(format!("{}@{}", kind_str(t.kind), fmt_range(t.pos.range())));
        stream.skip();
    }
    stream.set_state(0);
    let mut obs: Vec<String> = Vec::new();
    for o in ops {
        let parts: Vec<&str> = o.split(' ').collect();
        let res = catch_unwind(AssertUnwindSafe(|| -> String {
            let diag_ranges = |v: &Vec<Diagnostic>| v.iter().map(|d| fmt_range(d.pos.range())).collect::<Vec<_>>().join(",");
            match parts[0] {
                "skip" => {
                    stream.skip();
                    "u".to_string()
                }
                "back" => {
                    stream.back();
                    "u".to_string()
                }
                "set" => {
                    stream.set_state(parts[1].parse().unwrap());
                    "u".to_string()
                }
                "peek" => stream.peek().map(fmt_tok).unwrap_or("none".to_string()),
                "cur" => format!("id:{}", tid(stream.get_current_token_id())),
                "last" => format!("id:{}", tid(stream.get_last_token_id())),
                "expect" => match stream.expect_kind(parse_kind(parts[1])) {
                    Ok(id) => format!("id:{}", tid(id)),
                    Err(d) => format!("err:{}", fmt_range(d.pos.range())),
                },
                "popif" => match stream.pop_if_kind(parse_kind(parts[1])) {
                    Some(id) => format!("id:{}", tid(id)),
                    None => "none".to_string(),
                },
                "peekexpect" => match stream.peek_expect() {
                    Ok(t) => fmt_tok(t),
                    Err(d) => format!("err:{}", fmt_range(d.pos.range())),
                },
                "nextkinds" => format!("b:{}", stream.next_kinds_are(&parse_kinds(parts[1])) as u8),
                "skipuntil" => {
                    let ks = parse_kinds(parts[1]);
                    match stream.skip_until(|k| ks.contains(&k)) {
                        Ok(()) => "u".to_string(),
                        Err(d) => format!("err:{}", fmt_range(d.pos.range())),
                    }
                }
                "recover" => {
                    let ks = parse_kinds(parts[1]);
                    match stream.peek() {
                        None => "none".to_string(),
                        Some(t) => {
                            let err = kinds_error(&t.pos, &[Kind::SemiColon]);
                            let mut ds: Vec<Diagnostic> = Vec::new();
                            let r = verif_or_recover_until(&stream, &mut ds, err, &ks);
                            let o = match r {
                                Ok(()) => "u".to_string(),
                                Err(d) => format!("err:{}", fmt_range(d.pos.range())),
                            };
                            format!("{}!{}", o, diag_ranges(&ds))
                        }
                    }
                }
                "posbefore" => match stream.peek() {
                    None => "none".to_string(),
                    Some(t) => format!("r:{}", fmt_range(stream.pos_before(t).range())),
                },
                "semi" => {
                    let mut ds: Vec<Diagnostic> = Vec::new();
                    let id = verif_expect_semicolon_or_last(&stream, &mut ds);
                    format!("id:{}!{}", tid(id), diag_ranges(&ds))
                }
                "slice" => format!("len:{}", stream.slice_tokens().len()),
                "gettoken" => stream.get_token(zero + parts[1].parse::<usize>().unwrap()).map(fmt_tok).unwrap_or("none".to_string()),
                "index" => fmt_tok(stream.index(zero + parts[1].parse::<usize>().unwrap())),
                "span" => format!(
                    "r:{}",
                    fmt_range(
                        stream
                            .get_span(zero + parts[1].parse::<usize>().unwrap(), zero + parts[2].parse::<usize>().unwrap())
                            .range()
                    )
                ),
                x => panic!("unknown op {}", x),
            }
        }));
        match res {
            Ok(s) => obs.push(s),
            Err(_) => {
                obs.push("CRASH".to_string());
                break;
            }
        }
    }
    let fin = format!("{},{}", stream.state(), stream.verif_token_offset());
    (dump.join(" "), format!("{}|{}", obs.join(";"), fin))
}

fn token_dump(parser: &VHDLParser, text: &str) -> String {
    let source = Source::inline(Path::new("/c02ops.vhd"), text);
    let contents = source.contents();
    let tokenizer = Tokenizer::new(&parser.symbols, &source, ContentReader::new(&contents));
    let mut d0: Vec<Diagnostic> = Vec::new();
    let stream = TokenStream::new(tokenizer, &mut d0);
    let mut dump = Vec::new();
    while let Some(t) = stream.peek() {
        dump.push(format!("{}@{}", kind_str(t.kind), fmt_range(t.pos.range())));
        stream.skip();
    }
    dump.join(" ")
}

fn ops_case_line(text: &str, dump: &str, ops: &[String]) -> String {
    let cps: Vec<String> = text.chars().map(|c| (c as u32).to_string()).collect();
    format!("{}|{}|{}", cps.join(" "), dump, ops.join(";"))
}

fn ops_mode(seed: u64, n: usize, cases_out: &str, impl_out: &str) {
    let parser = VHDLParser::new(VHDLStandard::VHDL2008);
    let mut r = Rng::new(seed ^ 0x0C02_0B5);
    let mut fc = std::io::BufWriter::new(std::fs::File::create(cases_out).unwrap());
    let mut fi = std::io::BufWriter::new(std::fs::File::create(impl_out).unwrap());
    for _ in 0..n {
        let nt = { let m = if r.chance(1, 6) { 30 } else { 9 }; r.below(m) };
        let mut text = String::new();
        for k in 0..nt {
            if k > 0 {
                text.push(' ');
            }
            text.push_str(*r.pick(OP_WORDS));
        }
        if r.chance(1, 3) {
            text.push('\n');
        }
        if r.chance(1, 12) {
            text.push_str("-- c");
        }
        // number of real tokens (newline words are no tokens)
        let ntok = text.split_whitespace().filter(|w| *w != "--" && *w != "c").count();
        let ops = gen_ops(&mut r, ntok);
        // the case line is flushed BEFORE the program runs: after a hang the last case line is the one in flight
        writeln!(fc, "{}", ops_case_line(&text, &token_dump(&parser, &text), &ops)).unwrap();
        fc.flush().unwrap();
        let (_, obs) = run_ops(&parser, &text, &ops);
        writeln!(fi, "{}", obs).unwrap();
        fi.flush().unwrap();
    }
}

fn ops_file(cases_in: &str, impl_out: &str) {
    let parser = VHDLParser::new(VHDLStandard::VHDL2008);
    let mut fi = std::io::BufWriter::new(std::fs::File::create(impl_out).unwrap());
    for line in std::fs::read_to_string(cases_in).unwrap().lines() {
        let f: Vec<&str> = line.split('|').collect();
        if f.len() < 3 {
            continue;
        }
        let text: String = f[0].split_whitespace().map(|x| char::from_u32(x.parse().unwrap()).unwrap()).collect();
        let ops: Vec<String> = f[2].split(';').filter(|x| !x.is_empty()).map(|x| x.to_string()).collect();
        // the recorded token dump must still be what the tokenizer yields
        let dump = token_dump(&parser, &text);
        if dump != f[1] {
            writeln!(fi, "DUMP-MISMATCH {}", dump).unwrap();
        } else {
            let (_, obs) = run_ops(&parser, &text, &ops);
            writeln!(fi, "{}", obs).unwrap();
        }
        fi.flush().unwrap();
    }
}

fn main() {
    std::panic::set_hook(Box::new(|info| {
        let loc = info.location().map(|l| format!("{}:{}", l.file(), l.line())).unwrap_or_default();
        LAST_PANIC_LOC.with(|l| *l.borrow_mut() = loc);
    }));
    let a: Vec<String> = std::env::args().collect();
    match a.get(1).map(|s| s.as_str()) {
        Some("gen") => gen(a[2].parse().unwrap(), &a[3], &a[4]),
        Some("genstack") => genstack(&a[2], &a[3]),
        Some("work") => work(
            &a[2],
            &a[3],
            a[4].parse().unwrap(),
            a[5].parse().unwrap(),
            a.get(6).map(|x| x.parse().unwrap()).unwrap_or(1),
            a.get(7).map(|x| x.parse().unwrap()).unwrap_or(0),
        ),
        Some("expand") => print!("{}", shape_text(a[2].trim_start_matches('@'))),
        Some("ops") => ops_mode(a[2].parse().unwrap(), a[3].parse().unwrap(), &a[4], &a[5]),
        Some("opsfile") => ops_file(&a[2], &a[3]),
        _ => {
            eprintln!("usage: c02 gen|work|ops|opsfile ...");
            std::process::exit(2);
        }
    }
}
