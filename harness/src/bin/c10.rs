//! C10 harness: document synchronisation vs plain-string splice.
//!
//! usage: c10 <mode> <seed> <n> <cases_out> <impl_out>
//!   mode = exhaustive3 | exhaustive4 | exhaustive-special | random | emptystart | special | file:<path>
//! cases_out: one case per line `doc|edit;edit;...` (see ocaml/c10_run.ml)
//! impl_out : per case `states|oracle|flags` — the implementation's line buffer after every edit
//!            (`PANIC` from the first panicking edit on), the independent plain-`Vec<char>` splice oracle
//!            after every edit, and flags: `E` if `Contents::end()` disagrees with the oracle's end.
use std::fmt::Write as _;
use std::io::Write as _;
use std::panic::{catch_unwind, AssertUnwindSafe};
use std::path::Path;
use verif_harness::rng::Rng;
use vhdl_lang::{Position, Range, Source};

#[derive(Clone, Debug)]
enum Edit {
    Full(Vec<char>),
    Ranged(u32, u32, u32, u32, Vec<char>),
}

fn cps(s: &[char]) -> String {
    let mut out = String::new();
    for (i, c) in s.iter().enumerate() {
        if i > 0 {
            out.push(' ');
        }
        write!(out, "{}", *c as u32).unwrap();
    }
    out
}

fn case_line(doc: &[char], edits: &[Edit]) -> String {
    let mut out = cps(doc);
    out.push('|');
    for e in edits {
        match e {
            Edit::Full(t) => write!(out, "F:{};", cps(t)).unwrap(),
            Edit::Ranged(l1, c1, l2, c2, t) => {
                write!(out, "R:{},{},{},{}:{};", l1, c1, l2, c2, cps(t)).unwrap()
            }
        }
    }
    out
}

// ---------- independent oracle: LSP semantics on a plain string ----------
fn normalize(s: &[char]) -> Vec<char> {
    let mut out = Vec::with_capacity(s.len());
    let mut i = 0;
    while i < s.len() {
        if s[i] == '\r' {
            out.push('\n');
            if i + 1 < s.len() && s[i + 1] == '\n' {
                i += 1;
            }
        } else {
            out.push(s[i]);
        }
        i += 1;
    }
    out
}

/// offset of (line, character) in a normalised string: lines end at '\n'; a column beyond the line
/// end is the line end; a line beyond the last line is the end of the text; a column inside a
/// surrogate pair rounds up.
fn offset(s: &[char], line: u32, character: u32) -> usize {
    let mut cur_line = 0u32;
    let mut i = 0usize;
    while cur_line < line {
        match s[i..].iter().position(|c| *c == '\n') {
            Some(p) => {
                i += p + 1;
                cur_line += 1;
            }
            None => return s.len(),
        }
    }
    let mut col = 0u64;
    while i < s.len() && s[i] != '\n' && col < character as u64 {
        col += s[i].len_utf16() as u64;
        i += 1;
    }
    i
}

fn oracle_step(s: &[char], e: &Edit) -> Vec<char> {
    match e {
        Edit::Full(t) => normalize(t),
        Edit::Ranged(l1, c1, l2, c2, t) => {
            let a = offset(s, *l1, *c1);
            let b = std::cmp::max(a, offset(s, *l2, *c2));
            let mut r: Vec<char> = s[..a].to_vec();
            r.extend_from_slice(t);
            r.extend_from_slice(&s[b..]);
            normalize(&r)
        }
    }
}

// ---------- the client's own RAW text (line endings LF, CR or CRLF kept as typed) ----------
/// offset of (line, character) in a raw string: a line ends at LF, at CRLF (one terminator) or at a
/// CR that is not followed by LF; same clamping rules as `offset`.
fn raw_offset(r: &[char], line: u32, character: u32) -> usize {
    let mut cur_line = 0u32;
    let mut i = 0usize;
    while cur_line < line {
        let mut j = i;
        while j < r.len() && r[j] != '\n' && r[j] != '\r' {
            j += 1;
        }
        if j >= r.len() {
            return r.len();
        }
        i = if r[j] == '\r' && j + 1 < r.len() && r[j + 1] == '\n' { j + 2 } else { j + 1 };
        cur_line += 1;
    }
    let mut col = 0u64;
    while i < r.len() && r[i] != '\n' && r[i] != '\r' && col < character as u64 {
        col += r[i].len_utf16() as u64;
        i += 1;
    }
    i
}

/// One step of the raw client; the bool says whether a CR/LF fusion corner occurred (theorem
/// C10_raw_step's side condition `no_cr_lf_fusion` is violated): there the client's and the
/// normalising server's line structures may legitimately differ.
fn raw_step(r: &[char], e: &Edit) -> (Vec<char>, bool) {
    match e {
        Edit::Full(t) => (t.clone(), false),
        Edit::Ranged(l1, c1, l2, c2, t) => {
            let a = raw_offset(r, *l1, *c1);
            let b = std::cmp::max(a, raw_offset(r, *l2, *c2));
            let prefix = &r[..a];
            let suffix = &r[b..];
            let next_after_prefix = t.first().or(suffix.first());
            let fuse_client = prefix.last() == Some(&'\r') && next_after_prefix == Some(&'\n');
            let fuse_server = t.last() == Some(&'\r') && suffix.first() == Some(&'\r');
            let mut out: Vec<char> = prefix.to_vec();
            out.extend_from_slice(t);
            out.extend_from_slice(suffix);
            (out, fuse_client || fuse_server)
        }
    }
}

fn oracle_end(s: &[char]) -> (u32, u32) {
    // Contents::end: last line index, utf16 length of the last stored line (terminator included)
    if s.is_empty() {
        return (0, 0);
    }
    let mut lines: Vec<&[char]> = s.split_inclusive(|c| *c == '\n').collect();
    if lines.is_empty() {
        lines.push(&[]);
    }
    let last = lines[lines.len() - 1];
    (
        (lines.len() - 1) as u32,
        last.iter().map(|c| c.len_utf16() as u32).sum(),
    )
}

// ---------- implementation ----------
fn show_impl(src: &Source) -> String {
    let c = src.contents();
    let mut out = String::new();
    for i in 0..c.num_lines() {
        if i > 0 {
            out.push('/');
        }
        let l: Vec<char> = c.get_line(i).unwrap().chars().collect();
        out.push_str(&cps(&l));
    }
    out
}

fn run_case(doc: &[char], edits: &[Edit]) -> String {
    let text: String = doc.iter().collect();
    let src = Source::inline(Path::new("/verif_c10.vhd"), &text);
    let mut states = String::new();
    let mut oracle = String::new();
    let mut flags = String::new();
    let mut s = normalize(doc);
    let mut raw: Vec<char> = doc.to_vec();
    let mut fused = false;
    let mut rawcol = String::new();
    let mut dead = false;
    for e in edits {
        if !dead {
            let r = catch_unwind(AssertUnwindSafe(|| match e {
                Edit::Full(t) => {
                    let t: String = t.iter().collect();
                    src.change(None, &t)
                }
                Edit::Ranged(l1, c1, l2, c2, t) => {
                    let t: String = t.iter().collect();
                    let range = Range::new(Position::new(*l1, *c1), Position::new(*l2, *c2));
                    src.change(Some(&range), &t)
                }
            }));
            if r.is_err() {
                dead = true;
            }
        }
        s = oracle_step(&s, e);
        let inverted = matches!(e, Edit::Ranged(l1, c1, l2, c2, _) if (*l2, *c2) < (*l1, *c1));
        let (nraw, f) = raw_step(&raw, e);
        raw = nraw;
        fused = fused || f || inverted;
        // per step: `-` once a fusion corner (or an inverted range) has occurred, else the
        // normalisation of the client's raw text
        if fused {
            rawcol.push_str("-;");
        } else {
            rawcol.push_str(&cps(&normalize(&raw)));
            rawcol.push(';');
        }
        if dead {
            states.push_str("PANIC;");
        } else {
            states.push_str(&show_impl(&src));
            states.push(';');
            let end = src.contents().end();
            if (end.line, end.character) != oracle_end(&s) {
                flags.push('E');
            }
        }
        oracle.push_str(&cps(&s));
        oracle.push(';');
    }
    format!("{}|{}|{}|{}", states, oracle, flags, rawcol)
}

// ---------- generators ----------
fn strings(alpha: &[char], n: usize) -> Vec<Vec<char>> {
    let mut all = vec![vec![]];
    let mut frontier = vec![vec![]];
    for _ in 0..n {
        let mut next = Vec::new();
        for s in &frontier {
            for c in alpha {
                let mut t: Vec<char> = s.clone();
                t.push(*c);
                next.push(t);
            }
        }
        all.extend(next.iter().cloned());
        frontier = next;
    }
    all
}

/// Characters that text-handling code likes to treat specially although for the LSP they are
/// ordinary characters of a line: byte order marks, Unicode line / paragraph separators, NEL, NUL,
/// VT, FF, non-characters, the borders of the surrogate range and of the planes.
const SPECIALS: [char; 16] = [
    '\u{feff}', '\u{fffe}', '\u{2028}', '\u{2029}', '\u{85}', '\u{0}', '\u{b}', '\u{c}', '\u{a0}', '\u{200b}',
    '\u{fffd}', '\u{ffff}', '\u{d7ff}', '\u{e000}', '\u{10000}', '\u{10ffff}',
];

fn special(rng: &mut Rng) -> char {
    // the byte order mark and the separators most often
    if rng.below(2) == 0 {
        *rng.pick(&SPECIALS[..6])
    } else {
        *rng.pick(&SPECIALS)
    }
}

fn random_text(rng: &mut Rng, max: usize) -> Vec<char> {
    const ALPHA: [char; 9] = ['a', 'b', '\t', '\n', '\r', 'é', '€', '😀', ' '];
    let n = rng.below(max + 1);
    let mut out = Vec::new();
    // 1 text in 6 STARTS with a special character
    if n > 0 && rng.below(6) == 0 {
        out.push(special(rng));
    }
    for _ in 0..n {
        if rng.below(14) == 0 {
            out.push(special(rng));
            continue;
        }
        // bias towards line structure
        let c = match rng.below(10) {
            0 | 1 => '\n',
            2 => '\r',
            3 => {
                out.push('\r');
                '\n'
            }
            _ => *rng.pick(&ALPHA),
        };
        out.push(c);
    }
    out
}

fn random_pos(rng: &mut Rng, s: &[char]) -> (u32, u32) {
    let nlines = s.iter().filter(|c| **c == '\n').count() as u32 + 1;
    let line = match rng.below(12) {
        0 => nlines + rng.below(3) as u32,
        1 => 40 + rng.below(20) as u32,
        _ => rng.below(nlines as usize + 1) as u32,
    };
    let character = match rng.below(12) {
        0 => 4_294_967_295,
        1 => 1000 + rng.below(100) as u32,
        _ => rng.below(9) as u32,
    };
    (line, character)
}

fn random_case(rng: &mut Rng) -> (Vec<char>, Vec<Edit>) {
    let doc = random_text(rng, 14);
    let mut s = normalize(&doc);
    let n = 1 + rng.below(8);
    let mut edits = Vec::new();
    for _ in 0..n {
        let e = if rng.below(12) == 0 {
            Edit::Full(random_text(rng, 10))
        } else {
            let p = random_pos(rng, &s);
            let q = if rng.below(4) == 0 { p } else { random_pos(rng, &s) };
            // mostly well-formed ranges; 1 in 16 left inverted on purpose
            let (p, q) = if q < p && rng.below(16) != 0 { (q, p) } else { (p, q) };
            Edit::Ranged(p.0, p.1, q.0, q.1, random_text(rng, 6))
        };
        s = oracle_step(&s, &e);
        edits.push(e);
    }
    (doc, edits)
}

// ---------- histories that pass through an EMPTY document ----------
/// Text with ASCII runs around non-ASCII characters of every UTF-8 width (2, 3 and 4 bytes; the
/// 4-byte ones take two UTF-16 units), so that positions BEHIND such a character on its line have
/// a UTF-16 offset that is a valid but different byte offset (silent mis-splice, no panic, should
/// the implementation ever confuse the two) as well as offsets inside a multi-byte sequence.
fn nonascii_text(rng: &mut Rng, multiline: bool) -> Vec<char> {
    const WIDE: [char; 11] = ['ä', 'é', 'ß', '€', '→', '😀', '𝄞', 'Ω', '\u{feff}', '\u{2028}', '\u{85}'];
    const WORDS: [&str; 8] = ["-- Z", "hler", "abc", " x", "signal s", ";", "r", " := 1"];
    let mut out: Vec<char> = Vec::new();
    let lines = if multiline { 1 + rng.below(3) } else { 1 };
    for l in 0..lines {
        if l > 0 {
            match rng.below(4) {
                0 => out.extend(['\r', '\n']),
                1 => out.push('\r'),
                _ => out.push('\n'),
            }
        }
        let groups = 1 + rng.below(3);
        for _ in 0..groups {
            if rng.below(4) != 0 {
                out.extend(rng.pick(&WORDS).chars());
            }
            out.push(*rng.pick(&WIDE));
            if rng.below(3) == 0 {
                out.push(*rng.pick(&WIDE));
            }
            // an ASCII tail: the interesting edit positions lie in or behind it
            if rng.below(5) != 0 {
                out.extend(rng.pick(&WORDS).chars());
            }
        }
    }
    if multiline && rng.below(3) == 0 {
        out.push('\n');
    }
    out
}

/// A position on an existing line of the normalised text `s`, at a UTF-16 column anywhere in the
/// line with a bias towards the columns behind its LAST non-ASCII character (and the line end).
fn pos_behind_wide(rng: &mut Rng, s: &[char]) -> (u32, u32) {
    let lines: Vec<&[char]> = s.split(|c| *c == '\n').collect();
    // prefer lines that hold a non-ASCII character
    let wide: Vec<usize> = (0..lines.len())
        .filter(|i| lines[*i].iter().any(|c| !c.is_ascii()))
        .collect();
    let li = if !wide.is_empty() && rng.below(6) != 0 {
        *rng.pick(&wide)
    } else {
        rng.below(lines.len())
    };
    let line = lines[li];
    let len16: u32 = line.iter().map(|c| c.len_utf16() as u32).sum();
    let mut behind = 0u32; // column just behind the last non-ASCII character
    let mut col = 0u32;
    for c in line {
        col += c.len_utf16() as u32;
        if !c.is_ascii() {
            behind = col;
        }
    }
    let character = match rng.below(10) {
        0 => rng.below(len16 as usize + 3) as u32,
        1 => len16,
        2 => len16 + 1 + rng.below(3) as u32,
        _ => behind + rng.below((len16 - behind) as usize + 1) as u32,
    };
    (li as u32, character)
}

fn emptystart_case(rng: &mut Rng) -> (Vec<char>, Vec<Edit>) {
    let mut edits = Vec::new();
    // (1) reach the empty document: a new empty file, select-all + delete (ranged, exact end or
    // far beyond it), or a full-text change to ""
    let doc: Vec<char> = match rng.below(4) {
        0 | 1 => Vec::new(),
        _ => {
            if rng.below(2) == 0 {
                random_text(rng, 10)
            } else {
                nonascii_text(rng, true)
            }
        }
    };
    let mut s = normalize(&doc);
    if !doc.is_empty() || rng.below(6) == 0 {
        let e = match rng.below(5) {
            0 => Edit::Full(Vec::new()),
            // (model line numbers are Peano numbers: keep lines small, characters may be huge)
            1 => Edit::Ranged(0, 0, 1000, 0, Vec::new()),
            2 => Edit::Ranged(0, 0, 60, 4_294_967_295, Vec::new()),
            _ => {
                // the exact end of the text, as an editor sends it
                let nl = s.iter().filter(|c| **c == '\n').count() as u32;
                let last: u32 = s
                    .rsplit(|c| *c == '\n')
                    .next()
                    .unwrap_or(&[])
                    .iter()
                    .map(|c| c.len_utf16() as u32)
                    .sum();
                Edit::Ranged(0, 0, nl, last, Vec::new())
            }
        };
        s = oracle_step(&s, &e);
        edits.push(e);
    }
    // (2) a RANGED insert of non-ASCII text into the empty document (any position denotes its end)
    let multiline = rng.below(2) == 0;
    let t = nonascii_text(rng, multiline);
    let e = match rng.below(4) {
        0 => Edit::Ranged(0, 0, 0, 0, t),
        1 => Edit::Ranged(0, 0, 0, rng.below(4) as u32, t),
        2 => Edit::Ranged(rng.below(3) as u32, rng.below(5) as u32, 3, 0, t),
        _ => Edit::Ranged(0, 0, 0, 0, t),
    };
    s = oracle_step(&s, &e);
    edits.push(e);
    // (3) further ranged edits behind those characters: typing, replacing, deleting
    for _ in 0..1 + rng.below(5) {
        if s.is_empty() {
            let e = Edit::Ranged(0, 0, 0, 0, nonascii_text(rng, false));
            s = oracle_step(&s, &e);
            edits.push(e);
            continue;
        }
        let p = pos_behind_wide(rng, &s);
        let q = match rng.below(4) {
            0 | 1 => p,
            2 => (p.0, p.1 + 1 + rng.below(3) as u32),
            _ => pos_behind_wide(rng, &s),
        };
        let (p, q) = if q < p { (q, p) } else { (p, q) };
        let t: Vec<char> = match rng.below(6) {
            0 => Vec::new(),
            1 => nonascii_text(rng, false),
            2 => vec!['\n'],
            3 => random_text(rng, 4),
            _ => rng.pick(&["!", "r", "xy", " -- c", "0"]).chars().collect(),
        };
        let e = if q == p && t.is_empty() {
            Edit::Ranged(p.0, p.1, q.0, q.1, vec!['!'])
        } else {
            Edit::Ranged(p.0, p.1, q.0, q.1, t)
        };
        s = oracle_step(&s, &e);
        edits.push(e);
    }
    (doc, edits)
}

// ---------- texts that start with / contain "special" characters ----------
/// Initial text (Contents::from_str) or full-text replacement starting with a special character
/// (or holding one elsewhere), followed by ranged edits on the affected line.
fn special_text(rng: &mut Rng) -> Vec<char> {
    const WORDS: [&str; 6] = ["entity e is", "ab", "-- c", "x", "signal s : bit;", ""];
    let mut out: Vec<char> = Vec::new();
    let lines = 1 + rng.below(3);
    let first = rng.below(4) != 0; // special as FIRST character of the text
    let at_line = rng.below(lines);
    for l in 0..lines {
        if l > 0 {
            match rng.below(4) {
                0 => out.extend(['\r', '\n']),
                1 => out.push('\r'),
                _ => out.push('\n'),
            }
        }
        if l == 0 && first {
            out.push(special(rng));
            if rng.below(4) == 0 {
                out.push(special(rng));
            }
        }
        let w: Vec<char> = rng.pick(&WORDS).chars().collect();
        if (!first && l == at_line) || rng.below(5) == 0 {
            let k = rng.below(w.len() + 1);
            out.extend_from_slice(&w[..k]);
            out.push(special(rng));
            out.extend_from_slice(&w[k..]);
        } else {
            out.extend_from_slice(&w);
        }
    }
    if rng.below(3) == 0 {
        out.push('\n');
    }
    out
}

fn special_case(rng: &mut Rng) -> (Vec<char>, Vec<Edit>) {
    let doc = if rng.below(5) == 0 { random_text(rng, 8) } else { special_text(rng) };
    let mut s = normalize(&doc);
    let mut edits = Vec::new();
    for _ in 0..1 + rng.below(5) {
        let nlines = s.iter().filter(|c| **c == '\n').count() as u32 + 1;
        let e = match rng.below(10) {
            // full-text replacement, mostly starting with a special character
            0 | 1 => Edit::Full(special_text(rng)),
            // a special character typed at the very start / somewhere by a ranged change
            2 => {
                let l = if rng.below(2) == 0 { 0 } else { rng.below(nlines as usize) as u32 };
                let c = if rng.below(2) == 0 { 0 } else { rng.below(6) as u32 };
                Edit::Ranged(l, c, l, c, vec![special(rng)])
            }
            // ranged edits on the affected line(s): small columns on line 0 (or any line)
            _ => {
                let l = if rng.below(3) != 0 { 0 } else { rng.below(nlines as usize) as u32 };
                let c1 = rng.below(10) as u32;
                let (l2, c2) = match rng.below(6) {
                    0 => (l + 1, 0),
                    1 | 2 => (l, c1),
                    _ => (l, c1 + rng.below(4) as u32),
                };
                let t: Vec<char> = match rng.below(5) {
                    0 => Vec::new(),
                    1 => vec!['\n'],
                    2 => random_text(rng, 3),
                    _ => rng.pick(&["x", "ent", "!", " "]).chars().collect(),
                };
                Edit::Ranged(l, c1, l2, c2, t)
            }
        };
        s = oracle_step(&s, &e);
        edits.push(e);
    }
    (doc, edits)
}

fn parse_case(line: &str) -> Option<(Vec<char>, Vec<Edit>)> {
    let mut parts = line.split('|');
    let doc = parts.next()?;
    let edits = parts.next()?;
    let parse_cps = |s: &str| -> Vec<char> {
        s.split_whitespace()
            .map(|x| char::from_u32(x.parse::<u32>().unwrap()).unwrap())
            .collect()
    };
    let mut es = Vec::new();
    for e in edits.split(';').filter(|e| !e.is_empty()) {
        let f: Vec<&str> = e.split(':').collect();
        if f[0] == "F" {
            es.push(Edit::Full(parse_cps(f[1])));
        } else {
            let p: Vec<u32> = f[1].split(',').map(|x| x.parse().unwrap()).collect();
            es.push(Edit::Ranged(p[0], p[1], p[2], p[3], parse_cps(f[2])));
        }
    }
    Some((parse_cps(doc), es))
}

fn main() {
    let args: Vec<String> = std::env::args().collect();
    let mode = &args[1];
    let seed: u64 = args[2].parse().unwrap();
    let n: usize = args[3].parse().unwrap();
    let mut cases_out = std::io::BufWriter::new(std::fs::File::create(&args[4]).unwrap());
    let mut impl_out = std::io::BufWriter::new(std::fs::File::create(&args[5]).unwrap());
    std::panic::set_hook(Box::new(|_| {}));
    let mut emit = |doc: &[char], edits: &[Edit]| {
        writeln!(cases_out, "{}", case_line(doc, edits)).unwrap();
        writeln!(impl_out, "{}", run_case(doc, edits)).unwrap();
    };
    if mode == "exhaustive-special" {
        // every document <= 3 characters over {a, LF, U+FEFF, U+2028}, reaching the buffer through
        // Contents::from_str (initial text) and through a full-text change, then one ranged change
        let alpha = ['a', '\n', '\u{feff}', '\u{2028}'];
        let docs = strings(&alpha, 3);
        let repls = strings(&alpha, 1);
        let mut positions = Vec::new();
        for l in 0..3u32 {
            for c in 0..4u32 {
                positions.push((l, c));
            }
        }
        for d in &docs {
            for t in &repls {
                for p in &positions {
                    for q in &positions {
                        if p <= q {
                            let r = Edit::Ranged(p.0, p.1, q.0, q.1, t.clone());
                            emit(d, &[r.clone()]);
                            emit(&['a'], &[Edit::Full(d.clone()), r]);
                        }
                    }
                }
            }
        }
    } else if mode.starts_with("exhaustive") {
        let (dn, tn) = if mode == "exhaustive4" { (4, 3) } else { (3, 2) };
        let alpha = ['a', '\n', '\r', '😀'];
        let docs = strings(&alpha, dn);
        let repls = strings(&alpha, tn);
        let mut positions = Vec::new();
        for l in 0..4u32 {
            for c in 0..5u32 {
                positions.push((l, c));
            }
        }
        for d in &docs {
            for t in &repls {
                for p in &positions {
                    for q in &positions {
                        if p <= q {
                            emit(d, &[Edit::Ranged(p.0, p.1, q.0, q.1, t.clone())]);
                        }
                    }
                }
            }
        }
    } else if mode == "random" {
        let mut rng = Rng::new(seed);
        for _ in 0..n {
            let (doc, edits) = random_case(&mut rng);
            emit(&doc, &edits);
        }
    } else if mode == "special" {
        let mut rng = Rng::new(seed ^ 0x0bad_feff);
        for _ in 0..n {
            let (doc, edits) = special_case(&mut rng);
            emit(&doc, &edits);
        }
    } else if mode == "emptystart" {
        let mut rng = Rng::new(seed ^ 0x5eed_e3b7);
        for _ in 0..n {
            let (doc, edits) = emptystart_case(&mut rng);
            emit(&doc, &edits);
        }
    } else if let Some(path) = mode.strip_prefix("file:") {
        for line in std::fs::read_to_string(path).unwrap().lines() {
            if let Some((doc, edits)) = parse_case(line) {
                emit(&doc, &edits);
            }
        }
    }
}
