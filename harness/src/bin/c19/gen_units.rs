// included by gen.rs: unit group generators (entity + architecture, package + body) and per-class sites

impl Gen {
    fn ind(&self, r: usize) -> &'static str {
        if matches!(self.regions[r].kind, Rk::Process | Rk::Subprog | Rk::ProtBody) {
            "    "
        } else {
            "  "
        }
    }
    fn owner_of(&self, r: usize) -> Option<usize> {
        let o = self.regions[r].owner;
        if o == usize::MAX {
            None
        } else {
            Some(o)
        }
    }

    // --------------------------------------------------------------------------------------------
    // primary declarations of a region (the targets)
    // --------------------------------------------------------------------------------------------
    fn declare_items(&mut self, r: usize, n: usize) {
        for _ in 0..n {
            let pick = self.rng.below(24);
            self.declare_item(r, pick);
        }
    }

    fn obj_class_for(&mut self, r: usize) -> (Oc, &'static str) {
        // an object class that may be declared in region r
        let mut c: Vec<(Oc, &'static str)> = vec![(Oc::Constant, "constant")];
        if self.allows_signals(r) {
            c.push((Oc::Signal, "signal"));
            c.push((Oc::Signal, "signal"));
        }
        if self.allows_variables(r) {
            c.push((Oc::Variable, "variable"));
            c.push((Oc::Variable, "variable"));
        }
        *self.rng.pick(&c)
    }

    fn declare_item(&mut self, r: usize, pick: usize) {
        let owner = self.owner_of(r);
        let el = self.elig_in(r);
        let ind = self.ind(r);
        let kind = self.regions[r].kind;
        match pick {
            0 | 1 | 2 => {
                // integer object(s); sometimes two identifiers in one declaration
                let (oc, kw) = self.obj_class_for(r);
                let a = self.ent("o", "obj", owner, None, el);
                let init = if oc == Oc::Constant { " := 3" } else { "" };
                if self.rng.chance(1, 4) {
                    let b = self.ent("o", "obj", owner, None, el);
                    let t = format!("{}{} {}, {} : integer{};\n", ind, kw, self.d(a), self.d(b), init);
                    self.decl(r, t);
                    self.target(What::IntObj(b, oc), r);
                } else {
                    let t = format!("{}{} {} : integer{};\n", ind, kw, self.d(a), init);
                    self.decl(r, t);
                }
                self.target(What::IntObj(a, oc), r);
            }
            3 => {
                if !self.allows_signals(r) {
                    return self.declare_item(r, 0);
                }
                let a = self.ent("b", "obj", owner, None, el);
                let t = format!("{}signal {} : bit;\n", ind, self.d(a));
                self.decl(r, t);
                self.target(What::BitSig(a, kind != Rk::PkgHead), r);
            }
            4 => {
                let a = self.ent("tc", "obj", owner, None, el);
                let t = format!("{}constant {} : time := 2 ns;\n", ind, self.d(a));
                self.decl(r, t);
                self.target(What::TimeConst(a), r);
            }
            5 => {
                let a = self.ent("bc", "obj", owner, None, el);
                let t = format!("{}constant {} : boolean := true;\n", ind, self.d(a));
                self.decl(r, t);
                self.target(What::BoolConst(a), r);
            }
            6 | 7 => {
                // enumeration type, sometimes with an object of it
                let t = self.ent("et", "type", owner, None, el);
                let la = self.ent("la", "enum", Some(t), None, false);
                let lb = self.ent("lb", "enum", Some(t), None, false);
                let txt = format!("{}type {} is ({}, {});\n", ind, self.d(t), self.d(la), self.d(lb));
                self.decl(r, txt);
                self.target(What::EnumType(t, la, lb), r);
                if self.rng.chance(1, 2) {
                    let (oc, kw) = self.obj_class_for(r);
                    let o = self.ent("eo", "obj", owner, None, el);
                    let init = if oc == Oc::Constant { format!(" := {}", self.r(la, "enum_literal_value")) } else { String::new() };
                    let txt = format!("{}{} {} : {}{};\n", ind, kw, self.d(o), self.r(t, "subtype_mark_object"), init);
                    self.decl(r, txt);
                    self.target(What::EnumObj(o, t, oc), r);
                }
                if self.rng.chance(1, 3) && kind != Rk::PkgHead {
                    // user-defined operator on the enumeration type
                    let f = self.named_ent("\"-\"".to_string(), "over", owner, None, el);
                    let l = self.ent("l", "iobj", Some(f), None, true);
                    let rr = self.ent("r", "iobj", Some(f), None, true);
                    let txt = format!(
                        "{}function {} ({}, {} : {}) return {} is\n{}begin\n{}  return {};\n{}end function;\n",
                        ind,
                        self.d(f),
                        self.d(l),
                        self.d(rr),
                        self.r(t, "param_subtype"),
                        self.r(t, "return_type"),
                        ind,
                        ind,
                        self.r(l, "return_expr"),
                        ind
                    );
                    self.decl(r, txt);
                    self.target(What::Oper(f, la, lb), r);
                    // the formals are ordinary parameters of a body: `l` used, `r` unused
                }
            }
            8 | 9 => {
                let t = self.ent("rt", "type", owner, None, el);
                let f1 = self.ent("f", "elem", Some(t), None, false);
                let f2 = self.ent("f", "elem", Some(t), None, false);
                let txt = format!("{}type {} is record\n{}  {} : integer;\n{}  {} : bit;\n{}end record;\n", ind, self.d(t), ind, self.d(f1), ind, self.d(f2), ind);
                self.decl(r, txt);
                self.target(What::RecType(t, f1), r);
                if self.rng.chance(2, 3) {
                    let (oc, kw) = self.obj_class_for(r);
                    let o = self.ent("ro", "obj", owner, None, el);
                    let init = if oc == Oc::Constant {
                        format!(" := ({} => 1, {} => '0')", self.r(f1, "aggregate_choice_elem"), self.r(f2, "aggregate_choice_elem"))
                    } else {
                        String::new()
                    };
                    let txt = format!("{}{} {} : {}{};\n", ind, kw, self.d(o), self.r(t, "subtype_mark_object"), init);
                    self.decl(r, txt);
                    self.target(What::RecObj(o, f1, oc), r);
                }
            }
            10 => {
                let t = self.ent("at", "type", owner, None, el);
                let txt = format!("{}type {} is array (0 to 3) of integer;\n", ind, self.d(t));
                self.decl(r, txt);
                self.target(What::ArrType(t), r);
                if self.rng.chance(2, 3) {
                    let (oc, kw) = self.obj_class_for(r);
                    let o = self.ent("ao", "obj", owner, None, el);
                    let init = if oc == Oc::Constant { " := (others => 0)" } else { "" };
                    let txt = format!("{}{} {} : {}{};\n", ind, kw, self.d(o), self.r(t, "subtype_mark_object"), init);
                    self.decl(r, txt);
                    self.target(What::ArrObj(o, oc), r);
                }
            }
            11 => {
                let t = self.ent("st", "type", owner, None, el);
                let txt = if self.rng.chance(1, 2) {
                    format!("{}subtype {} is integer range 0 to 9;\n", ind, self.d(t))
                } else {
                    format!("{}type {} is range 0 to 9;\n", ind, self.d(t))
                };
                self.decl(r, txt);
                self.target(What::IntSubtype(t), r);
            }
            12 => {
                let t = self.ent("ft", "type", owner, None, el);
                let txt = format!("{}type {} is file of integer;\n", ind, self.d(t));
                self.decl(r, txt);
                self.target(What::FileType(t), r);
                if self.rng.chance(1, 2) && kind != Rk::PkgHead {
                    let o = self.ent("fo", "other", owner, None, el);
                    let txt = format!("{}file {} : {};\n", ind, self.d(o), self.r(t, "subtype_mark_file"));
                    self.decl(r, txt);
                    self.target(What::FileObj(o), r);
                }
            }
            13 => {
                let t = self.ent("ac", "type", owner, None, el);
                let txt = format!("{}type {} is access integer;\n", ind, self.d(t));
                self.decl(r, txt);
                self.target(What::AccType(t), r);
            }
            14 | 15 => self.declare_func(r),
            16 | 17 => self.declare_proc(r),
            18 => {
                if matches!(kind, Rk::Process | Rk::Subprog | Rk::PkgBody | Rk::ProtBody | Rk::Entity) {
                    return self.declare_item(r, 14);
                }
                let (c, g, p) = self.helper_comp(r);
                self.target(What::Comp(c, g, p), r);
            }
            19 => {
                let a = self.ent("attr", "other", owner, None, el);
                let txt = format!("{}attribute {} : integer;\n", ind, self.d(a));
                self.decl(r, txt);
                self.target(What::Attr(a), r);
            }
            20 => {
                if matches!(kind, Rk::PkgHead | Rk::ProtBody | Rk::Entity) {
                    return self.declare_item(r, 1);
                }
                self.declare_protected(r);
            }
            21 => {
                // resolution function
                if kind == Rk::PkgHead {
                    return self.declare_item(r, 2);
                }
                let vt = self.ent("iv", "type", owner, None, el);
                let f = self.ent("rf", "over", owner, None, el);
                let v = self.ent("v", "iobj", Some(f), None, true);
                let txt = format!(
                    "{}type {} is array (natural range <>) of integer;\n{}function {} ({} : {}) return integer is\n{}begin\n{}  return {}(0);\n{}end function;\n",
                    ind,
                    self.d(vt),
                    ind,
                    self.d(f),
                    self.d(v),
                    self.r(vt, "param_subtype"),
                    ind,
                    ind,
                    self.r(v, "indexed_prefix"),
                    ind
                );
                self.decl(r, txt);
                self.target(What::ResFunc(f), r);
            }
            22 => {
                // physical type with a primary and a secondary unit
                let t = self.ent("ph", "type", owner, None, el);
                let u0 = self.ent("ua", "other", owner, None, el);
                let u1 = self.ent("ub", "other", owner, None, el);
                let txt = format!(
                    "{}type {} is range 0 to 1000 units {}; {} = 10 {}; end units;\n",
                    ind,
                    self.d(t),
                    self.d(u0),
                    self.d(u1),
                    self.r(u0, "physical_unit_in_secondary_unit")
                );
                self.decl(r, txt);
                self.target(What::PhysType(t, u0), r);
                self.target(What::PhysUnit(u1, t), r);
            }
            _ => {
                let k = self.rng.below(3);
                self.declare_item(r, k)
            }
        }
    }

    /// function (x : integer) return integer, with or without a separate declaration; optionally a call
    /// between declaration and body (resolves to the declaration)
    fn declare_func(&mut self, r: usize) {
        let owner = self.owner_of(r);
        let el = self.elig_in(r);
        let ind = self.ind(r);
        let kind = self.regions[r].kind;
        let (decl_region, body_region, bowner) = if kind == Rk::PkgHead {
            let host = self.regions[r].seq_host.unwrap();
            (r, host, self.owner_of(host))
        } else {
            (r, r, owner)
        };
        let with_decl = kind == Rk::PkgHead || self.rng.chance(1, 2);
        let mut fd = None;
        if with_decl {
            let f = self.ent("fn", "sdecl", owner, None, el);
            let x = self.ent("x", "iobj", Some(f), None, false);
            let t = format!("{}function {} ({} : integer) return integer;\n", ind, self.d(f), self.d(x));
            self.decl(decl_region, t);
            fd = Some(f);
            if self.rng.chance(1, 3) {
                // use between declaration and body: resolves to the declaration
                let c = self.ent("cb", "obj", bowner, None, self.elig_in(body_region));
                let bind = self.ind(body_region);
                let t = format!("{}constant {} : integer := {}(1);\n", bind, self.d(c), self.r(f, "call_between_decl_and_body"));
                self.decl(body_region, t);
                self.site_stats.push("call_between_decl_and_body".into());
            }
        }
        let bel = if let Some(_f) = fd { el } else { self.elig_in(body_region) };
        let fb = self.ent("fn", "over", bowner, fd, bel);
        let xb = self.ent("x", "iobj", Some(fb), None, true);
        let br = self.region(Rk::Subprog, fb, true);
        let kv = self.ent("kv", "obj", Some(fb), None, true);
        self.regions[br].sink = Some(kv);
        let bind = self.ind(body_region);
        self.regions[br].head = format!("{}function {} ({} : integer) return integer is\n{}  variable {} : integer;\n", bind, self.d(fb), self.d(xb), bind, self.d(kv));
        self.regions[br].mid = format!("{}begin\n", bind);
        let end_name = if self.rng.chance(1, 3) { format!(" {}", self.raw(fb)) } else { String::new() };
        self.regions[br].tail = format!("{}  return 0;\n{}end function{};\n", bind, bind, end_name);
        self.regions[body_region].decl.push(Piece::C(br));
        self.target(What::IntObj(xb, Oc::Param), br);
        if self.rng.chance(1, 3) {
            self.declare_items(br, 1);
        }
        self.target(What::Func(fb), body_region);
    }

    fn declare_proc(&mut self, r: usize) {
        let owner = self.owner_of(r);
        let el = self.elig_in(r);
        let ind = self.ind(r);
        let kind = self.regions[r].kind;
        let (decl_region, body_region, bowner) = if kind == Rk::PkgHead {
            let host = self.regions[r].seq_host.unwrap();
            (r, host, self.owner_of(host))
        } else {
            (r, r, owner)
        };
        let with_decl = kind == Rk::PkgHead || self.rng.chance(1, 2);
        let mut pd = None;
        if with_decl {
            let p = self.ent("pr", "sdecl", owner, None, el);
            let v = self.ent("v", "iobj", Some(p), None, false);
            let t = format!("{}procedure {} ({} : in integer);\n", ind, self.d(p), self.d(v));
            self.decl(decl_region, t);
            pd = Some(p);
            if self.rng.chance(1, 3) {
                // a procedure body between declaration and body that calls it (named association: formal of the declaration)
                let u = self.ent("ub", "over", bowner, None, self.elig_in(body_region));
                let bind = self.ind(body_region);
                let t = if self.rng.chance(1, 2) {
                    format!("{}procedure {} is\n{}begin\n{}  {}({} => 1);\n{}end procedure;\n", bind, self.d(u), bind, bind, self.r(p, "pcall_between_decl_and_body"), self.r(v, "assoc_formal"), bind)
                } else {
                    format!("{}procedure {} is\n{}begin\n{}  {}(1);\n{}end procedure;\n", bind, self.d(u), bind, bind, self.r(p, "pcall_between_decl_and_body"), bind)
                };
                self.decl(body_region, t);
                self.site_stats.push("pcall_between_decl_and_body".into());
            }
        }
        let bel = if pd.is_some() { el } else { self.elig_in(body_region) };
        let pb = self.ent("pr", "over", bowner, pd, bel);
        let vb = self.ent("v", "iobj", Some(pb), None, true);
        let br = self.region(Rk::Subprog, pb, false);
        let kv = self.ent("kv", "obj", Some(pb), None, true);
        self.regions[br].sink = Some(kv);
        let bind = self.ind(body_region);
        self.regions[br].head = format!("{}procedure {} ({} : in integer) is\n{}  variable {} : integer;\n", bind, self.d(pb), self.d(vb), bind, self.d(kv));
        self.regions[br].mid = format!("{}begin\n", bind);
        let end_name = if self.rng.chance(1, 3) { format!(" {}", self.raw(pb)) } else { String::new() };
        self.regions[br].tail = format!("{}end procedure{};\n", bind, end_name);
        self.regions[body_region].decl.push(Piece::C(br));
        self.target(What::IntObj(vb, Oc::Param), br);
        if self.rng.chance(1, 3) {
            self.declare_items(br, 1);
        }
        self.target(What::Proc(pb, Some(vb)), body_region);
    }

    /// protected type declaration + body in the same declarative part, with a function method `get`
    /// and a private variable; an object of the type
    fn declare_protected(&mut self, r: usize) {
        let owner = self.owner_of(r);
        let el = self.elig_in(r);
        let ind = self.ind(r);
        let pt = self.ent("pt", "prot", owner, None, el);
        let gd = self.ent("get", "sdecl", Some(pt), None, el);
        let md = self.ent("meth", "sdecl", Some(pt), None, el);
        let t = format!(
            "{}type {} is protected\n{}  impure function {} return integer;\n{}  procedure {};\n{}end protected;\n",
            ind,
            self.d(pt),
            ind,
            self.d(gd),
            ind,
            self.d(md),
            ind
        );
        self.decl(r, t);
        let pb = self.ent("pt", "prot", owner, Some(pt), el);
        let pv = self.ent("pv", "obj", Some(pb), None, true);
        let gb = self.ent("get", "over", Some(pb), Some(gd), el);
        let mb = self.ent("meth", "over", Some(pb), Some(md), el);
        let br = self.region(Rk::ProtBody, pb, false);
        self.regions[br].head = format!("{}type {} is protected body\n{}  variable {} : integer;\n", ind, self.d(pb), ind, self.d(pv));
        let used_pv = self.rng.chance(1, 2);
        let ret = if used_pv { self.r(pv, "return_expr") } else { "0".to_string() };
        self.regions[br].tail = format!(
            "{}  impure function {} return integer is\n{}  begin\n{}    return {};\n{}  end function;\n{}  procedure {} is\n{}  begin\n{}  end procedure;\n{}end protected body;\n",
            ind,
            self.d(gb),
            ind,
            ind,
            ret,
            ind,
            ind,
            self.d(mb),
            ind,
            ind,
            ind
        );
        self.regions[r].decl.push(Piece::C(br));
        // an object of the protected type: shared variable (or variable in a process / subprogram)
        let o = self.ent("po", "obj", owner, None, el);
        let t = if self.allows_variables(r) {
            format!("{}variable {} : {};\n", ind, self.d(o), self.r(pb, "subtype_mark_object"))
        } else {
            format!("{}shared variable {} : {};\n", ind, self.d(o), self.r(pb, "subtype_mark_object"))
        };
        self.decl(r, t);
        self.target(What::ProtType(o, gb), r);
        // `meth` is never called: declaration and body of an unused method
    }

    // --------------------------------------------------------------------------------------------
    // sites per target
    // --------------------------------------------------------------------------------------------
    fn use_targets(&mut self) {
        let targets = self.targets.clone();
        for t in targets {
            let nsites = match self.rng.below(10) {
                0..=3 => 0,
                4..=8 => 1,
                _ => 2 + self.rng.below(2),
            };
            for _ in 0..nsites {
                // some site kinds are not applicable to a region: retry a few times
                for _try in 0..6 {
                    if self.use_target(&t) {
                        break;
                    }
                }
            }
        }
    }

    fn use_target(&mut self, t: &Target) -> bool {
        let r = t.region;
        let rk = self.regions[r].kind;
        match t.what.clone() {
            What::IntObj(o, oc) => {
                let stat = matches!(oc, Oc::Constant | Oc::Generic | Oc::Alias(true, _));
                // dedicated sites of objects: alias, attribute specification
                if self.rng.chance(1, 8) && !matches!(oc, Oc::Param | Oc::LoopPar | Oc::Generic | Oc::PortIn | Oc::PortOut | Oc::Alias(..)) {
                    return self.alias_site(r, o, oc);
                }
                if self.rng.chance(1, 10) && matches!(oc, Oc::Constant | Oc::Signal | Oc::Variable) && self.ents[o].parent == self.owner_of(r) {
                    return self.attr_spec_site(r, o, oc);
                }
                let e = move |g: &Gen, s: &str| g.r(o, s);
                let sig_t: Option<&dyn Fn(&Gen, &str) -> String> = if matches!(oc, Oc::Signal | Oc::PortOut | Oc::Alias(_, true)) && rk != Rk::PkgHead { Some(&e) } else { None };
                let var_t: Option<&dyn Fn(&Gen, &str) -> String> = if matches!(oc, Oc::Variable) { Some(&e) } else { None };
                if oc == Oc::Signal && rk != Rk::PkgHead && self.rng.chance(1, 8) {
                    let which = self.rng.below(3);
                    let mk = move |g: &mut Gen, _pr: usize, kv: usize| -> String {
                        match which {
                            0 => format!("    {} <= release;\n", g.r(o, "release_target")),
                            1 => format!("    {} <= force 1;\n", g.r(o, "force_target")),
                            _ => format!("    {} := {}'delayed(1 ns);\n", g.r(kv, "sink_target"), g.r(o, "attr_prefix_signal")),
                        }
                    };
                    if self.regions[r].kind == Rk::Entity {
                        return false;
                    }
                    self.seq_place(r, &mk);
                    self.site_stats.push(["release_target", "force_target", "attr_prefix_signal"][which].into());
                    return true;
                }
                if oc == Oc::PortOut {
                    // not readable (VHDL-93 style): only as target
                    return self.int_site_conc(r, "csa_target", &e, false, sig_t);
                }
                self.int_site(r, &e, stat, sig_t, var_t)
            }
            What::BitSig(o, asg) => self.bit_site(r, o, asg),
            What::TimeConst(o) => self.time_site(r, o),
            What::BoolConst(o) => {
                let e = move |g: &Gen, s: &str| format!("boolean'pos({})", g.r(o, s));
                self.int_site(r, &e, true, None, None)
            }
            What::EnumType(t, la, _lb) => self.type_site(r, t, &format!("{}", self.r(la, "enum_literal_value")), "enum"),
            What::EnumObj(o, t, oc) => {
                let stat = oc == Oc::Constant;
                let e = move |g: &Gen, s: &str| format!("{}'pos({})", g.r(t, "attr_prefix_type"), g.r(o, s));
                self.int_site(r, &e, stat, None, None)
            }
            What::RecType(t, f1) => {
                let v = format!("({} => 1, others => '0')", self.r(f1, "aggregate_choice_elem"));
                // `others` for the bit element is fine: (f1 => 1, others => '0')
                self.type_site(r, t, &v, "record")
            }
            What::RecObj(o, f1, oc) => {
                let stat = oc == Oc::Constant;
                let e = move |g: &Gen, s: &str| format!("{}.{}", g.r(o, s), g.r(f1, "selected_suffix"));
                self.int_site(r, &e, stat, None, None)
            }
            What::ArrType(t) => self.type_site(r, t, "(others => 0)", "array"),
            What::ArrObj(o, oc) => {
                let stat = oc == Oc::Constant;
                match self.rng.below(4) {
                    0 => {
                        let e = move |g: &Gen, s: &str| format!("{}'length", g.r(o, s));
                        self.int_site(r, &e, true, None, None)
                    }
                    1 => {
                        // X'range as a loop range
                        let site = "loop_range_attribute".to_string();
                        let mk = move |g: &mut Gen, _pr: usize, _kv: usize| -> String {
                            let j = g.ent("j", "loop", None, None, false);
                            format!("    for {} in {}'range loop\n      null;\n    end loop;\n", g.d(j), g.r(o, &site))
                        };
                        self.seq_place(r, &mk);
                        self.site_stats.push("loop_range_attribute".into());
                        true
                    }
                    _ => {
                        let e = move |g: &Gen, s: &str| format!("{}(0)", g.r(o, s));
                        self.int_site(r, &e, stat, None, None)
                    }
                }
            }
            What::IntSubtype(t) => {
                if self.rng.chance(1, 3) {
                    // loop over the subtype
                    let which = self.rng.below(2);
                    let mk = move |g: &mut Gen, _pr: usize, _kv: usize| -> String {
                        let j = g.ent("j", "loop", None, None, false);
                        if which == 0 {
                            format!("    for {} in {} loop\n      null;\n    end loop;\n", g.d(j), g.r(t, "discrete_range_mark"))
                        } else {
                            format!("    for {} in {} range 0 to 1 loop\n      null;\n    end loop;\n", g.d(j), g.r(t, "discrete_range_mark_constrained"))
                        }
                    };
                    self.seq_place(r, &mk);
                    self.site_stats.push("discrete_range_mark".into());
                    return true;
                }
                if self.rng.chance(1, 3) {
                    let e = move |g: &Gen, s: &str| format!("integer({}'low)", g.r(t, s));
                    return self.int_site(r, &e, true, None, None);
                }
                self.type_site(r, t, "1", "int")
            }
            What::FileType(t) => self.file_type_site(r, t),
            What::FileObj(o) => {
                let site = "file_object_actual".to_string();
                let which = self.rng.below(2);
                let mk = move |g: &mut Gen, _pr: usize, kv: usize| -> String {
                    if which == 0 {
                        format!("    if endfile({}) then\n      null;\n    end if;\n", g.r(o, &site))
                    } else {
                        format!("    read({}, {});\n", g.r(o, &site), g.r(kv, "sink_target"))
                    }
                };
                if self.regions[r].func {
                    return false;
                }
                self.seq_place(r, &mk);
                self.site_stats.push("file_object_actual".into());
                true
            }
            What::AccType(t) => {
                let owner = self.owner_of(r);
                let el = self.elig_in(r);
                let ind = self.ind(r);
                match self.rng.below(3) {
                    0 if self.allows_variables(r) => {
                        let v = self.ent("av", "obj", owner, None, el);
                        let txt = format!("{}variable {} : {};\n", ind, self.d(v), self.r(t, "subtype_mark_variable"));
                        self.decl(r, txt);
                        self.site_stats.push("subtype_mark_variable".into());
                    }
                    1 => {
                        let s = self.ent("as", "type", owner, None, el);
                        let txt = format!("{}subtype {} is {};\n", ind, self.d(s), self.r(t, "subtype_def_mark"));
                        self.decl(r, txt);
                        self.site_stats.push("subtype_def_mark".into());
                    }
                    _ => {
                        if rk == Rk::PkgHead {
                            return false;
                        }
                        let p = self.ent("ap", "over", owner, None, el);
                        let v = self.ent("v", "iobj", Some(p), None, true);
                        let txt = format!("{}procedure {} (variable {} : inout {}) is\n{}begin\n{}end procedure;\n", ind, self.d(p), self.d(v), self.r(t, "param_subtype"), ind, ind);
                        self.decl(r, txt);
                        self.site_stats.push("param_subtype".into());
                    }
                }
                true
            }
            What::Func(f) => {
                if self.rng.chance(1, 6) {
                    // alias with signature
                    let owner = self.owner_of(r);
                    let a = self.ent("al", "over", owner, None, self.elig_in(r));
                    let txt = format!("{}alias {} is {} [integer return integer];\n", self.ind(r), self.d(a), self.r(f, "alias_name_signature"));
                    self.decl(r, txt);
                    self.site_stats.push("alias_name_signature".into());
                    self.target(What::Func(a), r);
                    return true;
                }
                if self.rng.chance(1, 8) && self.ents[f].parent == self.owner_of(r) && self.ents[f].kind == "over" {
                    return self.attr_spec_subprogram(r, f);
                }
                let named = self.rng.chance(1, 4);
                let e = move |g: &Gen, s: &str| if named { format!("{}(1)", g.r(f, s)) } else { format!("{}(2)", g.r(f, s)) };
                self.int_site(r, &e, false, None, None)
            }
            What::Proc(p, v) => {
                let which = self.rng.below(3);
                if which == 0 && self.has_conc(r) {
                    let t = format!("  {}(1);\n", self.r(p, "cpcall_name"));
                    self.body(r, t);
                    self.site_stats.push("cpcall_name".into());
                    return true;
                }
                let site = if which == 1 { "pcall_name_named" } else { "pcall_name" }.to_string();
                if self.regions[r].func {
                    // calling a procedure from a function is fine as long as it has no wait / signal assignment
                }
                let mk = move |g: &mut Gen, _pr: usize, _kv: usize| -> String {
                    match (which, v) {
                        (1, Some(v)) => format!("    {}({} => 1);\n", g.r(p, &site), g.r(v, "assoc_formal")),
                        _ => format!("    {}(1);\n", g.r(p, &site)),
                    }
                };
                self.seq_place(r, &mk);
                self.site_stats.push(if which == 1 { "pcall_name_named" } else { "pcall_name" }.into());
                true
            }
            What::Comp(c, g, p) => {
                if !self.has_conc(r) {
                    return false;
                }
                let l = self.label(r, "ci");
                let t = match self.rng.below(3) {
                    0 => format!("  {} : {};\n", self.d(l), self.r(c, "inst_component")),
                    1 => format!("  {} : component {} generic map ({} => 1) port map ({} => 2);\n", self.d(l), self.r(c, "inst_component"), self.r(g, "assoc_formal"), self.r(p, "assoc_formal")),
                    _ => format!("  {} : {} port map (3);\n", self.d(l), self.r(c, "inst_component")),
                };
                self.body(r, t);
                self.site_stats.push("inst_component".into());
                true
            }
            What::Attr(a) => {
                // attribute specification for a fresh constant, optionally also an attribute name
                let owner = self.owner_of(r);
                let el = self.elig_in(r);
                let ind = self.ind(r);
                let c = self.ent("dc", "obj", owner, None, el);
                let mut txt = format!("{}constant {} : integer := 1;\n{}attribute {} of {} : constant is 7;\n", ind, self.d(c), ind, self.r(a, "attr_spec_designator"), self.r(c, "attr_spec_entity"));
                self.site_stats.push("attr_spec_designator".into());
                if self.rng.chance(1, 2) {
                    let c2 = self.ent("dc", "obj", owner, None, el);
                    txt.push_str(&format!("{}constant {} : integer := {}'{};\n", ind, self.d(c2), self.r(c, "attr_name_prefix"), self.r(a, "attr_name_designator")));
                    self.site_stats.push("attr_name_designator".into());
                }
                self.decl(r, txt);
                true
            }
            What::ProtType(o, get) => {
                let e = move |g: &Gen, s: &str| format!("{}.{}", g.r(o, s), g.r(get, "method_call"));
                // method calls are impure: only in sequential statements of processes / procedures
                if self.regions[r].func {
                    return false;
                }
                let site = *self.rng.pick(&["vassign_value", "if_cond", "case_expr", "report_expr", "while_cond"]);
                self.int_site_seq(r, site, &e, false, None)
            }
            What::Oper(f, la, lb) => {
                // la - lb : reference at the operator symbol
                let e = move |g: &Gen, s: &str| format!("boolean'pos(({} {} {}) = {})", g.r(la, "enum_literal_value"), g.r(f, s).replace("\"", ""), g.r(lb, "enum_literal_value"), g.r(la, "enum_literal_value"));
                self.int_site(r, &e, false, None, None)
            }
            What::ResFunc(f) => {
                let owner = self.owner_of(r);
                let el = self.elig_in(r);
                let ind = self.ind(r);
                if self.rng.chance(2, 3) {
                    // resolution indication of a subtype indication (F19, fixed by 1936e4b): function name,
                    // array element resolution `(f) arr`, record element resolution `(elem f) rec`
                    let s = self.ent("rs", "type", owner, None, el);
                    let (site, txt) = match self.rng.below(3) {
                        0 => ("resolution_function", format!("{}subtype {} is {} integer;\n", ind, self.d(s), self.r(f, "resolution_function"))),
                        1 => {
                            let at = self.ent("rat", "type", owner, None, el);
                            (
                                "resolution_function_array_element",
                                format!(
                                    "{}type {} is array (0 to 3) of integer;\n{}subtype {} is ({}) {};\n",
                                    ind,
                                    self.d(at),
                                    ind,
                                    self.d(s),
                                    self.r(f, "resolution_function_array_element"),
                                    self.r(at, "subtype_def_mark")
                                ),
                            )
                        }
                        _ => {
                            let rt = self.ent("rrt", "type", owner, None, el);
                            let fe = self.ent("fe", "elem", Some(rt), None, false);
                            // the element name inside the resolution indication is a plain identifier (no reference)
                            (
                                "resolution_function_record_element",
                                format!(
                                    "{}type {} is record\n{}  {} : integer;\n{}end record;\n{}subtype {} is ({} {}) {};\n",
                                    ind,
                                    self.d(rt),
                                    ind,
                                    self.d(fe),
                                    ind,
                                    ind,
                                    self.d(s),
                                    self.raw(fe),
                                    self.r(f, "resolution_function_record_element"),
                                    self.r(rt, "subtype_def_mark")
                                ),
                            )
                        }
                    };
                    self.decl(r, txt);
                    self.site_stats.push(site.into());
                    true
                } else {
                    let e = move |g: &Gen, s: &str| format!("{}((1, 2))", g.r(f, s));
                    self.int_site(r, &e, false, None, None)
                }
            }
            What::PhysType(t, u0) => {
                let v = format!("1 {}", self.r(u0, "physical_literal_unit"));
                self.type_site(r, t, &v, "phys")
            }
            What::PhysUnit(u, t) => {
                let e = move |g: &Gen, s: &str| format!("{}'pos(3 {})", g.r(t, "attr_prefix_type"), g.r(u, s));
                self.int_site(r, &e, true, None, None)
            }
            What::Label(_) => false,
        }
    }

    fn alias_site(&mut self, r: usize, o: usize, oc: Oc) -> bool {
        let owner = self.owner_of(r);
        let el = self.elig_in(r);
        let a = self.ent("al", "other", owner, None, el);
        let txt = if self.rng.chance(1, 2) {
            format!("{}alias {} is {};\n", self.ind(r), self.d(a), self.r(o, "alias_name"))
        } else {
            format!("{}alias {} : integer is {};\n", self.ind(r), self.d(a), self.r(o, "alias_name"))
        };
        self.decl(r, txt);
        self.site_stats.push("alias_name".into());
        let stat = oc == Oc::Constant;
        let assignable = matches!(oc, Oc::Signal);
        self.target(What::IntObj(a, Oc::Alias(stat, assignable)), r);
        // the alias itself gets sites of its own in a second pass
        if self.rng.chance(1, 2) {
            let e = move |g: &Gen, s: &str| g.r(a, s);
            let _ = self.int_site(r, &e, stat, None, None);
        }
        true
    }

    fn attr_spec_site(&mut self, r: usize, o: usize, oc: Oc) -> bool {
        let owner = self.owner_of(r);
        let el = self.elig_in(r);
        let ind = self.ind(r);
        let a = self.ent("attr", "other", owner, None, el);
        let class = match oc {
            Oc::Constant => "constant",
            Oc::Signal => "signal",
            _ => "variable",
        };
        let txt = format!(
            "{}attribute {} : integer;\n{}attribute {} of {} : {} is 1;\n",
            ind,
            self.d(a),
            ind,
            self.r(a, "attr_spec_designator"),
            self.r(o, "attr_spec_entity"),
            class
        );
        self.decl(r, txt);
        self.site_stats.push("attr_spec_entity".into());
        true
    }

    fn attr_spec_subprogram(&mut self, r: usize, f: usize) -> bool {
        let owner = self.owner_of(r);
        let el = self.elig_in(r);
        let ind = self.ind(r);
        let a = self.ent("attr", "other", owner, None, el);
        let txt = format!(
            "{}attribute {} : integer;\n{}attribute {} of {} [integer return integer] : function is 1;\n",
            ind,
            self.d(a),
            ind,
            self.r(a, "attr_spec_designator"),
            self.r(f, "attr_spec_entity_signature")
        );
        self.decl(r, txt);
        self.site_stats.push("attr_spec_entity_signature".into());
        true
    }

    fn bit_site(&mut self, r: usize, o: usize, assignable: bool) -> bool {
        let pick = self.rng.below(9);
        match pick {
            0 if self.has_conc(r) => {
                // sensitivity list
                let l = self.label(r, "sp");
                let t = format!("  {} : process ({})\n  begin\n    null;\n  end process;\n", self.d(l), self.r(o, "sensitivity"));
                self.body(r, t);
                self.site_stats.push("sensitivity".into());
                true
            }
            1 if !self.regions[r].func => {
                let site = "wait_on".to_string();
                let mk = move |g: &mut Gen, _pr: usize, _kv: usize| -> String { format!("    wait on {};\n", g.r(o, &site)) };
                self.seq_place(r, &mk);
                self.site_stats.push("wait_on".into());
                true
            }
            2 => {
                let e = move |g: &Gen, s: &str| format!("boolean'pos({}'event)", g.r(o, s));
                self.int_site(r, &e, false, None, None)
            }
            3 if self.has_conc(r) => {
                // guard expression of a block
                let l = self.label(r, "bl");
                let t = format!("  {} : block ({} = '1')\n  begin\n  end block {};\n", self.d(l), self.r(o, "block_guard"), self.r(l, "endlabel"));
                self.body(r, t);
                self.site_stats.push("block_guard".into());
                true
            }
            4 if self.has_conc(r) => {
                // port map actual of a block with a bit port
                let l = self.label(r, "bl");
                let p = self.ent("bp", "iobj", Some(l), None, true);
                let t = format!("  {} : block\n    port ({} : in bit);\n    port map ({});\n  begin\n  end block;\n", self.d(l), self.d(p), self.r(o, "block_port_map"));
                self.body(r, t);
                self.site_stats.push("block_port_map".into());
                true
            }
            5 if self.has_conc(r) => {
                // selected assignment with a bit selector and character-literal choices
                let k = self.conc_sink(r);
                let t = format!("  with {} select {} <= 1 when '1', 2 when others;\n", self.r(o, "sel_expr"), self.r(k, "sink_target"));
                self.body(r, t);
                self.site_stats.push("sel_expr".into());
                true
            }
            6 if self.has_conc(r) && assignable => {
                let t = format!("  {} <= '1' after 1 ns, '0' after 2 ns;\n", self.r(o, "csa_target"));
                self.body(r, t);
                self.site_stats.push("csa_target".into());
                true
            }
            _ => {
                let e = move |g: &Gen, s: &str| format!("bit'pos({})", g.r(o, s));
                self.int_site(r, &e, false, None, None)
            }
        }
    }

    fn time_site(&mut self, r: usize, o: usize) -> bool {
        let pick = self.rng.below(6);
        match pick {
            0 if self.has_conc(r) => {
                let k = self.conc_sink(r);
                let t = format!("  {} <= 1 after {};\n", self.r(k, "sink_target"), self.r(o, "after_expr"));
                self.body(r, t);
                self.site_stats.push("after_expr".into());
                true
            }
            1 if self.has_conc(r) => {
                // reject time of the delay mechanism (F18, fixed by 1936e4b)
                let k = self.conc_sink(r);
                let t = format!("  {} <= reject {} inertial 1 after 5 ns;\n", self.r(k, "sink_target"), self.r(o, "delay_mechanism_reject"));
                self.body(r, t);
                self.site_stats.push("delay_mechanism_reject".into());
                true
            }
            2 if !self.regions[r].func => {
                let site = "wait_for".to_string();
                let mk = move |g: &mut Gen, _pr: usize, _kv: usize| -> String { format!("    wait for {};\n", g.r(o, &site)) };
                self.seq_place(r, &mk);
                self.site_stats.push("wait_for".into());
                true
            }
            3 => {
                // physical literal with the standard unit next to it: X * 2 / 1 ns
                let e = move |g: &Gen, s: &str| format!("({} / 1 ns)", g.r(o, s));
                self.int_site(r, &e, true, None, None)
            }
            _ => {
                let e = move |g: &Gen, s: &str| format!("time'pos({})", g.r(o, s));
                self.int_site(r, &e, true, None, None)
            }
        }
    }

    /// sites of a type mark; `val` is a value expression of the type; class: enum | record | array | int
    fn type_site(&mut self, r: usize, t: usize, val: &str, class: &str) -> bool {
        let owner = self.owner_of(r);
        let el = self.elig_in(r);
        let ind = self.ind(r);
        let rk = self.regions[r].kind;
        let pick = self.rng.below(16);
        let (site, txt): (&str, String) = match pick {
            0 if self.allows_signals(r) => {
                let s = self.ent("ts", "obj", owner, None, el);
                ("subtype_mark_signal", format!("{}signal {} : {};\n", ind, self.d(s), self.r(t, "subtype_mark_signal")))
            }
            1 if self.allows_variables(r) => {
                let s = self.ent("tv", "obj", owner, None, el);
                ("subtype_mark_variable", format!("{}variable {} : {};\n", ind, self.d(s), self.r(t, "subtype_mark_variable")))
            }
            2 => {
                let s = self.ent("tk", "obj", owner, None, el);
                ("subtype_mark_constant", format!("{}constant {} : {} := {};\n", ind, self.d(s), self.r(t, "subtype_mark_constant"), val))
            }
            3 => {
                let s = self.ent("tt", "type", owner, None, el);
                ("subtype_def_mark", format!("{}subtype {} is {};\n", ind, self.d(s), self.r(t, "subtype_def_mark")))
            }
            4 => {
                let s = self.ent("tt", "type", owner, None, el);
                ("array_elem_subtype", format!("{}type {} is array (0 to 1) of {};\n", ind, self.d(s), self.r(t, "array_elem_subtype")))
            }
            5 => {
                let s = self.ent("tt", "type", owner, None, el);
                let f = self.ent("f", "elem", Some(s), None, false);
                ("record_elem_subtype", format!("{}type {} is record\n{}  {} : {};\n{}end record;\n", ind, self.d(s), ind, self.d(f), self.r(t, "record_elem_subtype"), ind))
            }
            6 => {
                let s = self.ent("tt", "type", owner, None, el);
                ("access_subtype", format!("{}type {} is access {};\n", ind, self.d(s), self.r(t, "access_subtype")))
            }
            7 if rk != Rk::PkgHead => {
                let p = self.ent("tp", "over", owner, None, el);
                let v = self.ent("v", "iobj", Some(p), None, true);
                ("param_subtype", format!("{}procedure {} ({} : in {}) is\n{}begin\n{}end procedure;\n", ind, self.d(p), self.d(v), self.r(t, "param_subtype"), ind, ind))
            }
            8 if rk != Rk::PkgHead => {
                let p = self.ent("tf", "over", owner, None, el);
                ("return_type", format!("{}function {} return {} is\n{}begin\n{}  return {};\n{}end function;\n", ind, self.d(p), self.r(t, "return_type"), ind, ind, val, ind))
            }
            9 if matches!(rk, Rk::Arch | Rk::Block | Rk::Generate | Rk::PkgHead) => {
                let c = self.ent("tc", "comp", owner, None, el);
                let p = self.ent("cp", "iobj", Some(c), None, false);
                ("comp_port_subtype", format!("{}component {} is\n{}  port ({} : in {});\n{}end component;\n", ind, self.d(c), ind, self.d(p), self.r(t, "comp_port_subtype"), ind))
            }
            10 => {
                let s = self.ent("tk", "obj", owner, None, el);
                // qualified expression; the type of the constant is boolean so that only the qualified expression names t
                ("qualified_mark", format!("{}constant {} : boolean := {}'({}) = {}'({});\n", ind, self.d(s), self.r(t, "qualified_mark"), val, self.r(t, "qualified_mark"), val))
            }
            11 => {
                let a = self.ent("ta", "type", owner, None, el);
                ("alias_name_type", format!("{}alias {} is {};\n", ind, self.d(a), self.r(t, "alias_name_type")))
            }
            12 if class == "enum" || class == "int" => {
                let s = self.ent("tt", "type", owner, None, el);
                ("array_index_mark", format!("{}type {} is array ({}) of integer;\n", ind, self.d(s), self.r(t, "array_index_mark")))
            }
            13 if class == "enum" || class == "int" => {
                let s = self.ent("tt", "type", owner, None, el);
                ("array_index_subtype_definition", format!("{}type {} is array ({} range <>) of integer;\n", ind, self.d(s), self.r(t, "array_index_subtype_definition")))
            }
            14 if class == "enum" || class == "int" => {
                let s = self.ent("tk", "obj", owner, None, el);
                ("attr_prefix_type", format!("{}constant {} : integer := {}'pos({}'low);\n", ind, self.d(s), self.r(t, "attr_prefix_type"), self.r(t, "attr_prefix_type")))
            }
            15 if self.allows_variables(r) || rk != Rk::PkgHead => {
                // allocator with a subtype indication / file type of the type
                let s = self.ent("tt", "type", owner, None, el);
                ("file_type_mark", format!("{}type {} is file of {};\n", ind, self.d(s), self.r(t, "file_type_mark")))
            }
            _ => return false,
        };
        if class == "array" && matches!(site, "file_type_mark") {
            // file of a constrained array type is legal
        }
        if class == "record" && site == "qualified_mark" {
            // equality on records is predefined: fine
        }
        self.decl(r, txt);
        self.site_stats.push(site.into());
        true
    }

    fn file_type_site(&mut self, r: usize, t: usize) -> bool {
        let owner = self.owner_of(r);
        let el = self.elig_in(r);
        let ind = self.ind(r);
        let rk = self.regions[r].kind;
        match self.rng.below(3) {
            0 if rk != Rk::PkgHead => {
                let o = self.ent("fo", "other", owner, None, el);
                let txt = format!("{}file {} : {};\n", ind, self.d(o), self.r(t, "subtype_mark_file"));
                self.decl(r, txt);
                self.site_stats.push("subtype_mark_file".into());
                true
            }
            1 if rk != Rk::PkgHead => {
                // interface file declaration
                let p = self.ent("fp", "over", owner, None, el);
                let f = self.ent("f", "other", Some(p), None, true);
                let txt = format!("{}procedure {} (file {} : {}) is\n{}begin\n{}end procedure;\n", ind, self.d(p), self.d(f), self.r(t, "interface_file_subtype"), ind, ind);
                self.decl(r, txt);
                self.site_stats.push("interface_file_subtype".into());
                true
            }
            _ => {
                let a = self.ent("ta", "type", owner, None, el);
                let txt = format!("{}alias {} is {};\n", ind, self.d(a), self.r(t, "alias_name_type"));
                self.decl(r, txt);
                self.site_stats.push("alias_name_type".into());
                true
            }
        }
    }
}

// ------------------------------------------------------------------------------------------------
// unit groups
// ------------------------------------------------------------------------------------------------
fn gen_entity_group(g: &mut Gen) -> Vec<(String, String)> {
    let gid = g.gid;
    let e = g.named_ent(format!("e_g{}", gid), "design", None, None, false);
    let a = g.named_ent(format!("a_g{}", gid), "design", None, None, false);
    let er = g.region(Rk::Entity, e, false);
    let ar = g.region(Rk::Arch, a, false);
    // generics and ports of the entity: targets visible in the architecture
    let ngen = g.rng.below(3);
    let mut gens = vec![];
    for _ in 0..ngen {
        let x = g.ent("g", "iobj", Some(e), None, true);
        gens.push(x);
        g.target(What::IntObj(x, Oc::Generic), ar);
    }
    let nport = g.rng.below(4);
    let mut ports = vec![];
    for i in 0..nport {
        let x = g.ent("p", "iobj", Some(e), None, true);
        let (txt, what) = match g.rng.below(4) {
            0 => (format!("{} : in bit", g.d(x)), What::BitSig(x, false)),
            1 => (format!("{} : out integer", g.d(x)), What::IntObj(x, Oc::PortOut)),
            2 if !gens.is_empty() => {
                // a generic used in the subtype indication of a port
                let gn = gens[g.rng.below(gens.len())];
                g.site_stats.push("port_subtype_range".into());
                (format!("{} : in integer range 0 to {}", g.d(x), g.r(gn, "port_subtype_range")), What::IntObj(x, Oc::PortIn))
            }
            _ => (format!("{} : in integer", g.d(x)), What::IntObj(x, Oc::PortIn)),
        };
        let _ = i;
        ports.push(txt);
        g.target(what, ar);
    }
    let mut head = format!("entity {} is\n", g.d(e));
    if !gens.is_empty() {
        head.push_str(&format!("  generic ({});\n", gens.iter().map(|x| format!("{} : integer := 1", g.d(*x))).collect::<Vec<_>>().join("; ")));
    }
    if !ports.is_empty() {
        head.push_str(&format!("  port ({});\n", ports.join("; ")));
    }
    g.regions[er].head = head;
    let n = g.rng.below(3);
    g.declare_items(er, n);
    g.regions[er].mid = "begin\n".into();
    g.regions[er].tail = if g.rng.chance(1, 2) { format!("end entity {};\n", g.raw(e)) } else { "end entity;\n".into() };

    let mut flip_rng = g.rng.fork();
    for t in g.targets.iter_mut() {
        if t.region == er && flip_rng.chance(1, 2) {
            t.region = ar;
        }
    }
    g.regions[ar].head = format!("architecture {} of {} is\n", g.d(a), g.r(e, "architecture_entity_name"));
    g.regions[ar].mid = "begin\n".into();
    g.regions[ar].tail = if g.rng.chance(1, 2) { format!("end architecture {};\n", g.raw(a)) } else { "end architecture;\n".into() };
    // further architectures of the same entity: every declaration of the entity (ports, generics, items of the entity
    // declarative part) may be referenced from one / some / all / none of them -- the lint takes the union
    let n_entity_targets = g.targets.len();
    let n_extra = match gid % 4 {
        0 => 1,
        1 => 2,
        _ => 0,
    };
    let mut extra_archs = vec![];
    for k in 0..n_extra {
        let ax = g.named_ent(format!("a{}_g{}", k + 2, gid), "design", None, None, false);
        let rx = g.region(Rk::Arch, ax, false);
        g.regions[rx].head = format!("architecture {} of {} is\n", g.d(ax), g.r(e, "architecture_entity_name"));
        g.regions[rx].mid = "begin\n".into();
        g.regions[rx].tail = if g.rng.chance(1, 2) { format!("end architecture {};\n", g.raw(ax)) } else { "end architecture;\n".into() };
        for i in 0..n_entity_targets {
            let t = g.targets[i].clone();
            // only declarations made directly in the entity (header or declarative part) are visible in an architecture
            if t.region == er || t.region == ar {
                g.targets.push(Target { what: t.what, region: rx });
            }
        }
        let nloc = g.rng.below(3);
        g.declare_items(rx, nloc);
        extra_archs.push((ax, rx));
    }
    let n = 3 + g.rng.below(6);
    g.declare_items(ar, n);
    // processes with local declarations
    let np = g.rng.below(3);
    for _ in 0..np {
        let l = g.ent("pl", "conc", Some(a), None, false);
        let pr = g.region(Rk::Process, l, false);
        let kv = g.ent("kv", "obj", Some(l), None, true);
        g.regions[pr].sink = Some(kv);
        g.regions[pr].head = format!("  {} : process\n    variable {} : integer;\n", g.d(l), g.d(kv));
        g.regions[pr].mid = "  begin\n".into();
        g.regions[pr].tail = if g.rng.chance(1, 2) { format!("    wait;\n  end process {};\n", g.r(l, "endlabel")) } else { "    wait;\n  end process;\n".into() };
        let n = 1 + g.rng.below(4);
        g.declare_items(pr, n);
        g.regions[ar].body.push(Piece::C(pr));
    }
    // a block / a generate statement with local declarations
    if g.rng.chance(1, 2) {
        let l = g.ent("bk", "conc", Some(a), None, false);
        let br = g.region(Rk::Block, l, false);
        g.regions[br].head = format!("  {} : block\n", g.d(l));
        g.regions[br].mid = "  begin\n".into();
        g.regions[br].tail = "  end block;\n".into();
        let n = 1 + g.rng.below(3);
        g.declare_items(br, n);
        g.regions[ar].body.push(Piece::C(br));
    }
    if g.rng.chance(1, 2) {
        let l = g.ent("gn", "conc", Some(a), None, false);
        let gr = g.region(Rk::Generate, l, false);
        let j = g.ent("j", "loop", Some(l), None, false);
        g.regions[gr].head = format!("  {} : for {} in 0 to 1 generate\n", g.d(l), g.d(j));
        g.regions[gr].mid = "  begin\n".into();
        g.regions[gr].tail = format!("  end generate {};\n", g.r(l, "endlabel"));
        let n = 1 + g.rng.below(3);
        g.declare_items(gr, n);
        g.target(What::IntObj(j, Oc::LoopPar), gr);
        g.regions[ar].body.push(Piece::C(gr));
    }
    g.use_targets();
    let mut crng = g.rng.fork();
    let mut cstats = vec![];
    let etext = close_names(&g.render(er), &mut crng, &mut cstats);
    let atext = close_names(&g.render(ar), &mut crng, &mut cstats);
    let mut xtexts = vec![];
    for (_ax, rx) in &extra_archs {
        xtexts.push(close_names(&g.render(*rx), &mut crng, &mut cstats));
    }
    g.site_stats.extend(cstats);
    if g.split {
        let mut files = vec![(format!("g{}_e.vhd", gid), etext), (format!("g{}_a.vhd", gid), atext)];
        for (k, t) in xtexts.into_iter().enumerate() {
            files.push((format!("g{}_a{}.vhd", gid, k + 2), t));
        }
        if let Some((ax, _)) = extra_archs.last() {
            // replacement of the last architecture by one that references nothing (an edit touching one architecture only)
            let name = files.last().unwrap().0.clone();
            g.alt = Some((name, format!("architecture {} of {} is\nbegin\nend architecture;\n", g.d(*ax), g.r(e, "architecture_entity_name"))));
        }
        files
    } else {
        let mut all = format!("{}\n{}", etext, atext);
        for t in xtexts {
            all.push('\n');
            all.push_str(&t);
        }
        vec![(format!("g{}.vhd", gid), all)]
    }
}

fn gen_package_group(g: &mut Gen) -> Vec<(String, String)> {
    let gid = g.gid;
    let uninst = g.rng.chance(1, 3);
    let p = g.named_ent(format!("p_g{}", gid), if uninst { "upkg" } else { "pkg" }, None, None, false);
    let b = g.named_ent(format!("p_g{}", gid), "design", None, Some(p), false);
    let hr = g.region(Rk::PkgHead, p, false);
    let br = g.region(Rk::PkgBody, b, false);
    g.regions[hr].seq_host = Some(br);
    let mut head = format!("package {} is\n", g.d(p));
    if uninst {
        // generics of an uninstantiated package: interface objects and an interface subprogram are eligible
        let n = 1 + g.rng.below(3);
        let mut gl = vec![];
        for _ in 0..n {
            let x = g.ent("g", "iobj", Some(p), None, true);
            gl.push(format!("{} : integer := 1", g.d(x)));
            g.target(What::IntObj(x, Oc::Generic), br);
        }
        if g.rng.chance(1, 2) {
            let f = g.ent("gf", "isub", Some(p), None, true);
            // the parameter of an interface subprogram gets no search_decl event (and is ineligible): no marker
            gl.push(format!("function {} (xx : integer) return integer", g.d(f)));
            g.target(What::Func(f), br);
        }
        if g.rng.chance(1, 3) {
            // an interface type: package-header item (not an interface object / subprogram)
            let t = g.ent("gt", "type", Some(p), None, false);
            gl.push(format!("type {}", g.d(t)));
        }
        head.push_str(&format!("  generic ({});\n", gl.join("; ")));
    }
    g.regions[hr].head = head;
    g.regions[hr].tail = if g.rng.chance(1, 2) { format!("end package {};\n", g.raw(p)) } else { "end package;\n".into() };
    g.regions[br].head = format!("package body {} is\n", g.d(b));
    g.regions[br].tail = "end package body;\n".into();
    // header items (ineligible), some of them deferred constants
    let n = g.rng.below(4);
    g.declare_items(hr, n);
    if g.rng.chance(1, 2) {
        let dcn = g.ent("dk", "other", Some(p), None, false);
        let t = format!("  constant {} : integer;\n", g.d(dcn));
        g.decl(hr, t);
        let full = g.ent("dk", "obj", Some(b), Some(dcn), false);
        let t = format!("  constant {} : integer := 5;\n", g.d(full));
        g.decl(br, t);
        g.target(What::IntObj(full, Oc::Constant), br);
    }
    // header targets are referenced from the body: move them to the body region
    for t in g.targets.iter_mut() {
        if t.region == hr {
            t.region = br;
        }
    }
    let n = 3 + g.rng.below(6);
    g.declare_items(br, n);
    g.use_targets();
    let mut crng = g.rng.fork();
    let mut cstats = vec![];
    let htext = close_names(&g.render(hr), &mut crng, &mut cstats);
    let btext = close_names(&g.render(br), &mut crng, &mut cstats);
    g.site_stats.extend(cstats);
    if g.split {
        vec![(format!("g{}_p.vhd", gid), htext), (format!("g{}_b.vhd", gid), btext)]
    } else {
        vec![(format!("g{}.vhd", gid), format!("{}\n{}", htext, btext))]
    }
}

pub fn gen_group(seed: u64, gid: usize, is_entity: bool, split: bool) -> (Vec<Value>, Vec<String>, Option<Value>) {
    let mut g = Gen::new(seed, gid);
    g.split = split;
    let files = if is_entity { gen_entity_group(&mut g) } else { gen_package_group(&mut g) };
    let alt = g.alt.clone().map(|(n, t)| json!([n, t]));
    (files.into_iter().map(|(n, t)| json!([n, t])).collect(), g.site_stats.clone(), alt)
}
