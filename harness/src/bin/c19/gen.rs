//! Generator of C19 unit groups: design units whose local declarations are referenced or not *by construction*.
//!
//! Every occurrence of a generated name is printed through `Gen::d` (declaration, `@D..@` marker) or `Gen::r`
//! (reference, `@R..@` marker); the oracle of the check is computed from the markers only.
//! `elig` of a declaration is the generator's verdict from the property's list by *syntactic category*
//! (design unit, label, loop parameter, record element, enumeration literal, package-header item,
//! component port/generic, formal of a subprogram declaration; a body/full declaration inherits from its
//! declaration), independent of the analyser's entity kinds.
use serde_json::{json, Value};
use verif_harness::rng::Rng;

#[derive(Clone, Copy, PartialEq, Debug)]
enum Rk {
    Entity,
    Arch,
    Process,
    Subprog, // procedure body (may assign signals) or function body (`func` flag)
    Block,
    Generate,
    PkgHead,
    PkgBody,
    ProtBody,
}

enum Piece {
    T(String),
    C(usize),
}

struct Region {
    kind: Rk,
    owner: usize, // entity id that is the `parent` of the declarations made in this region
    func: bool,   // function body: no signal assignment, no wait
    head: String,
    decl: Vec<Piece>,
    mid: String,
    body: Vec<Piece>,
    tail: String,
    sink: Option<usize>,   // integer variable usable as assignment target in sequential code of this region
    seq_host: Option<usize>, // region whose declarative part receives wrapper procedures (PkgHead -> PkgBody)
}

#[derive(Clone)]
struct E {
    name: String,
    kind: &'static str,
    parent: Option<usize>,
    declby: Option<usize>,
    elig: bool,
}

#[derive(Clone, Copy, PartialEq, Debug)]
enum Oc {
    Constant,
    Signal,
    Variable,
    Generic,
    PortIn,
    PortOut,
    Param,    // constant-class parameter of mode in
    LoopPar,
    Alias(bool, bool), // (static, assignable)
}

#[derive(Clone, Debug)]
enum What {
    IntObj(usize, Oc),
    BitSig(usize, bool),
    TimeConst(usize),
    BoolConst(usize),
    EnumType(usize, usize, usize),  // type, literal a, literal b
    EnumObj(usize, usize, Oc),      // object, its type
    RecType(usize, usize),          // type, integer element
    RecObj(usize, usize, Oc),       // object, integer element
    ArrType(usize),                 // array (0 to 3) of integer
    ArrObj(usize, Oc),
    IntSubtype(usize),
    FileType(usize),
    FileObj(usize),
    AccType(usize),
    Func(usize),       // entity a call after the body resolves to (the body) : integer -> integer
    Proc(usize, Option<usize>), // procedure (v : in integer); formal `v` of the entity calls resolve to
    Comp(usize, usize, usize),  // component, generic cg, port cp (in integer)
    Attr(usize),
    ProtType(usize, usize),     // protected type (entity a type mark after the body resolves to), function method get
    Oper(usize, usize, usize),  // operator "-" on enum: function entity, literal a, literal b
    ResFunc(usize),
    Label(usize),
    PhysType(usize, usize),
    PhysUnit(usize, usize),
}

#[derive(Clone)]
struct Target {
    what: What,
    region: usize,
}

pub struct Gen {
    rng: Rng,
    gid: usize,
    ents: Vec<E>,
    regions: Vec<Region>,
    targets: Vec<Target>,
    arch_sinks: Vec<(usize, usize)>, // (region, integer signal) sinks for concurrent code
    pub site_stats: Vec<String>,
    split: bool,
    alt: Option<(String, String)>,
    nested_types: Vec<(usize, [usize; 4])>, // per region: word array, matrix, record with unconstrained element, its element
}

const INT_SITES_CONC: &[&str] = &[
    "csa_value", "csa_cond_cond", "csa_cond_value", "csa_cond_else", "sel_expr", "sel_value", "sel_choice", "cassert_cond",
    "cassert_report", "cpcall_actual", "call_arg", "generic_map_actual", "port_map_actual", "generate_range",
    "if_generate_cond", "case_generate_expr", "block_guard", "block_generic_map", "block_port_map", "aggregate_value",
    "aggregate_choice", "index", "slice_range", "qualified_operand", "conversion_operand", "unary_operand",
    "binary_operand", "paren_operand", "after_value", "csa_target", "if_generate_elsif_cond", "case_generate_choice", "generate_discrete_range",
];
const INT_SITES_SEQ: &[&str] = &[
    "vassign_value", "sassign_value", "if_cond", "elsif_cond", "case_expr", "case_choice", "loop_range", "while_cond",
    "exit_cond", "next_cond", "wait_until", "assert_cond", "report_expr", "severity_site", "return_expr", "pcall_actual",
    "assoc_named_actual", "vassign_target", "cond_vassign_cond", "sel_vassign_expr", "allocator_qualified",
    "loop_discrete_range_constraint", "call_arg_seq", "aggregate_seq", "attr_image_arg", "seq_cond_sassign", "seq_sel_sassign",
    "force_value", "sel_vassign_choice", "if_else_branch_value",
];
const INT_SITES_DECL: &[&str] = &[
    "default_value", "subtype_range", "subtype_index_constraint", "alias_name", "attr_spec_entity", "param_default",
    "array_index_range", "type_range", "subtype_decl_range", "signal_default", "variable_default", "comp_generic_default",
    "record_elem_constraint", "constraint_grammar", "constraint_grammar", "constraint_grammar",
];

impl Gen {
    fn new(seed: u64, gid: usize) -> Gen {
        Gen { rng: Rng::new(seed), gid, ents: vec![], regions: vec![], targets: vec![], arch_sinks: vec![], site_stats: vec![], split: false, alt: None, nested_types: vec![] }
    }
    fn ent(&mut self, prefix: &str, kind: &'static str, parent: Option<usize>, declby: Option<usize>, elig: bool) -> usize {
        let id = self.ents.len();
        let name = match declby {
            Some(o) if kind != "design" => self.ents[o].name.clone(),
            _ => format!("{}{}", prefix, id),
        };
        self.ents.push(E { name, kind, parent, declby, elig });
        id
    }
    fn named_ent(&mut self, name: String, kind: &'static str, parent: Option<usize>, declby: Option<usize>, elig: bool) -> usize {
        let id = self.ents.len();
        self.ents.push(E { name, kind, parent, declby, elig });
        id
    }
    fn d(&self, id: usize) -> String {
        let e = &self.ents[id];
        let o = |x: Option<usize>| x.map(|v| v.to_string()).unwrap_or_else(|| "-".to_string());
        format!("@D{}:{}:{}:{}:{}@{}", id, e.kind, o(e.parent), o(e.declby), if e.elig { 1 } else { 0 }, e.name)
    }
    fn r(&self, id: usize, site: &str) -> String {
        format!("@R{}:{}@{}", id, site, self.ents[id].name)
    }
    fn raw(&self, id: usize) -> String {
        self.ents[id].name.clone()
    }
    fn region(&mut self, kind: Rk, owner: usize, func: bool) -> usize {
        self.regions.push(Region {
            kind,
            owner,
            func,
            head: String::new(),
            decl: vec![],
            mid: String::new(),
            body: vec![],
            tail: String::new(),
            sink: None,
            seq_host: None,
        });
        self.regions.len() - 1
    }
    fn render(&self, r: usize) -> String {
        let reg = &self.regions[r];
        let mut s = reg.head.clone();
        for p in &reg.decl {
            match p {
                Piece::T(t) => s.push_str(t),
                Piece::C(c) => s.push_str(&self.render(*c)),
            }
        }
        s.push_str(&reg.mid);
        for p in &reg.body {
            match p {
                Piece::T(t) => s.push_str(t),
                Piece::C(c) => s.push_str(&self.render(*c)),
            }
        }
        s.push_str(&reg.tail);
        s
    }
    fn decl(&mut self, r: usize, t: String) {
        self.regions[r].decl.push(Piece::T(t));
    }
    fn body(&mut self, r: usize, t: String) {
        self.regions[r].body.push(Piece::T(t));
    }
    fn target(&mut self, what: What, region: usize) {
        self.targets.push(Target { what, region });
    }
    fn elig_in(&self, r: usize) -> bool {
        // declarations directly in a package declaration are package-header items
        self.regions[r].kind != Rk::PkgHead
    }
    fn allows_signals(&self, r: usize) -> bool {
        matches!(self.regions[r].kind, Rk::Entity | Rk::Arch | Rk::Block | Rk::Generate | Rk::PkgHead)
    }
    fn allows_variables(&self, r: usize) -> bool {
        matches!(self.regions[r].kind, Rk::Process | Rk::Subprog)
    }
    fn has_conc(&self, r: usize) -> bool {
        matches!(self.regions[r].kind, Rk::Arch | Rk::Block | Rk::Generate)
    }

    // --------------------------------------------------------------------------------------------
    // sequential / concurrent placement
    // --------------------------------------------------------------------------------------------
    /// an integer variable that sequential code placed for region `r` may assign; returns (host region for the
    /// statement, sink variable)
    fn seq_place(&mut self, r: usize, mk: &dyn Fn(&mut Gen, usize, usize) -> String) {
        let kind = self.regions[r].kind;
        match kind {
            Rk::Process | Rk::Subprog => {
                let sink = self.regions[r].sink.unwrap();
                let t = mk(self, r, sink);
                self.body(r, t);
            }
            Rk::Arch | Rk::Block | Rk::Generate | Rk::Entity => {
                // wrap in a process of its own (entity: passive process cannot assign signals: uses a variable)
                let owner = self.regions[r].owner;
                let labelled = self.rng.chance(1, 2);
                let lab = if labelled { Some(self.ent("wp", "conc", Some(owner), None, false)) } else { None };
                // the parent of the variable is the process label entity (anonymous when unlabelled: not compared)
                let pr = self.region(Rk::Process, lab.unwrap_or(usize::MAX), false);
                let v = self.ent("kv", "obj", lab, None, true);
                self.regions[pr].sink = Some(v);
                let head = match lab {
                    Some(l) => format!("  {} : process\n    variable {} : integer;\n", self.d(l), self.d(v)),
                    None => format!("  process\n    variable {} : integer;\n", self.d(v)),
                };
                self.regions[pr].head = head;
                self.regions[pr].mid = "  begin\n".to_string();
                let st = mk(self, pr, v);
                self.body(pr, st);
                self.regions[pr].tail = match lab {
                    Some(l) if self.rng.chance(1, 2) => format!("    wait;\n  end process {};\n", self.r(l, "endlabel")),
                    _ => "    wait;\n  end process;\n".to_string(),
                };
                self.regions[r].body.push(Piece::C(pr));
            }
            Rk::PkgHead | Rk::PkgBody | Rk::ProtBody => {
                // wrap in a helper procedure declared in the (package / protected) body
                let host = self.regions[r].seq_host.unwrap_or(r);
                let owner = self.regions[host].owner;
                let p = self.ent("up", "over", Some(owner), None, true);
                let pr = self.region(Rk::Subprog, p, false);
                let v = self.ent("kv", "obj", Some(p), None, true);
                self.regions[pr].sink = Some(v);
                self.regions[pr].head = format!("  procedure {} is\n    variable {} : integer;\n", self.d(p), self.d(v));
                self.regions[pr].mid = "  begin\n".to_string();
                let st = mk(self, pr, v);
                self.body(pr, st);
                self.regions[pr].tail = "  end procedure;\n".to_string();
                self.regions[host].decl.push(Piece::C(pr));
            }
        }
    }
    fn conc_sink(&mut self, r: usize) -> usize {
        for (reg, s) in &self.arch_sinks {
            if *reg == r {
                return *s;
            }
        }
        let owner = self.regions[r].owner;
        let s = self.ent("ks", "obj", Some(owner), None, true);
        let t = format!("  signal {} : integer;\n", self.d(s));
        self.decl(r, t);
        self.arch_sinks.push((r, s));
        s
    }

    // --------------------------------------------------------------------------------------------
    // helper declarations used by sites (each is a generated declaration with markers)
    // --------------------------------------------------------------------------------------------
    fn helper_func(&mut self, r: usize) -> usize {
        let owner = self.regions[r].owner;
        let el = self.elig_in(r);
        if self.regions[r].kind == Rk::PkgHead {
            // declaration in the header, body in the package body
            let host = self.regions[r].seq_host.unwrap();
            let bowner = self.regions[host].owner;
            let fd = self.ent("hf", "sdecl", Some(owner), None, false);
            let xd = self.ent("x", "iobj", Some(fd), None, false);
            let t = format!("  function {} ({} : integer) return integer;\n", self.d(fd), self.d(xd));
            self.decl(r, t);
            let fb = self.ent("hf", "over", Some(bowner), Some(fd), false);
            let xb = self.ent("x", "iobj", Some(fb), None, true);
            let t = format!(
                "  function {} ({} : integer) return integer is\n  begin\n    return {};\n  end function;\n",
                self.d(fb),
                self.d(xb),
                self.r(xb, "return_expr")
            );
            self.decl(host, t);
            return fd;
        }
        let f = self.ent("hf", "over", Some(owner), None, el);
        let x = self.ent("x", "iobj", Some(f), None, true);
        let t = format!(
            "  function {} ({} : integer) return integer is\n  begin\n    return {};\n  end function;\n",
            self.d(f),
            self.d(x),
            self.r(x, "return_expr")
        );
        self.decl(r, t);
        f
    }
    /// procedure (v : in integer); returns (procedure entity calls resolve to, formal v of that entity)
    fn helper_proc(&mut self, r: usize) -> (usize, usize) {
        let owner = self.regions[r].owner;
        if self.regions[r].kind == Rk::PkgHead {
            let host = self.regions[r].seq_host.unwrap();
            let bowner = self.regions[host].owner;
            let pd = self.ent("hp", "sdecl", Some(owner), None, false);
            let vd = self.ent("v", "iobj", Some(pd), None, false);
            let t = format!("  procedure {} ({} : in integer);\n", self.d(pd), self.d(vd));
            self.decl(r, t);
            let pb = self.ent("hp", "over", Some(bowner), Some(pd), false);
            let vb = self.ent("v", "iobj", Some(pb), None, true);
            let t = format!("  procedure {} ({} : in integer) is\n  begin\n  end procedure;\n", self.d(pb), self.d(vb));
            self.decl(host, t);
            return (pd, vd);
        }
        let p = self.ent("hp", "over", Some(owner), None, true);
        let v = self.ent("v", "iobj", Some(p), None, true);
        let t = format!("  procedure {} ({} : in integer) is\n  begin\n  end procedure;\n", self.d(p), self.d(v));
        self.decl(r, t);
        (p, v)
    }
    fn helper_arr_sig(&mut self, r: usize) -> (usize, usize) {
        // type + signal (or variable / constant) of it; returns (type, object)
        let owner = self.regions[r].owner;
        let el = self.elig_in(r);
        let t = self.ent("hat", "type", Some(owner), None, el);
        let o = self.ent("hao", "obj", Some(owner), None, el);
        let txt = if self.allows_signals(r) {
            format!("  type {} is array (0 to 3) of integer;\n  signal {} : {};\n", self.d(t), self.d(o), self.r(t, "subtype_mark_signal"))
        } else if self.allows_variables(r) {
            format!("  type {} is array (0 to 3) of integer;\n  variable {} : {};\n", self.d(t), self.d(o), self.r(t, "subtype_mark_variable"))
        } else {
            format!(
                "  type {} is array (0 to 3) of integer;\n  constant {} : {} := (others => 0);\n",
                self.d(t),
                self.d(o),
                self.r(t, "subtype_mark_constant")
            )
        };
        self.decl(r, txt);
        (t, o)
    }
    fn helper_comp(&mut self, r: usize) -> (usize, usize, usize) {
        let owner = self.regions[r].owner;
        let el = self.elig_in(r);
        let c = self.ent("hc", "comp", Some(owner), None, el);
        let g = self.ent("cg", "iobj", Some(c), None, false);
        let p = self.ent("cp", "iobj", Some(c), None, false);
        let t = format!(
            "  component {} is\n    generic ({} : integer := 0);\n    port ({} : in integer := 0);\n  end component;\n",
            self.d(c),
            self.d(g),
            self.d(p)
        );
        self.decl(r, t);
        (c, g, p)
    }
    fn label(&mut self, r: usize, prefix: &str) -> usize {
        let owner = self.regions[r].owner;
        let owner = if owner == usize::MAX { None } else { Some(owner) };
        self.ent(prefix, "conc", owner, None, false)
    }

    // --------------------------------------------------------------------------------------------
    // sites for an integer-valued expression `e` that contains the reference(s) under test
    // --------------------------------------------------------------------------------------------
    /// `e(site)` renders the expression with the site kind in its markers.
    /// stat: expression is static (constant / generic); assign: Some(f) renders it as an assignment target.
    fn int_site(&mut self, r: usize, e: &dyn Fn(&Gen, &str) -> String, stat: bool, sig_target: Option<&dyn Fn(&Gen, &str) -> String>, var_target: Option<&dyn Fn(&Gen, &str) -> String>) -> bool {
        // choose a context that the region supports
        let kind = self.regions[r].kind;
        let mut ctxs: Vec<u8> = vec![];
        if self.has_conc(r) {
            ctxs.push(0);
            ctxs.push(0);
        }
        ctxs.push(1);
        ctxs.push(1);
        ctxs.push(2);
        if stat && self.rng.chance(1, 8) {
            return self.attr_arg_site(r, e);
        }
        if stat && self.has_conc(r) && self.rng.chance(1, 3) {
            const STATIC_CONC: &[&str] = &[
                "sel_choice", "generic_map_actual", "generate_range", "if_generate_cond", "case_generate_expr", "block_generic_map",
                "aggregate_choice", "if_generate_elsif_cond", "case_generate_choice", "generate_discrete_range",
            ];
            let site = *self.rng.pick(STATIC_CONC);
            return self.int_site_conc(r, site, e, stat, sig_target);
        }
        let ctx = *self.rng.pick(&ctxs);
        match ctx {
            0 => {
                let site = *self.rng.pick(INT_SITES_CONC);
                self.int_site_conc(r, site, e, stat, sig_target)
            }
            1 => {
                let site = *self.rng.pick(INT_SITES_SEQ);
                self.int_site_seq(r, site, e, stat, var_target)
            }
            _ => {
                let site = *self.rng.pick(INT_SITES_DECL);
                let _ = kind;
                self.int_site_decl(r, site, e, stat)
            }
        }
    }

    fn int_site_conc(&mut self, r: usize, site: &str, e: &dyn Fn(&Gen, &str) -> String, stat: bool, sig_target: Option<&dyn Fn(&Gen, &str) -> String>) -> bool {
        let x = e(self, site);
        let k = self.conc_sink(r);
        let kw = self.r(k, "sink_target");
        let t = match site {
            "csa_value" => format!("  {} <= {};\n", kw, x),
            "csa_cond_cond" => format!("  {} <= 1 when {} > 0 else 2;\n", kw, x),
            "csa_cond_value" => format!("  {} <= {} when {} > 0 else 0;\n", kw, x, self.r(k, "sink_read")),
            "csa_cond_else" => format!("  {} <= 0 when {} > 0 else {};\n", kw, self.r(k, "sink_read"), x),
            "sel_expr" => format!("  with {} select {} <= 1 when 0, 2 when others;\n", x, kw),
            "sel_value" => format!("  with {} select {} <= {} when 0, 2 when others;\n", self.r(k, "sink_read"), kw, x),
            "sel_choice" => {
                if !stat {
                    return false;
                }
                format!("  with {} select {} <= 1 when {}, 2 when others;\n", self.r(k, "sink_read"), kw, x)
            }
            "cassert_cond" => format!("  assert {} > 0 report \"m\" severity note;\n", x),
            "cassert_report" => format!("  assert false report integer'image({}) severity note;\n", x),
            "cpcall_actual" => {
                let (p, _v) = self.helper_proc(r);
                format!("  {}({});\n", self.r(p, "helper_call"), x)
            }
            "call_arg" => {
                let f = self.helper_func(r);
                format!("  {} <= {}({});\n", kw, self.r(f, "helper_call"), x)
            }
            "generic_map_actual" => {
                if !stat {
                    return false;
                }
                let (c, g, _p) = self.helper_comp(r);
                let l = self.label(r, "ci");
                format!("  {} : {} generic map ({} => {});\n", self.d(l), self.r(c, "inst_component"), self.r(g, "assoc_formal"), x)
            }
            "port_map_actual" => {
                let (c, _g, p) = self.helper_comp(r);
                let l = self.label(r, "ci");
                if self.rng.chance(1, 2) {
                    format!("  {} : {} port map ({} => {});\n", self.d(l), self.r(c, "inst_component"), self.r(p, "assoc_formal"), x)
                } else {
                    format!("  {} : component {} port map ({});\n", self.d(l), self.r(c, "inst_component"), x)
                }
            }
            "generate_range" => {
                if !stat {
                    return false;
                }
                let l = self.label(r, "gl");
                let j = self.ent("j", "loop", Some(l), None, false);
                format!("  {} : for {} in 0 to {} generate\n  begin\n  end generate;\n", self.d(l), self.d(j), x)
            }
            "if_generate_cond" => {
                if !stat {
                    return false;
                }
                let l = self.label(r, "gl");
                format!("  {} : if {} > 0 generate\n  begin\n  end generate;\n", self.d(l), x)
            }
            "case_generate_expr" => {
                if !stat {
                    return false;
                }
                let l = self.label(r, "gl");
                format!("  {} : case {} generate\n    when 0 =>\n    when others =>\n  end generate;\n", self.d(l), x)
            }
            "block_guard" => {
                let l = self.label(r, "bl");
                format!("  {} : block ({} > 0)\n  begin\n  end block;\n", self.d(l), x)
            }
            "if_generate_elsif_cond" => {
                if !stat {
                    return false;
                }
                let l = self.label(r, "gl");
                format!("  {} : if false generate\n  elsif {} > 0 generate\n  else generate\n  end generate;\n", self.d(l), x)
            }
            "case_generate_choice" => {
                if !stat {
                    return false;
                }
                let l = self.label(r, "gl");
                format!("  {} : case 1 generate\n    when {} =>\n    when others =>\n  end generate;\n", self.d(l), x)
            }
            "generate_discrete_range" => {
                if !stat {
                    return false;
                }
                let l = self.label(r, "gl");
                let j = self.ent("j", "loop", Some(l), None, false);
                format!("  {} : for {} in integer range 0 to {} generate\n  end generate;\n", self.d(l), self.d(j), x)
            }
            "block_generic_map" => {
                if !stat {
                    return false;
                }
                let l = self.label(r, "bl");
                let g = self.ent("bg", "iobj", Some(l), None, true);
                format!(
                    "  {} : block\n    generic ({} : integer);\n    generic map ({});\n  begin\n  end block;\n",
                    self.d(l),
                    self.d(g),
                    x
                )
            }
            "block_port_map" => {
                let l = self.label(r, "bl");
                let p = self.ent("bp", "iobj", Some(l), None, true);
                format!(
                    "  {} : block\n    port ({} : in integer);\n    port map ({});\n  begin\n  end block;\n",
                    self.d(l),
                    self.d(p),
                    x
                )
            }
            "aggregate_value" => {
                let (_t, o) = self.helper_arr_sig(r);
                if !self.allows_signals(r) {
                    return false;
                }
                format!("  {} <= (0 => {}, others => 0);\n", self.r(o, "sink_target"), x)
            }
            "aggregate_choice" => {
                if !stat || !self.allows_signals(r) {
                    return false;
                }
                let (_t, o) = self.helper_arr_sig(r);
                if self.rng.chance(1, 2) {
                    format!("  {} <= ({} => 1, others => 0);\n", self.r(o, "sink_target"), x)
                } else {
                    format!("  {} <= (0 to {} => 1, others => 0);\n", self.r(o, "sink_target"), x)
                }
            }
            "index" => {
                if !self.allows_signals(r) {
                    return false;
                }
                let (_t, o) = self.helper_arr_sig(r);
                format!("  {} <= {}({});\n", kw, self.r(o, "indexed_prefix"), x)
            }
            "slice_range" => {
                if !self.allows_signals(r) {
                    return false;
                }
                let (_t, o) = self.helper_arr_sig(r);
                format!("  {}(0 to 1) <= {}({} to 3);\n", self.r(o, "sink_target"), self.r(o, "slice_prefix"), x)
            }
            "qualified_operand" => format!("  {} <= integer'({});\n", kw, x),
            "conversion_operand" => format!("  {} <= integer({});\n", kw, x),
            "unary_operand" => format!("  {} <= -{};\n", kw, x),
            "binary_operand" => {
                if self.rng.chance(1, 2) {
                    format!("  {} <= {} + 1;\n", kw, x)
                } else {
                    format!("  {} <= 1 + {};\n", kw, x)
                }
            }
            "paren_operand" => format!("  {} <= ({}) * 2;\n", kw, x),
            "after_value" => format!("  {} <= 0, {} after 1 ns;\n", kw, x),
            "csa_target" => match sig_target {
                Some(f) => format!("  {} <= 1;\n", f(self, site)),
                None => return false,
            },
            _ => return false,
        };
        self.body(r, t);
        self.site_stats.push(site.to_string());
        true
    }

    fn int_site_seq(&mut self, r: usize, site: &str, e: &dyn Fn(&Gen, &str) -> String, stat: bool, var_target: Option<&dyn Fn(&Gen, &str) -> String>) -> bool {
        if site == "case_choice" && !stat {
            return false;
        }
        if site == "vassign_target" && var_target.is_none() {
            return false;
        }
        let site_s = site.to_string();
        let func_region = self.regions[r].func;
        if func_region && matches!(site, "wait_until" | "sassign_value") {
            return false;
        }
        if site == "return_expr" && !func_region {
            return false;
        }
        let in_process_like = matches!(self.regions[r].kind, Rk::Process | Rk::Subprog);
        // helpers must be declared in a region that is visible: use the region itself when it is sequential,
        // otherwise the enclosing declarative region r
        let mut hp: Option<(usize, usize)> = None;
        let mut hf: Option<usize> = None;
        if matches!(site, "pcall_actual" | "assoc_named_actual") {
            hp = Some(self.helper_proc(r));
        }
        if site == "call_arg_seq" {
            hf = Some(self.helper_func(r));
        }
        let mut hacc: Option<(usize, usize)> = None;
        if site == "allocator_qualified" {
            if !in_process_like {
                return false;
            }
            let owner = self.regions[r].owner;
            let owner = if owner == usize::MAX { None } else { Some(owner) };
            let t = self.ent("hac", "type", owner, None, true);
            let v = self.ent("hav", "obj", owner, None, true);
            let txt = format!("    type {} is access integer;\n    variable {} : {};\n", self.d(t), self.d(v), self.r(t, "subtype_mark_variable"));
            self.decl(r, txt);
            hacc = Some((t, v));
        }
        let mut harr: Option<(usize, usize)> = None;
        if site == "aggregate_seq" {
            if !in_process_like {
                return false;
            }
            harr = Some(self.helper_arr_sig(r));
        }
        if site == "sel_vassign_choice" && !stat {
            return false;
        }
        if func_region && matches!(site, "seq_cond_sassign" | "seq_sel_sassign" | "force_value") {
            return false;
        }
        let sig_sink = if matches!(site, "sassign_value" | "seq_cond_sassign" | "seq_sel_sassign" | "force_value") {
            // needs a signal visible from r: only when r itself can declare signals
            if self.allows_signals(r) && self.regions[r].kind != Rk::Entity && self.regions[r].kind != Rk::PkgHead {
                Some(self.conc_sink(r))
            } else {
                return false;
            }
        } else {
            None
        };
        let stat2 = stat;
        let mk = move |g: &mut Gen, _pr: usize, kv: usize| -> String {
            let x = e(g, &site_s);
            let kw = g.r(kv, "sink_target");
            let kr = g.r(kv, "sink_read");
            match site_s.as_str() {
                "vassign_value" => format!("    {} := {};\n", kw, x),
                "sassign_value" => format!("    {} <= {};\n", g.r(sig_sink.unwrap(), "sink_target"), x),
                "if_cond" => {
                    if g.rng.chance(1, 3) {
                        let l = g.ent("il", "seq", None, None, false);
                        let endl = if g.rng.chance(1, 2) { format!(" {}", g.r(l, "endlabel")) } else { String::new() };
                        format!("    {} : if {} > 0 then\n      null;\n    end if{};\n", g.d(l), x, endl)
                    } else {
                        format!("    if {} > 0 then\n      null;\n    end if;\n", x)
                    }
                }
                "elsif_cond" => format!("    if {} > 0 then\n      null;\n    elsif {} > 1 then\n      null;\n    else\n      null;\n    end if;\n", kr, x),
                "case_expr" => {
                    if g.rng.chance(1, 3) {
                        let l = g.ent("cl", "seq", None, None, false);
                        let endl = if g.rng.chance(1, 2) { format!(" {}", g.r(l, "endlabel")) } else { String::new() };
                        format!("    {} : case {} is\n      when 0 => null;\n      when others => null;\n    end case{};\n", g.d(l), x, endl)
                    } else {
                        format!("    case {} is\n      when 0 => null;\n      when others => null;\n    end case;\n", x)
                    }
                }
                "case_choice" => {
                    let _ = stat2;
                    format!("    case {} is\n      when {} => null;\n      when others => null;\n    end case;\n", kr, x)
                }
                "loop_range" => {
                    let j = g.ent("j", "loop", None, None, false);
                    format!("    for {} in 0 to {} loop\n      null;\n    end loop;\n", g.d(j), x)
                }
                "loop_discrete_range_constraint" => {
                    let j = g.ent("j", "loop", None, None, false);
                    format!("    for {} in integer range 0 to {} loop\n      null;\n    end loop;\n", g.d(j), x)
                }
                "while_cond" => format!("    while {} > 100 loop\n      null;\n    end loop;\n", x),
                "exit_cond" => {
                    let l = g.ent("ll", "seq", None, None, false);
                    format!("    {} : loop\n      exit {} when {} > 0;\n    end loop {};\n", g.d(l), g.r(l, "exit_label"), x, g.r(l, "endlabel"))
                }
                "next_cond" => {
                    let l = g.ent("ll", "seq", None, None, false);
                    format!("    {} : loop\n      next {} when {} > 0;\n      exit;\n    end loop;\n", g.d(l), g.r(l, "next_label"), x)
                }
                "wait_until" => format!("    wait until {} > 0 for 1 ns;\n", x),
                "assert_cond" => format!("    assert {} > 0;\n", x),
                "report_expr" => format!("    report integer'image({});\n", x),
                "severity_site" => format!("    report \"m\" severity severity_level'val({});\n", x),
                "return_expr" => format!("    if {} > 5 then\n      return {};\n    end if;\n", kr, x),
                "pcall_actual" => format!("    {}({});\n", g.r(hp.unwrap().0, "helper_call"), x),
                "assoc_named_actual" => format!("    {}({} => {});\n", g.r(hp.unwrap().0, "helper_call"), g.r(hp.unwrap().1, "assoc_formal"), x),
                "vassign_target" => format!("    {} := 1;\n", (var_target.unwrap())(g, &site_s)),
                "cond_vassign_cond" => format!("    {} := 1 when {} > 0 else 2;\n", kw, x),
                "sel_vassign_expr" => format!("    with {} select {} := 1 when 0, 2 when others;\n", x, kw),
                "allocator_qualified" => format!("    {} := new integer'({});\n", g.r(hacc.unwrap().1, "sink_target"), x),
                "call_arg_seq" => format!("    {} := {}({});\n", kw, g.r(hf.unwrap(), "helper_call"), x),
                "aggregate_seq" => {
                    let o = harr.unwrap().1;
                    if g.allows_signals_ent_is_signal(o) {
                        format!("    {} <= (1 => {}, others => 0);\n", g.r(o, "sink_target"), x)
                    } else {
                        format!("    {} := (1 => {}, others => 0);\n", g.r(o, "sink_target"), x)
                    }
                }
                "attr_image_arg" => format!("    report integer'image({});\n", x),
                "seq_cond_sassign" => format!("    {} <= 1 when {} > 0 else 2;\n", g.r(sig_sink.unwrap(), "sink_target"), x),
                "seq_sel_sassign" => format!("    with {} select {} <= 1 when 0, 2 when others;\n", x, g.r(sig_sink.unwrap(), "sink_target")),
                "force_value" => format!("    {} <= force {};\n", g.r(sig_sink.unwrap(), "sink_target"), x),
                "sel_vassign_choice" => format!("    with {} select {} := 1 when {}, 2 when others;\n", kr, kw, x),
                "if_else_branch_value" => format!("    if {} > 0 then\n      null;\n    else\n      {} := {};\n    end if;\n", kr, kw, x),
                _ => unreachable!(),
            }
        };
        // loop parameters / labels created inside `mk` get their parent fixed afterwards (parent of a loop
        // parameter is the loop label or the enclosing process: the cross-check does not compare parents of
        // ineligible helper entities with parent None)
        self.seq_place(r, &mk);
        self.site_stats.push(site.to_string());
        true
    }
    fn allows_signals_ent_is_signal(&self, _o: usize) -> bool {
        false
    }

    /// argument of a predefined array attribute (F69, fixed by aa4b907): m'length(X), m'range(X), m'reverse_range(X), m'ascending(X)
    fn attr_arg_site(&mut self, r: usize, e: &dyn Fn(&Gen, &str) -> String) -> bool {
        let owner0 = self.regions[r].owner;
        let owner = if owner0 == usize::MAX { None } else { Some(owner0) };
        let el = self.elig_in(r);
        let ind = if matches!(self.regions[r].kind, Rk::Process | Rk::Subprog) { "    " } else { "  " };
        let mt = self.ent("m2t", "type", owner, None, el);
        let m = self.ent("m2", "obj", owner, None, el);
        let txt = format!(
            "{i}type {} is array (0 to 1, 0 to 2) of integer;\n{i}constant {} : {} := (others => (others => 0));\n",
            self.d(mt),
            self.d(m),
            self.r(mt, "subtype_mark_constant"),
            i = ind
        );
        self.decl(r, txt);
        let form = *self.rng.pick(&["length", "ascending", "range_loop", "reverse_range_loop", "range_aggregate_choice"]);
        let site = format!("attribute_argument_{}", form);
        let x = e(self, &site);
        let mr = self.r(m, "attr_prefix_object");
        match form {
            "range_loop" | "reverse_range_loop" | "range_slice" => {
                let attr = if form == "reverse_range_loop" { "reverse_range" } else { "range" };
                let slice = form == "range_slice";
                let hv = if slice {
                    let v = self.ent("hbv", "obj", owner, None, el);
                    let t = format!("{}constant {} : bit_vector(7 downto 0) := (others => '0');\n", ind, self.d(v));
                    self.decl(r, t);
                    Some(v)
                } else {
                    None
                };
                let mk = move |g: &mut Gen, _pr: usize, kv: usize| -> String {
                    if let Some(v) = hv {
                        format!("    {} := {}({}'{}({}))'length;\n", g.r(kv, "sink_target"), g.r(v, "slice_prefix"), mr, attr, x)
                    } else {
                        let j = g.ent("j", "loop", None, None, false);
                        format!("    for {} in {}'{}({}) loop\n      null;\n    end loop;\n", g.d(j), mr, attr, x)
                    }
                };
                self.seq_place(r, &mk);
            }
            _ => {
                let c = self.ent("ac", if form == "range_subtype_range" { "type" } else { "obj" }, owner, None, el);
                let t = match form {
                    "length" => format!("{}constant {} : integer := {}'length({});\n", ind, self.d(c), mr, x),
                    "ascending" => format!("{}constant {} : boolean := {}'ascending({});\n", ind, self.d(c), mr, x),
                    "range_subtype_index" => format!("{}constant {} : bit_vector({}'range({})) := (others => '0');\n", ind, self.d(c), mr, x),
                    "range_aggregate_choice" => format!("{}constant {} : bit_vector(0 to 7) := ({}'range({}) => '1', others => '0');\n", ind, self.d(c), mr, x),
                    _ => format!("{}subtype {} is integer range {}'range({});\n", ind, self.d(c), mr, x),
                };
                self.decl(r, t);
            }
        }
        self.site_stats.push(site);
        true
    }

    /// array-of-array types with unconstrained elements and a record with an unconstrained element (once per region)
    fn nested_types(&mut self, r: usize) -> [usize; 4] {
        for (reg, t) in &self.nested_types {
            if *reg == r {
                return *t;
            }
        }
        let owner0 = self.regions[r].owner;
        let owner = if owner0 == usize::MAX { None } else { Some(owner0) };
        let el = self.elig_in(r);
        let ind = if matches!(self.regions[r].kind, Rk::Process | Rk::Subprog) { "    " } else { "  " };
        let wa = self.ent("wa", "type", owner, None, el);
        let mt = self.ent("mt", "type", owner, None, el);
        let rc = self.ent("urc", "type", owner, None, el);
        let rf = self.ent("uf", "elem", Some(rc), None, false);
        let txt = format!(
            "{i}type {} is array (natural range <>) of bit_vector;\n{i}type {} is array (natural range <>) of {};\n{i}type {} is record\n{i}  {} : bit_vector;\n{i}end record;\n",
            self.d(wa),
            self.d(mt),
            self.r(wa, "array_elem_subtype"),
            self.d(rc),
            self.d(rf),
            i = ind
        );
        self.decl(r, txt);
        self.nested_types.push((r, [wa, mt, rc, rf]));
        [wa, mt, rc, rf]
    }

    /// one subtype indication form x one carrier; the expression under test sits inside the constraint
    fn constraint_site(&mut self, r: usize, e: &dyn Fn(&Gen, &str) -> String) -> bool {
        let owner0 = self.regions[r].owner;
        let owner = if owner0 == usize::MAX { None } else { Some(owner0) };
        let el = self.elig_in(r);
        let kind = self.regions[r].kind;
        let ind = if matches!(kind, Rk::Process | Rk::Subprog) { "    " } else { "  " };
        const FORMS: &[&str] = &[
            "index", "open_elem", "index_elem", "outer_index", "index_open_elem", "open_open_elem", "open_index_open", "record_elem",
            "range", "range_attr", "index_attr_range",
        ];
        let form = *self.rng.pick(FORMS);
        let mut carriers: Vec<&str> = vec!["subtype", "param", "array_elem", "record_elem", "access"];
        if self.allows_signals(r) {
            carriers.push("signal");
        }
        if self.allows_variables(r) {
            carriers.push("variable");
            carriers.push("allocator");
        }
        if matches!(kind, Rk::Arch | Rk::Block | Rk::Generate | Rk::PkgHead) {
            carriers.push("comp_port");
            carriers.push("comp_generic");
        }
        if form == "index" {
            carriers.push("alias_subtype");
        }
        let carrier = *self.rng.pick(&carriers);
        if kind == Rk::PkgHead && carrier == "param" {
            return false;
        }
        let site = format!("cstr_{}_in_{}", form, carrier);
        let [wa, mt, rc, rf] = self.nested_types(r);
        let x = e(self, &site);
        let m = "subtype_mark_constrained";
        let indication = match form {
            "index" => format!("bit_vector({} downto 0)", x),
            "open_elem" => format!("{}(open)({} downto 0)", self.r(wa, m), x),
            "index_elem" => format!("{}(0 to 1)({} downto 0)", self.r(wa, m), x),
            "outer_index" => format!("{}(0 to {})(7 downto 0)", self.r(wa, m), x),
            "index_open_elem" => format!("{}(0 to 1)(open)({} downto 0)", self.r(mt, m), x),
            "open_open_elem" => format!("{}(open)(open)({} downto 0)", self.r(mt, m), x),
            "open_index_open" => format!("{}(open)(0 to {})(open)", self.r(mt, m), x),
            "record_elem" => format!("{}({}({} downto 0))", self.r(rc, m), self.raw(rf), x),
            "range" => format!("integer range 0 to {}", x),
            "range_attr" => format!("integer range natural'low to {}", x),
            _ => format!("bit_vector({} downto natural'low)", x),
        };
        let txt = match carrier {
            "subtype" => {
                let t = self.ent("cs", "type", owner, None, el);
                format!("{}subtype {} is {};\n", ind, self.d(t), indication)
            }
            "signal" => {
                let o = self.ent("cso", "obj", owner, None, el);
                format!("{}signal {} : {};\n", ind, self.d(o), indication)
            }
            "variable" => {
                let o = self.ent("cso", "obj", owner, None, el);
                format!("{}variable {} : {};\n", ind, self.d(o), indication)
            }
            "param" => {
                let p = self.ent("csp", "over", owner, None, el);
                let v = self.ent("w", "iobj", Some(p), None, true);
                format!("{}procedure {} ({} : in {}) is\n{}begin\n{}end procedure;\n", ind, self.d(p), self.d(v), indication, ind, ind)
            }
            "comp_port" | "comp_generic" => {
                let c = self.ent("csc", "comp", owner, None, el);
                let p = self.ent("w", "iobj", Some(c), None, false);
                if carrier == "comp_port" {
                    format!("{}component {} is\n{}  port ({} : in {});\n{}end component;\n", ind, self.d(c), ind, self.d(p), indication, ind)
                } else {
                    format!("{}component {} is\n{}  generic ({} : {});\n{}end component;\n", ind, self.d(c), ind, self.d(p), indication, ind)
                }
            }
            "array_elem" => {
                let t = self.ent("cs", "type", owner, None, el);
                format!("{}type {} is array (0 to 1) of {};\n", ind, self.d(t), indication)
            }
            "record_elem" => {
                let t = self.ent("cs", "type", owner, None, el);
                let f = self.ent("g", "elem", Some(t), None, false);
                format!("{}type {} is record\n{}  {} : {};\n{}end record;\n", ind, self.d(t), ind, self.d(f), indication, ind)
            }
            "access" => {
                let t = self.ent("cs", "type", owner, None, el);
                format!("{}type {} is access {};\n", ind, self.d(t), indication)
            }
            "allocator" => {
                let t = self.ent("csa", "type", owner, None, el);
                let v = self.ent("csv", "obj", owner, None, el);
                let base = match form {
                    "index" | "index_attr_range" => "bit_vector".to_string(),
                    "range" | "range_attr" => "integer".to_string(),
                    "record_elem" => self.r(rc, "access_subtype"),
                    "open_elem" | "index_elem" | "outer_index" => self.r(wa, "access_subtype"),
                    _ => self.r(mt, "access_subtype"),
                };
                let decl = format!("{}type {} is access {};\n{}variable {} : {};\n", ind, self.d(t), base, ind, self.d(v), self.r(t, "subtype_mark_variable"));
                self.decl(r, decl);
                let st = format!("    {} := new {};\n", self.r(v, "sink_target"), indication);
                self.body(r, st);
                self.site_stats.push(site);
                return true;
            }
            _ => {
                // alias with a subtype indication
                let c = self.ent("csb", "obj", owner, None, el);
                let a = self.ent("csal", "other", owner, None, el);
                format!(
                    "{}constant {} : bit_vector(7 downto 0) := (others => '0');\n{}alias {} : {} is {};\n",
                    ind,
                    self.d(c),
                    ind,
                    self.d(a),
                    indication,
                    self.r(c, "alias_name")
                )
            }
        };
        self.decl(r, txt);
        self.site_stats.push(site);
        true
    }

    fn int_site_decl(&mut self, r: usize, site: &str, e: &dyn Fn(&Gen, &str) -> String, stat: bool) -> bool {
        if site == "constraint_grammar" {
            return self.constraint_site(r, e);
        }
        let owner0 = self.regions[r].owner;
        let owner = if owner0 == usize::MAX { None } else { Some(owner0) };
        let el = self.elig_in(r);
        let kind = self.regions[r].kind;
        if kind == Rk::Entity && matches!(site, "variable_default") {
            return false;
        }
        let x = e(self, site);
        let ind = if matches!(kind, Rk::Process | Rk::Subprog) { "    " } else { "  " };
        let t = match site {
            "default_value" => {
                let c = self.ent("dc", "obj", owner, None, el);
                format!("{}constant {} : integer := {};\n", ind, self.d(c), x)
            }
            "subtype_range" => {
                let c = self.ent("dc", "obj", owner, None, el);
                format!("{}constant {} : integer range 0 to {} := 0;\n", ind, self.d(c), x)
            }
            "subtype_index_constraint" => {
                let c = self.ent("dc", "obj", owner, None, el);
                format!("{}constant {} : bit_vector({} downto 0) := (others => '0');\n", ind, self.d(c), x)
            }
            "alias_name" => return false, // handled by the dedicated alias sites (needs a name, not an expression)
            "attr_spec_entity" => return false,
            "param_default" => {
                if kind == Rk::PkgHead {
                    return false;
                }
                let p = self.ent("dp", "over", owner, None, el);
                let v = self.ent("v", "iobj", Some(p), None, true);
                format!("{}procedure {} ({} : in integer := {}) is\n{}begin\n{}end procedure;\n", ind, self.d(p), self.d(v), x, ind, ind)
            }
            "array_index_range" => {
                if !stat {
                    return false;
                }
                let t = self.ent("dt", "type", owner, None, el);
                format!("{}type {} is array (0 to {}) of integer;\n", ind, self.d(t), x)
            }
            "type_range" => {
                if !stat {
                    return false;
                }
                let t = self.ent("dt", "type", owner, None, el);
                format!("{}type {} is range 0 to {};\n", ind, self.d(t), x)
            }
            "subtype_decl_range" => {
                let t = self.ent("dt", "type", owner, None, el);
                format!("{}subtype {} is integer range 0 to {};\n", ind, self.d(t), x)
            }
            "signal_default" => {
                if !self.allows_signals(r) {
                    return false;
                }
                let s = self.ent("ds", "obj", owner, None, el);
                format!("{}signal {} : integer := {};\n", ind, self.d(s), x)
            }
            "variable_default" => {
                if !self.allows_variables(r) {
                    return false;
                }
                let s = self.ent("dv", "obj", owner, None, el);
                format!("{}variable {} : integer := {};\n", ind, self.d(s), x)
            }
            "comp_generic_default" => {
                if matches!(kind, Rk::Process | Rk::Subprog | Rk::PkgBody | Rk::ProtBody) && kind != Rk::PkgBody {
                    return false;
                }
                if kind == Rk::PkgBody || kind == Rk::Entity {
                    return false;
                }
                let c = self.ent("dcm", "comp", owner, None, el);
                let g = self.ent("cg", "iobj", Some(c), None, false);
                format!("{}component {} is\n{}  generic ({} : integer := {});\n{}end component;\n", ind, self.d(c), ind, self.d(g), x, ind)
            }
            "record_elem_constraint" => {
                let t = self.ent("dr", "type", owner, None, el);
                let f = self.ent("f", "elem", Some(t), None, false);
                format!("{}type {} is record\n{}  {} : bit_vector({} downto 0);\n{}end record;\n", ind, self.d(t), ind, self.d(f), x, ind)
            }
            _ => return false,
        };
        self.decl(r, t);
        self.site_stats.push(site.to_string());
        true
    }
}


/// Post-pass over the rendered text: every construct that may repeat its name after `end ...`
/// (`end record [name]`, `end protected [body] [name]`, `end units [name]`, `end component [name]`,
/// `end function|procedure [designator]`, `end package body [name]`) gets the closing name at random.
/// A closing name is NOT a reference: it is printed without a marker.
fn strip_marks(line: &str) -> String {
    let mut out = String::new();
    let mut inside = false;
    for c in line.chars() {
        if c == '@' {
            inside = !inside;
            continue;
        }
        if !inside {
            out.push(c);
        }
    }
    out
}
pub fn close_names(text: &str, rng: &mut Rng, stats: &mut Vec<String>) -> String {
    let mut stack: Vec<(&'static str, String)> = vec![];
    let mut out = String::with_capacity(text.len() + 256);
    for line in text.split_inclusive('\n') {
        let clean = strip_marks(line);
        let t = clean.trim();
        let words: Vec<&str> = t.split_whitespace().collect();
        let mut line_out = line.to_string();
        // one-line physical type: `type N is range .. units a; b = 10 a; end units;`
        if t.starts_with("type ") && t.contains(" units ") && t.ends_with("end units;") {
            if rng.chance(1, 2) {
                line_out = line.replacen("end units;", &format!("end units {};", words[1]), 1);
                stats.push("closing_name_units".into());
            }
            out.push_str(&line_out);
            continue;
        }
        if t.starts_with("type ") && t.ends_with(" is record") {
            stack.push(("record", words[1].to_string()));
        } else if t.starts_with("type ") && t.ends_with(" is protected body") {
            stack.push(("protected body", words[1].to_string()));
        } else if t.starts_with("type ") && t.ends_with(" is protected") {
            stack.push(("protected", words[1].to_string()));
        } else if t.starts_with("component ") && t.ends_with(" is") {
            stack.push(("component", words[1].to_string()));
        } else if t.starts_with("package body ") && t.ends_with(" is") {
            stack.push(("package body", words[2].to_string()));
        } else if (t.starts_with("function ") || t.starts_with("impure function ") || t.starts_with("procedure ")) && t.ends_with(" is") {
            let k = if t.starts_with("procedure ") { "procedure" } else { "function" };
            let idx = if t.starts_with("impure ") { 2 } else { 1 };
            let mut name = words[idx].to_string();
            if let Some(p) = name.find('(') {
                name.truncate(p);
            }
            stack.push((k, name));
        } else if t.starts_with("end ") {
            for k in ["record", "protected body", "protected", "component", "package body", "function", "procedure"] {
                let bare = format!("end {};", k);
                let with_name = format!("end {} ", k);
                if t == bare || t.starts_with(&with_name) {
                    // `end protected body` also starts with `end protected `: the longer keyword is tried first
                    let top = stack.pop();
                    if let Some((tk, name)) = top {
                        if tk == k && t == bare && rng.chance(1, 2) {
                            line_out = line.replacen(&bare, &format!("end {} {};", k, name), 1);
                            stats.push(format!("closing_name_{}", k.replace(' ', "_")));
                        }
                    }
                    break;
                }
            }
        }
        out.push_str(&line_out);
    }
    out
}

include!("gen_units.rs");

pub fn gen_project(seed: u64, pi: usize, gpp: usize) -> Value {
    let mut r0 = Rng::new(seed);
    r0.next();
    let mut rng = Rng(r0.next() ^ (pi as u64 + 1).wrapping_mul(0xD6E8_FEB8_6659_FD93));
    rng.next();
    let mut groups = vec![];
    for gi in 0..gpp {
        let gid = pi * 1000 + gi;
        let gseed = rng.next();
        let lib = if rng.chance(1, 4) { "tp" } else { "lib" };
        let is_entity = rng.chance(3, 5);
        let split = rng.chance(1, 3);
        let (files, stats, alt) = gen_group(gseed, gid, is_entity, split);
        let edit = if rng.chance(1, 6) {
            let mut e = gen_group(rng.next(), gid, is_entity, split).0;
            // sometimes the file of the secondary unit is emptied instead (shape of finding F3)
            let deferred = files[0][1].as_str().map(|t| t.contains("@dk")).unwrap_or(false);
            if let (Some(a), true) = (&alt, rng.chance(2, 3)) {
                // only one of several architectures changes: it no longer references anything of the entity
                e = vec![a.clone()];
            } else if split && !deferred && rng.chance(1, 2) {
                let name = files[1][0].clone();
                e = vec![json!([name, ""])];
            }
            Some(e)
        } else {
            None
        };
        // same-named units in a second ordinary library (different files): the linter cache is keyed by
        // (library, primary name); exactly one of the two is edited afterwards
        let twin = lib == "lib" && rng.chance(1, 5);
        let mut edit = edit;
        let mut twin_group = None;
        if twin {
            let rename = |fs: Vec<Value>| -> Vec<Value> {
                fs.into_iter().map(|f| json!([format!("tw{}", &f[0].as_str().unwrap()[1..]), f[1]])).collect()
            };
            let (tfiles, _, _) = gen_group(rng.next(), gid, is_entity, split);
            let edit_original = rng.chance(1, 2);
            let mut tedit = None;
            if edit_original {
                if edit.is_none() {
                    edit = Some(gen_group(rng.next(), gid, is_entity, split).0);
                }
            } else {
                edit = None;
                tedit = Some(rename(gen_group(rng.next(), gid, is_entity, split).0));
            }
            twin_group = Some(json!({"gid": gid, "lib": "lib2", "twin": true, "files": rename(tfiles), "edit": tedit, "sites": []}));
        }
        let with_cfg = is_entity && edit.is_none() && rng.chance(1, 5);
        groups.push(json!({"gid": gid, "lib": lib, "seed": gseed.to_string(), "files": files, "edit": edit, "sites": stats}));
        if with_cfg {
            let cg = gid + 500;
            let txt = format!(
                "configuration @D0:design:-:-:0@cfg_g{} of e_g{} is\n  for a_g{}\n  end for;\nend configuration;\n",
                gid, gid, gid
            );
            groups.push(json!({"gid": cg, "lib": lib, "files": [[format!("g{}_cfg.vhd", gid), txt]], "edit": null, "sites": []}));
        }
        if let Some(t) = twin_group {
            groups.push(t);
        }
    }
    // configured library names vary in letter case and contain digits / underscores (every fourth project keeps the plain ones)
    let pools: [&[&str]; 3] = [
        &["lib", "MyLib", "UTIL_LIB", "Lib_1", "cOre9"],
        &["tp", "ThirdParty", "TP_LIB", "vendor_2X", "Ieee_Like"],
        &["lib2", "Lib2", "SECOND_lib", "other_Lib_3", "L"],
    ];
    let mut pj = json!({"id": format!("p{}", pi), "groups": groups, "flip": pi % 3 == 0, "layered": pi % 2 == 1});
    if pi % 4 != 3 {
        pj["libnames"] = json!({"lib": *rng.pick(pools[0]), "tp": *rng.pick(pools[1]), "lib2": *rng.pick(pools[2])});
    }
    pj
}
