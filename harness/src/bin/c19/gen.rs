use serde_json::{json, Value};
pub fn gen_project(_seed: u64, pi: usize, _gpp: usize) -> Value {
    json!({"id": format!("p{}", pi), "groups": [], "flip": false})
}
