//! C16 harness: the inputs of the semantic-token and document-symbol encoders, taken from
//! `vhdl_lang::Project` on the same workspace the `vhdl_ls` binary is serving.
//!
//! usage: c16 <script.json> <out.json>
//!   script: {"root": dir holding vhdl_ls.toml,
//!            "dump_text": bool  -- also report the text the Project holds for every queried file ("lines")
//!            "steps": [ {"disk": [{"path": abs, "hex": bytes} | {"path": abs, "delete": true}],  -- written first
//!                        "reload": bool   -- re-read the configuration and `Project::update_config` (what the server's
//!                                            reload_project does on a config change / file create, rename, delete)
//!                        "edit": null | {"file": abs path, "text": new full text},
//!                        "files": [abs path, ...]} ]}
//!   out:    {"steps": [ {"files": [ {"file", "present",
//!                "raw": [[l,c,el,ec,ty,mo], ...]   -- `find_all_entity_references` in collection order;
//!                                                      ty/mo = transcription of `classify` (-1: None)
//!                "foreign": n                       -- collected positions whose source is another file
//!                "units": [ {"root": ent, "symbols": [ent, ...]} ]   -- `Project::document_symbols` of the
//!                      first library of the file, preorder; ent = [id, parent_in_same_source id | -1,
//!                      first token range (4), last token range (4), has decl_pos, decl_pos range (4)]
//!                "panic": message } ] } ] }
//!
//! The project is built like the server builds it: bundled libraries (`-l /repo/vhdl_libraries`) plus
//! `<root>/vhdl_ls.toml`; an edit is `source.change(None, text); update_source; analyse` exactly as
//! `textDocument/didOpen` / full-text `didChange` do.
use serde_json::{json, Value};
use std::panic::{catch_unwind, AssertUnwindSafe};
use std::path::Path;
use vhdl_lang::ast::{Designator, ExternalObjectClass};
use vhdl_lang::{
    AnyEntKind, Concurrent, Config, EntHierarchy, EntRef, NullMessages, Object, Overloaded, Project,
    Range, Source, Token, Type,
};

// ---- transcription of vhdl_ls/src/vhdl_server/semantic_tokens.rs `classify` (token type, modifiers) ----
const VARIABLE: i64 = 0;
const PARAMETER: i64 = 1;
const PROPERTY: i64 = 2;
const ENUM_MEMBER: i64 = 3;
const FUNCTION: i64 = 4;
const TYPE: i64 = 5;
const CLASS: i64 = 6;
const NAMESPACE: i64 = 7;
const STRUCT: i64 = 8;
const ENUM: i64 = 9;
const OPERATOR: i64 = 10;
const MOD_READONLY: i64 = 1;

fn object_token(obj: &Object) -> (i64, i64) {
    if obj.is_param() {
        return (PARAMETER, 0);
    }
    if obj.is_generic() || obj.is_constant() {
        return (VARIABLE, MOD_READONLY);
    }
    (VARIABLE, 0)
}

fn overloaded_token(designator: &Designator, o: &Overloaded) -> (i64, i64) {
    match o {
        Overloaded::EnumLiteral(_) => (ENUM_MEMBER, 0),
        Overloaded::Alias(inner) => overloaded_token(designator, inner.kind()),
        _ if matches!(designator, Designator::OperatorSymbol(_)) => (OPERATOR, 0),
        _ => (FUNCTION, 0),
    }
}

fn type_token(t: &Type) -> (i64, i64) {
    match t {
        Type::Enum(_) => (ENUM, 0),
        Type::Record(_) => (STRUCT, 0),
        Type::Protected(..) => (CLASS, 0),
        Type::Subtype(sub) => type_token(sub.type_mark().kind()),
        Type::Alias(t) => type_token(t.kind()),
        _ => (TYPE, 0),
    }
}

fn classify(ent: EntRef<'_>) -> Option<(i64, i64)> {
    let result = match ent.kind() {
        AnyEntKind::Object(obj) => object_token(obj),
        AnyEntKind::DeferredConstant(_) | AnyEntKind::LoopParameter(_) | AnyEntKind::PhysicalLiteral(_) => {
            (VARIABLE, MOD_READONLY)
        }
        AnyEntKind::Overloaded(o) => overloaded_token(ent.designator(), o),
        AnyEntKind::Type(t) => type_token(t),
        AnyEntKind::Component(_) => (CLASS, 0),
        AnyEntKind::Attribute(_) | AnyEntKind::ElementDeclaration(_) => (PROPERTY, 0),
        AnyEntKind::Library | AnyEntKind::Design(_) => (NAMESPACE, 0),
        AnyEntKind::View(_) => (TYPE, 0),
        AnyEntKind::File(_) | AnyEntKind::InterfaceFile(_) => (VARIABLE, 0),
        AnyEntKind::ObjectAlias { base_object, .. } => object_token(base_object.object()),
        AnyEntKind::ExternalAlias { class, .. } => match class {
            ExternalObjectClass::Constant => (VARIABLE, MOD_READONLY),
            _ => (VARIABLE, 0),
        },
        AnyEntKind::Concurrent(Some(Concurrent::Instance), _) => (CLASS, 0),
        AnyEntKind::Concurrent(..) | AnyEntKind::Sequential(..) => (NAMESPACE, 0),
    };
    Some(result)
}

fn r4(r: &Range) -> [i64; 4] {
    [r.start.line as i64, r.start.character as i64, r.end.line as i64, r.end.character as i64]
}

fn ent_row(ent: EntRef<'_>, ctx: &Vec<Token>) -> Value {
    let first = ent.src_span.start_token.pos(ctx).range;
    let last = ent.src_span.end_token.pos(ctx).range;
    let mut row: Vec<i64> = vec![
        ent.id().to_raw() as i64,
        ent.parent_in_same_source().map(|p| p.id().to_raw() as i64).unwrap_or(-1),
    ];
    row.extend_from_slice(&r4(&first));
    row.extend_from_slice(&r4(&last));
    match ent.decl_pos() {
        Some(p) => {
            row.push(1);
            row.extend_from_slice(&r4(&p.range));
        }
        None => row.extend_from_slice(&[0, 0, 0, 0, 0]),
    }
    json!(row)
}

fn preorder(h: &EntHierarchy<'_>, ctx: &Vec<Token>, out: &mut Vec<Value>) {
    out.push(ent_row(h.ent, ctx));
    for c in h.children.iter() {
        preorder(c, ctx, out);
    }
}

fn query(project: &Project, file: &str) -> Value {
    let Some(source) = project.get_source(Path::new(file)) else {
        return json!({"file": file, "present": false});
    };
    let res = catch_unwind(AssertUnwindSafe(|| {
        let raw_tokens = project.find_all_entity_references(&source);
        let mut foreign = 0usize;
        let mut raw: Vec<Value> = Vec::with_capacity(raw_tokens.len());
        for (pos, ent) in raw_tokens.iter() {
            if pos.source != source {
                foreign += 1;
            }
            let r = r4(&pos.range);
            let (ty, mo) = classify(ent).unwrap_or((-1, 0));
            raw.push(json!([r[0], r[1], r[2], r[3], ty, mo]));
        }
        let mut units: Vec<Value> = Vec::new();
        if let Some(library_name) = project.library_mapping_of(&source).into_iter().next() {
            for (hierarchy, ctx) in project.document_symbols(&library_name, &source) {
                let mut flat = Vec::new();
                preorder(&hierarchy, ctx, &mut flat);
                let root = flat.remove(0);
                units.push(json!({"root": root, "symbols": flat}));
            }
        }
        json!({"file": file, "present": true, "raw": raw, "foreign": foreign, "units": units})
    }));
    match res {
        Ok(v) => v,
        Err(e) => {
            let msg = e
                .downcast_ref::<String>()
                .cloned()
                .or_else(|| e.downcast_ref::<&str>().map(|s| s.to_string()))
                .unwrap_or_else(|| "panic".to_string());
            json!({"file": file, "present": true, "panic": msg})
        }
    }
}

fn load_config(root: &str) -> Config {
    let mut msgs = NullMessages;
    let mut cfg = Config::default();
    cfg.load_external_config(&mut msgs, Some("/repo/vhdl_libraries".to_string()));
    let toml = Path::new(root).join("vhdl_ls.toml");
    match Config::read_file_path(&toml) {
        Ok(c2) => cfg.append(&c2, &mut msgs),
        Err(e) => {
            // like the server: a missing / unreadable configuration is an empty one
            eprintln!("cannot read {}: {}", toml.display(), e);
        }
    }
    cfg
}

fn unhex(s: &str) -> Vec<u8> {
    (0..s.len() / 2).map(|i| u8::from_str_radix(&s[2 * i..2 * i + 2], 16).unwrap()).collect()
}

fn main() {
    let args: Vec<String> = std::env::args().collect();
    if args.len() < 3 {
        eprintln!("usage: c16 <script.json> <out.json>");
        std::process::exit(2);
    }
    let script: Value = serde_json::from_str(&std::fs::read_to_string(&args[1]).expect("script")).expect("json");
    let root = script["root"].as_str().expect("root").to_string();
    std::panic::set_hook(Box::new(|_| {}));

    let mut msgs = NullMessages;
    let dump_text = script.get("dump_text").and_then(|v| v.as_bool()).unwrap_or(false);
    let mut project = Project::from_config(load_config(&root), &mut msgs);
    project.analyse();

    let mut steps_out: Vec<Value> = Vec::new();
    for step in script["steps"].as_array().expect("steps") {
        if let Some(disk) = step.get("disk").and_then(|d| d.as_array()) {
            for item in disk {
                let path = item["path"].as_str().expect("disk.path");
                if item.get("delete").and_then(|v| v.as_bool()).unwrap_or(false) {
                    let _ = std::fs::remove_file(path);
                } else {
                    if let Some(parent) = Path::new(path).parent() {
                        let _ = std::fs::create_dir_all(parent);
                    }
                    std::fs::write(path, unhex(item["hex"].as_str().expect("disk.hex"))).expect("write disk file");
                }
            }
        }
        if step.get("reload").and_then(|v| v.as_bool()).unwrap_or(false) {
            let r = catch_unwind(AssertUnwindSafe(|| {
                project.update_config(load_config(&root), &mut NullMessages);
                project.analyse();
            }));
            if r.is_err() {
                steps_out.push(json!({"analysis_panic": true, "files": []}));
                break;
            }
        }
        if let Some(edit) = step.get("edit").filter(|e| !e.is_null()) {
            let file = edit["file"].as_str().expect("edit.file");
            let text = edit["text"].as_str().expect("edit.text");
            // a panic of the parser / analyser is outside C16 (C02/C03): recorded, the session ends here
            let r = catch_unwind(AssertUnwindSafe(|| {
                if let Some(source) = project.get_source(Path::new(file)) {
                    source.change(None, text);
                    project.update_source(&source);
                } else {
                    // didOpen of a file that is not part of the project (nonProjectFiles = analyze, the default)
                    project.update_source(&Source::inline(Path::new(file), text));
                }
                project.analyse();
            }));
            if r.is_err() {
                steps_out.push(json!({"analysis_panic": true, "files": []}));
                break;
            }
        }
        let mut files_out: Vec<Value> = Vec::new();
        for f in step["files"].as_array().expect("files") {
            let mut q = query(&project, f.as_str().expect("file"));
            if dump_text {
                if let Some(source) = project.get_source(Path::new(f.as_str().unwrap())) {
                    let c = source.contents();
                    let lines: Vec<String> = (0..c.num_lines()).map(|i| c.get_line(i).unwrap_or("").to_string()).collect();
                    q["lines"] = json!(lines);
                }
            }
            files_out.push(q);
        }
        steps_out.push(json!({"files": files_out}));
    }
    std::fs::write(&args[2], serde_json::to_string(&json!({"steps": steps_out})).unwrap()).expect("write out");
}
