//! C04 harness — parallel analysis terminates and is schedule-independent.
//!
//!   c04 gen <seed> <count> <maxunits> <out.jsonl>
//!       random request graphs rendered as VHDL projects (one JSON object per line)
//!   c04 run <cases.jsonl> <workdir> <orders> <seed> [<from_case> <from_order>]
//!       for every case and every order k < orders: write the project into <workdir> under a
//!       directory whose name depends on k (so that path hashes, hence hash-map iteration and
//!       work distribution differ), with shuffled library / file listing order, load it with
//!       `Project::from_config` (parallel parsing), run `Project::analyse()` and print
//!           BEGIN <case> <k>
//!           END <case> <k> <json observables>
//!       The number of rayon workers is set by the caller through RAYON_NUM_THREADS (the
//!       harness crate cannot name rayon); the caller is the watchdog: no END within its
//!       timeout after a BEGIN = the analysis hangs.
//!   c04 one <case.json> <workdir> <k> <seed>      (replay; prints full observables)
//!   c04 symseq <seed> <count> <cases_out> <impl_out>
//!       sequential insertion sequences into a fresh `SymbolTable` (differential against the
//!       extracted model Symtab.classes)
//!   c04 symtab <seed> <rounds> <t1,t2,...>
//!       direct stress of `SymbolTable`: t threads intern the same fresh basic / extended
//!       identifiers simultaneously; every thread must get the table's symbol, equal ids
//!       exactly for identifiers that are equal by the VHDL rules
use serde_json::{json, Value};
use std::collections::BTreeSet;
use std::io::Write;
use std::path::{Path, PathBuf};
use verif_harness::rng::Rng;
use vhdl_lang::{Config, Diagnostic, MessagePrinter, Project, SrcPos};

// ------------------------------------------------------------------------------------------
// generation
// ------------------------------------------------------------------------------------------
#[derive(Clone, Copy, PartialEq, Eq, Debug)]
enum Kind {
    P, // package
    E, // entity
    A, // architecture of entity `of`
}

#[derive(Clone, Debug)]
struct Req {
    k: &'static str, // of | u | ua | uk | x | n | s | l | i | j
                     // x: `use l.p.k(0);` (not a selected name; propagates a circular error since fix 052b116)
                     // s: `alias g is true [nonexistent_t, l.p.k return boolean];` (resolve_signature returns
                     //    the Unknown of the first type mark: the circular error of the second is discarded)
    t: usize,        // target unit (library index for `l`)
}

#[derive(Clone, Debug)]
struct Unit {
    lib: usize,
    kind: Kind,
    of: usize,
    file: usize,
    reqs: Vec<Req>,
}

/// Names are deliberately EQUAL across libraries: the j-th primary unit of every library is
/// called `u<j>` (package or entity), the j-th architecture of every entity `a<j>`; the same
/// UnitKey therefore denotes different units in different libraries.
fn unit_name(u: usize, us: &[Unit]) -> String {
    match us[u].kind {
        Kind::P | Kind::E => {
            let j = (0..u).filter(|&v| us[v].lib == us[u].lib && us[v].kind != Kind::A).count();
            format!("u{j}")
        }
        Kind::A => {
            let j = (0..u).filter(|&v| us[v].kind == Kind::A && us[v].of == us[u].of).count();
            format!("a{j}")
        }
    }
}

fn is_primary(k: Kind) -> bool {
    k != Kind::A
}

/// section of a request inside the unit text: 0 = implicit entity lookup of an architecture,
/// 1 = context clause, 2 = declarative part, 3 = statement part
fn section(k: &str) -> usize {
    match k {
        "of" => 0,
        "u" | "ua" | "uk" | "x" | "l" => 1,
        "n" | "s" => 2,
        _ => 3,
    }
}

fn add_edge(us: &mut [Unit], rng: &mut Rng, from: usize, to: usize, swallow_pm: usize) {
    let tk = us[to].kind;
    let fk = us[from].kind;
    let k: &'static str = match tk {
        Kind::A => {
            if fk != Kind::A {
                return;
            }
            "j"
        }
        Kind::E => {
            if fk == Kind::A && rng.chance(2, 3) {
                "i"
            } else if rng.chance(swallow_pm, 1000) {
                "s"
            } else if rng.chance(1, 8) {
                "x"
            } else {
                "u"
            }
        }
        Kind::P => {
            if rng.chance(swallow_pm, 1000) {
                "s"
            } else {
                *rng.pick(&["u", "ua", "ua", "n", "n", "x", "uk"])
            }
        }
    };
    us[from].reqs.push(Req { k, t: to });
}

fn gen_case(rng: &mut Rng, id: usize, maxunits: usize) -> Value {
    let shapes = [
        "dag", "cycle", "nested", "tails_chords", "self_use", "lib_all", "swallow", "dense", "cycle", "tails_chords", "dag", "dag",
        "arch_cycle", "arch_cycle", "symtab", "homonym", "homonym", "lib_all", "loading", "loading",
        "hub", "hub", "lint_dep", "lint_dep", "symorder", "symorder",
    ];
    let shape = shapes[rng.below(shapes.len())];
    if shape == "symtab" {
        return gen_symtab(rng, id);
    }
    if shape == "loading" {
        return gen_loading(rng, id);
    }
    if shape == "hub" {
        return gen_hub(rng, id);
    }
    if shape == "lint_dep" {
        return gen_lint_dep(rng, id);
    }
    if shape == "symorder" {
        return gen_symorder(rng, id);
    }
    let nlib = if shape == "homonym" || shape == "lib_all" { 2 + rng.below(2) } else { 1 + rng.below(3) };
    let n = 2 + rng.below(maxunits.max(3) - 1);
    let p_pkg = if shape == "arch_cycle" { 2 } else { 7 };
    let mut us: Vec<Unit> = Vec::new();
    let mut nfiles = 0;
    // homonym / lib_all: every library gets at least two primary units
    let few = |us: &Vec<Unit>| (0..nlib).any(|l| us.iter().filter(|u| u.lib == l && u.kind != Kind::A).count() < 2);
    while us.len() < n
        || (shape == "arch_cycle" && us.iter().filter(|u| u.kind == Kind::A).count() < 3)
        || ((shape == "homonym" || shape == "lib_all") && few(&us))
    {
        let lib = if (shape == "homonym" || shape == "lib_all") && few(&us) {
            (0..nlib).find(|&l| us.iter().filter(|u| u.lib == l && u.kind != Kind::A).count() < 2).unwrap()
        } else {
            rng.below(nlib)
        };
        if rng.chance(p_pkg, 10) {
            us.push(Unit { lib, kind: Kind::P, of: 0, file: nfiles, reqs: vec![] });
            nfiles += 1;
        } else {
            let e = us.len();
            us.push(Unit { lib, kind: Kind::E, of: 0, file: nfiles, reqs: vec![] });
            let na = if shape == "arch_cycle" { 1 + rng.below(2) } else { rng.below(3) };
            for _ in 0..na {
                let same_file = rng.chance(1, 2);
                if !same_file {
                    nfiles += 1;
                }
                us.push(Unit { lib, kind: Kind::A, of: e, file: nfiles, reqs: vec![Req { k: "of", t: e }] });
            }
            nfiles += 1;
        }
    }
    let n = us.len();
    let swallow_pm = if shape == "swallow" { 250 } else { 15 };
    // a random order for the acyclic background
    let mut perm: Vec<usize> = (0..n).collect();
    for i in (1..n).rev() {
        perm.swap(i, rng.below(i + 1));
    }
    let p_edge = match shape {
        "dense" => 40,
        "dag" => 35,
        _ => 20,
    };
    for a in 0..n {
        for b in 0..a {
            if rng.chance(p_edge, 100) {
                let (from, to) = (perm[a], perm[b]);
                if shape == "dense" && rng.chance(1, 3) {
                    add_edge(&mut us, rng, to, from, swallow_pm);
                } else {
                    add_edge(&mut us, rng, from, to, swallow_pm);
                }
            }
        }
    }
    let prim: Vec<usize> = (0..n).filter(|&u| is_primary(us[u].kind)).collect();
    let pick_cycle = |rng: &mut Rng, len: usize| -> Vec<usize> {
        let mut c: Vec<usize> = prim.clone();
        for i in (1..c.len()).rev() {
            c.swap(i, rng.below(i + 1));
        }
        c.truncate(len.min(c.len()).max(1));
        c
    };
    let plant = |us: &mut Vec<Unit>, rng: &mut Rng, c: &[usize]| {
        for i in 0..c.len() {
            add_edge(us, rng, c[i], c[(i + 1) % c.len()], swallow_pm);
        }
    };
    match shape {
        "cycle" | "swallow" => {
            let len = 1 + rng.below(4);
            let c = pick_cycle(rng, len);
            plant(&mut us, rng, &c);
        }
        "nested" => {
            let len = 2 + rng.below(3);
            let c = pick_cycle(rng, len);
            plant(&mut us, rng, &c);
            let len2 = 2 + rng.below(3);
            let c2 = pick_cycle(rng, len2);
            plant(&mut us, rng, &c2);
            if c.len() >= 2 {
                // inner cycle through a part of the first
                let inner: Vec<usize> = c[..c.len() - 1].to_vec();
                plant(&mut us, rng, &inner);
            }
        }
        "tails_chords" => {
            let len = 2 + rng.below(3);
            let c = pick_cycle(rng, len);
            plant(&mut us, rng, &c);
            let cnt = 1 + rng.below(3);
            for _ in 0..cnt {
                let a = *rng.pick(&c);
                let b = *rng.pick(&c);
                add_edge(&mut us, rng, a, b, swallow_pm); // chord (or self-use)
            }
            let cnt = 1 + rng.below(3);
            for _ in 0..cnt {
                let from = rng.below(n);
                let to = *rng.pick(&c);
                add_edge(&mut us, rng, from, to, swallow_pm); // tail into the cycle
            }
        }
        "arch_cycle" => {
            // architectures instantiating each other (`entity l.e(a)` in both directions), more
            // architectures / units using members of the cycle
            let mut arch: Vec<usize> = (0..n).filter(|&u| us[u].kind == Kind::A).collect();
            for i in (1..arch.len()).rev() {
                arch.swap(i, rng.below(i + 1));
            }
            let len = (2 + rng.below(2)).min(arch.len());
            let cyc: Vec<usize> = arch[..len].to_vec();
            for i in 0..cyc.len() {
                let (from, to) = (cyc[i], cyc[(i + 1) % cyc.len()]);
                us[from].reqs.push(Req { k: "j", t: to });
            }
            for &a in arch[len..].iter() {
                let to = *rng.pick(&cyc);
                us[a].reqs.push(Req { k: "j", t: to });
            }
            if rng.chance(1, 2) {
                // an entity of the cycle refers back to another entity of the cycle
                let a = us[cyc[0]].of;
                let b = us[cyc[1]].of;
                add_edge(&mut us, rng, a, b, 0);
            }
            let from = rng.below(n);
            let to = us[*rng.pick(&cyc)].of;
            add_edge(&mut us, rng, from, to, 0);
        }
        "self_use" => {
            let u = *rng.pick(&prim);
            add_edge(&mut us, rng, u, u, swallow_pm);
            if rng.chance(1, 2) {
                let arch: Vec<usize> = (0..n).filter(|&u| us[u].kind == Kind::A).collect();
                if !arch.is_empty() {
                    let a = *rng.pick(&arch);
                    us[a].reqs.push(Req { k: "j", t: a });
                }
            }
        }
        "lib_all" => {
            let len = 1 + rng.below(3);
            let c = pick_cycle(rng, len);
            if rng.chance(1, 2) {
                plant(&mut us, rng, &c);
            }
            // `use <other library>.all` ON a cycle: a (library la) uses lb.all, a unit b of lb
            // uses a through a selected name
            let cnt = 1 + rng.below(2);
            for _ in 0..cnt {
                let a = *rng.pick(&prim);
                let others: Vec<usize> = (0..nlib).filter(|&l| l != us[a].lib).collect();
                let lb = *rng.pick(&others);
                let bs: Vec<usize> = prim.iter().cloned().filter(|&v| us[v].lib == lb).collect();
                let b = *rng.pick(&bs);
                us[a].reqs.push(Req { k: "l", t: lb });
                add_edge(&mut us, rng, b, a, 0);
            }
            if rng.chance(1, 2) {
                let from = rng.below(n);
                let others: Vec<usize> = (0..nlib).filter(|&l| l != us[from].lib).collect();
                let l = *rng.pick(&others);
                us[from].reqs.push(Req { k: "l", t: l });
            }
        }
        "homonym" => {
            // x (library la) uses the homonyms h1 = lb.u<j> and h2 = la.u<j> in either order; the
            // unit used SECOND uses x: the cycle is behind the second homonym
            let cnt = 1 + rng.below(2);
            for _ in 0..cnt {
                let la = rng.below(nlib);
                let others: Vec<usize> = (0..nlib).filter(|&l| l != la).collect();
                let lb = *rng.pick(&others);
                let pa: Vec<usize> = prim.iter().cloned().filter(|&v| us[v].lib == la).collect();
                let pb: Vec<usize> = prim.iter().cloned().filter(|&v| us[v].lib == lb).collect();
                let j = rng.below(pa.len().min(pb.len()));
                let (h2, h1) = (pa[j], pb[j]);
                let xs: Vec<usize> = (0..n).filter(|&v| us[v].lib == la && v != h2).collect();
                let x = *rng.pick(&xs);
                let (first, second) = if rng.chance(1, 2) { (h1, h2) } else { (h2, h1) };
                let kind = |us: &Vec<Unit>, t: usize, rng: &mut Rng| -> &'static str {
                    if us[t].kind == Kind::P { *rng.pick(&["ua", "u", "uk"]) } else { "u" }
                };
                let k1 = kind(&us, first, rng);
                let k2 = kind(&us, second, rng);
                let at = if us[x].kind == Kind::A { 1 } else { 0 };
                us[x].reqs.insert(at, Req { k: k1, t: first });
                us[x].reqs.insert(at + 1, Req { k: k2, t: second });
                let back = if us[x].kind == Kind::A { us[x].of } else { x };
                add_edge(&mut us, rng, second, back, 0);
                if rng.chance(1, 3) {
                    add_edge(&mut us, rng, first, back, 0);
                }
            }
        }
        _ => {}
    }
    if nlib >= 2 && rng.chance(1, 6) {
        let from = rng.below(n);
        let others: Vec<usize> = (0..nlib).filter(|&l| l != us[from].lib).collect();
        let l = *rng.pick(&others);
        us[from].reqs.push(Req { k: "l", t: l });
    }
    // order of the requests inside a unit = order of analysis: entity lookup, context clause,
    // declarative part, statements; shuffle inside each section
    for u in 0..n {
        let mut rs = std::mem::take(&mut us[u].reqs);
        if shape != "homonym" {
            for i in (1..rs.len()).rev() {
                rs.swap(i, rng.below(i + 1));
            }
        }
        rs.sort_by_key(|r| section(r.k)); // stable
        if shape != "arch_cycle" {
            rs.truncate(6);
        }
        us[u].reqs = rs;
    }
    render(rng, id, shape, nlib, &us, nfiles)
}

/// many files that all use the same, not yet interned, extended and mixed-case identifiers:
/// parallel parsing races on the symbol table (`SymbolTable::insert_new`)
fn gen_symtab(rng: &mut Rng, id: usize) -> Value {
    // Every file walks through the same segments of fresh identifiers; inside a segment the
    // files with an even number go up and the odd ones go down, so that two workers parsing an
    // even and an odd file at the same time meet at an identifier that neither has interned yet.
    let nfiles = 17 + rng.below(24);
    let nseg = 4 + rng.below(5);
    let seglen = 40 + rng.below(40);
    let tag = rng.below(100000);
    let ext = |sg: usize, i: usize| format!("\\Id {tag} {sg} {i}\\");
    let basic = |sg: usize, i: usize, style: usize| match style {
        0 => format!("Sig_{tag}_X{sg}_{i}"),
        1 => format!("SIG_{tag}_x{sg}_{i}"),
        _ => format!("sig_{tag}_X{sg}_{i}"),
    };
    let mut files: Vec<Value> = Vec::new();
    let mut units: Vec<Value> = Vec::new();
    let mut t0 = String::from("package pk is\n");
    for sg in 0..nseg {
        for i in 0..seglen {
            t0.push_str(&format!("  constant {} : integer := {i};\n", ext(sg, i)));
            if i % 4 == 0 {
                t0.push_str(&format!("  constant {} : integer := {i};\n", basic(sg, i, 0)));
            }
        }
    }
    t0.push_str("end package;\n");
    files.push(json!({"name": "f0.vhd", "lib": 0, "text": t0}));
    units.push(json!({"u": 0, "lib": 0, "kind": "P", "name": "pk", "of": 0, "file": "f0.vhd", "reqs": []}));
    for f in 1..nfiles {
        let mut t = String::from("use work.pk.all;\n");
        t.push_str(&format!("package q{f} is\n"));
        for sg in 0..nseg {
            for j in 0..seglen {
                let i = if f % 2 == 0 { j } else { seglen - 1 - j };
                t.push_str(&format!("  constant a{sg}_{i} : integer := {};\n", ext(sg, i)));
                if i % 4 == 0 {
                    t.push_str(&format!("  constant b{sg}_{i} : integer := {};\n", basic(sg, i, 1 + (f + i) % 2)));
                }
            }
        }
        t.push_str("end package;\n");
        files.push(json!({"name": format!("f{f}.vhd"), "lib": 0, "text": t}));
        units.push(json!({"u": f, "lib": 0, "kind": "P", "name": format!("q{f}"), "of": 0, "file": format!("f{f}.vhd"),
                          "reqs": [{"k": "ua", "t": 0, "line": 1}]}));
    }
    json!({"id": id, "shape": "symtab", "nlib": 1, "units": units, "files": files})
}

/// the parallel LOADING phase: many more files than workers (48-80 independent one-package files
/// over 1-2 libraries), a fifth to a third of them with a syntax error.  `seqref` makes the runner
/// add the one-file-at-a-time reference (every file parsed alone by VHDLParser): the diagnostics
/// of the loaded and analysed project must be exactly that multiset.
fn gen_loading(rng: &mut Rng, id: usize) -> Value {
    let nfiles = 48 + rng.below(33);
    let nlib = 1 + rng.below(2);
    let mut files: Vec<Value> = Vec::new();
    let mut units: Vec<Value> = Vec::new();
    let p_err = 20 + rng.below(15);
    for f in 0..nfiles {
        let lib = rng.below(nlib);
        let nconst = 1 + rng.below(4);
        let err = if rng.chance(p_err, 100) { 1 + rng.below(5) } else { 0 };
        let bad_line = rng.below(nconst);
        let mut t = String::new();
        t.push_str(if err == 2 { "package q" } else { "package q" });
        t.push_str(&format!("{f}{}\n", if err == 2 { "" } else { " is" }));
        for i in 0..nconst {
            let semi = if err == 1 && i == bad_line { "" } else { ";" };
            let val = if err == 3 && i == bad_line { format!("({i}") } else if err == 4 && i == bad_line { format!("{i} +") } else { format!("{i}") };
            t.push_str(&format!("  constant c{i} : natural := {val}{semi}\n"));
        }
        t.push_str(if err == 5 { "end packag;\n" } else { "end package;\n" });
        files.push(json!({"name": format!("f{f}.vhd"), "lib": lib, "text": t}));
        units.push(json!({"u": f, "lib": lib, "kind": "P", "name": format!("q{f}"), "of": 0, "file": format!("f{f}.vhd"), "reqs": []}));
    }
    json!({"id": id, "shape": "loading", "seqref": true, "nlib": nlib, "units": units, "files": files})
}

/// contention on unit locks: a few LARGE hub packages that carry errors of several kinds (also
/// below operators, where a second analysis of an uncleared AST would take a short cut) and many
/// leaf packages that use all hubs; every unit must be analysed exactly once on every schedule
fn gen_hub(rng: &mut Rng, id: usize) -> Value {
    let nhub = 4 + rng.below(5);
    let nleaf = 16 + rng.below(25);
    let nfill = 120 + rng.below(120);
    let mut files: Vec<Value> = Vec::new();
    let mut units: Vec<Value> = Vec::new();
    for h in 0..nhub {
        let mut t = format!("package hub{h} is\n  function takes_slv(din : bit_vector) return boolean;\n");
        let nerr = 1 + rng.below(4);
        let mut err_at: Vec<usize> = (0..nerr).map(|_| rng.below(nfill)).collect();
        err_at.sort();
        let mut e = 0;
        for j in 0..nfill {
            t.push_str(&format!("  constant f{h}_{j} : integer := ({j} + 3) * 2 - {};\n", j % 7));
            while e < err_at.len() && err_at[e] == j {
                let line = match rng.below(5) {
                    0 => format!("  constant bar{h}_{e} : boolean := takes_slv(true) and true;\n"),
                    1 => format!("  constant bar{h}_{e} : integer := missing_{h}_{e} + 1;\n"),
                    2 => format!("  constant bar{h}_{e} : boolean := takes_slv(\"00\", \"11\") or false;\n"),
                    3 => format!("  constant bar{h}_{e} : integer := f{h}_0 + true;\n"),
                    _ => format!("  constant bar{h}_{e} : boolean := not takes_slv(3);\n"),
                };
                t.push_str(&line);
                e += 1;
            }
        }
        t.push_str("end package;\n");
        files.push(json!({"name": format!("hub{h}.vhd"), "lib": 0, "text": t}));
        units.push(json!({"u": h, "lib": 0, "kind": "P", "name": format!("hub{h}"), "of": 0, "file": format!("hub{h}.vhd"), "reqs": []}));
    }
    for l in 0..nleaf {
        let mut t = String::new();
        let mut reqs: Vec<Value> = Vec::new();
        let first = rng.below(nhub);
        for i in 0..nhub {
            let h = (first + i) % nhub;
            t.push_str(&format!("use work.hub{h}.all;\n"));
            reqs.push(json!({"k": "ua", "t": h, "line": i + 1}));
        }
        t.push_str(&format!("package leaf{l} is\n  constant x{l} : integer := f{first}_1 + {l};\nend package;\n"));
        files.push(json!({"name": format!("leaf{l}.vhd"), "lib": 0, "text": t}));
        units.push(json!({"u": nhub + l, "lib": 0, "kind": "P", "name": format!("leaf{l}"), "of": 0, "file": format!("leaf{l}.vhd"), "reqs": reqs}));
    }
    json!({"id": id, "shape": "hub", "nlib": 1, "units": units, "files": files})
}

/// lint findings in units that are reached as a DEPENDENCY: sub entities whose architecture is
/// named by the instantiation in a top architecture (`entity l.sub(a0)`); every architecture
/// carries an unused signal and an incomplete sensitivity list (see `render`)
fn gen_lint_dep(rng: &mut Rng, id: usize) -> Value {
    let nlib = 1 + rng.below(2);
    let npairs = 10 + rng.below(15);
    let mut us: Vec<Unit> = Vec::new();
    let mut nfiles = 0;
    for _ in 0..npairs {
        let lib = rng.below(nlib);
        let sub_e = us.len();
        us.push(Unit { lib, kind: Kind::E, of: 0, file: nfiles, reqs: vec![] });
        us.push(Unit { lib, kind: Kind::A, of: sub_e, file: nfiles, reqs: vec![Req { k: "of", t: sub_e }] });
        nfiles += 1;
        let tlib = rng.below(nlib);
        let top_e = us.len();
        us.push(Unit { lib: tlib, kind: Kind::E, of: 0, file: nfiles, reqs: vec![] });
        let mut reqs = vec![Req { k: "of", t: top_e }, Req { k: "j", t: sub_e + 1 }];
        if sub_e >= 4 && rng.chance(1, 3) {
            // a second level: also instantiate an earlier sub by architecture
            reqs.push(Req { k: "j", t: sub_e - 3 });
        }
        us.push(Unit { lib: tlib, kind: Kind::A, of: top_e, file: nfiles, reqs });
        nfiles += 1;
    }
    render(rng, id, "lint_dep", nlib, &us, nfiles)
}

/// schedule-dependent SYMBOL IDS must not leak into results.  Legal projects in which fresh
/// identifiers are first seen by several files that are parsed in parallel (in different orders
/// per file, so the ids depend on which worker comes first) and are the names of interface
/// objects / record elements / parameters declared on ONE source line; the consumers depend on
/// the declaration ORDER: positional generic and port maps (entity and component instantiation),
/// positional calls and positional record aggregates with differently typed actuals.
/// `expect_codes`: the only diagnostic codes a run may report.
fn gen_symorder(rng: &mut Rng, id: usize) -> Value {
    let ngroups = 3 + rng.below(4);
    let tag = rng.below(100000);
    let mut files: Vec<Value> = Vec::new();
    let mut units: Vec<Value> = Vec::new();
    let types = ["bit", "integer", "boolean", "time", "character", "real"];
    let vals = ["'1'", "2", "true", "3 ns", "'x'", "1.5"];
    let mut add_file = |files: &mut Vec<Value>, name: String, text: String| {
        files.push(json!({"name": name, "lib": 0, "text": text}));
    };
    for g in 0..ngroups {
        let np = 3 + rng.below(4); // ports / elements per line
        // fresh names; their alphabetical, length and declaration orders all differ
        let mut names: Vec<String> = (0..np).map(|i| format!("{}{tag}_{g}_{}", ["zq", "a", "mmm", "k", "yy", "b"][(i * 5 + g) % 6], (np - i) * 7 % 10)).collect();
        names.dedup();
        let np = names.len();
        // a permutation of the types so that any exchange of two formals is a type error
        let mut ty: Vec<usize> = (0..np).collect();
        for i in (1..np).rev() {
            ty.swap(i, rng.below(i + 1));
        }
        let ports: Vec<String> = (0..np).map(|i| format!("{} : in {}", names[i], types[ty[i]])).collect();
        let gens: Vec<String> = (0..np).map(|i| format!("g_{} : {} := {}", names[i], types[ty[i]], vals[ty[i]])).collect();
        let actual_vals: Vec<String> = (0..np).map(|i| vals[ty[i]].to_string()).collect();
        let base = units.len();
        // entity with same-line generics and ports + trivial architecture
        let ent = format!(
            "entity e{g} is\n  generic ({});\n  port ({});\nend entity;\narchitecture a of e{g} is\nbegin\nend architecture;\n",
            gens.join("; "),
            ports.join("; ")
        );
        add_file(&mut files, format!("ent{g}.vhd"), ent);
        units.push(json!({"u": base, "lib": 0, "kind": "E", "name": format!("e{g}"), "of": 0, "file": format!("ent{g}.vhd"), "reqs": []}));
        units.push(json!({"u": base + 1, "lib": 0, "kind": "A", "name": "a", "of": base, "file": format!("ent{g}.vhd"), "reqs": [{"k": "of", "t": base, "line": 5}]}));
        // package: record with same-line elements, function with same-line parameters, component
        let elems: Vec<String> = (0..np).map(|i| format!("{} : {};", names[i], types[ty[i]])).collect();
        let params: Vec<String> = (0..np).map(|i| format!("{} : {}", names[i], types[ty[i]])).collect();
        let pkg = format!(
            "package p{g} is\n  type rec{g} is record {} end record;\n  constant r{g} : rec{g} := ({});\n  function f{g} ({}) return integer;\n  component c{g} is port ({}); end component;\nend package;\n",
            elems.join(" "),
            actual_vals.join(", "),
            params.join("; "),
            ports.join("; ")
        );
        add_file(&mut files, format!("pkg{g}.vhd"), pkg);
        units.push(json!({"u": base + 2, "lib": 0, "kind": "P", "name": format!("p{g}"), "of": 0, "file": format!("pkg{g}.vhd"), "reqs": []}));
        // top: signals of the types, positional maps of the entity and of the component, positional call
        let mut top = format!("use work.p{g}.all;\nentity t{g} is\nend entity;\narchitecture a of t{g} is\n");
        for i in 0..np {
            top.push_str(&format!("  signal s{i} : {} := {};\n", types[ty[i]], vals[ty[i]]));
        }
        let sigs: Vec<String> = (0..np).map(|i| format!("s{i}")).collect();
        top.push_str(&format!("  constant k{g} : integer := f{g}({});\nbegin\n", actual_vals.join(", ")));
        let l_inst = 4 + np + 3;
        top.push_str(&format!("  i1 : entity work.e{g} generic map ({}) port map ({});\n", actual_vals.join(", "), sigs.join(", ")));
        top.push_str(&format!("  i2 : component c{g} port map ({});\nend architecture;\n", sigs.join(", ")));
        add_file(&mut files, format!("top{g}.vhd"), top);
        units.push(json!({"u": base + 3, "lib": 0, "kind": "E", "name": format!("t{g}"), "of": 0, "file": format!("top{g}.vhd"),
                          "reqs": [{"k": "ua", "t": base + 2, "line": 1}]}));
        units.push(json!({"u": base + 4, "lib": 0, "kind": "A", "name": "a", "of": base + 3, "file": format!("top{g}.vhd"),
                          "reqs": [{"k": "of", "t": base + 3, "line": 4}, {"k": "i", "t": base, "line": l_inst}]}));
        // unrelated packages that mention the same identifiers in other orders: whoever is
        // tokenized first decides the symbol ids
        let nother = 2 + rng.below(3);
        for o in 0..nother {
            let mut order: Vec<usize> = (0..np).collect();
            if o == 0 {
                order.reverse();
            } else {
                for i in (1..np).rev() {
                    order.swap(i, rng.below(i + 1));
                }
            }
            let mut t = format!("package o{g}_{o} is\n");
            for &i in &order {
                t.push_str(&format!("  constant {} : integer := {i};\n  constant g_{} : integer := {i};\n", names[i], names[i]));
            }
            t.push_str("end package;\n");
            add_file(&mut files, format!("other{g}_{o}.vhd"), t);
            let u = units.len();
            units.push(json!({"u": u, "lib": 0, "kind": "P", "name": format!("o{g}_{o}"), "of": 0, "file": format!("other{g}_{o}.vhd"), "reqs": []}));
        }
    }
    json!({"id": id, "shape": "symorder", "expect_codes": ["Unused"], "nlib": 1, "units": units, "files": files})
}

fn render(rng: &mut Rng, id: usize, shape: &str, nlib: usize, us: &[Unit], nfiles: usize) -> Value {
    let n = us.len();
    let libname = |from: usize, l: usize, rng: &mut Rng| -> String {
        if us[from].lib == l && rng.chance(1, 2) {
            "work".to_string()
        } else {
            format!("l{l}")
        }
    };
    let mut file_text: Vec<String> = vec![String::new(); nfiles];
    let mut file_lines: Vec<usize> = vec![0; nfiles];
    let mut file_lib: Vec<usize> = vec![0; nfiles];
    let mut junits: Vec<Value> = Vec::new();
    for u in 0..n {
        let unit = &us[u];
        let f = unit.file;
        file_lib[f] = unit.lib;
        let mut lines: Vec<String> = Vec::new();
        let mut jreqs: Vec<Value> = Vec::new();
        let base_line = file_lines[f];
        let libs: Vec<String> = (0..nlib).map(|l| format!("l{l}")).collect();
        lines.push(format!("library {};", libs.join(", ")));
        let name = unit_name(u, us);
        let mut cix = 0;
        let push_req = |jreqs: &mut Vec<Value>, r: &Req, line: usize| {
            jreqs.push(json!({"k": r.k, "t": r.t, "line": base_line + line}));
        };
        for r in unit.reqs.iter().filter(|r| section(r.k) == 1) {
            let txt = match r.k {
                "u" => format!("use {}.{};", libname(u, us[r.t].lib, rng), unit_name(r.t, us)),
                "ua" => format!("use {}.{}.all;", libname(u, us[r.t].lib, rng), unit_name(r.t, us)),
                "uk" => format!("use {}.{}.k;", libname(u, us[r.t].lib, rng), unit_name(r.t, us)),
                "x" => format!("use {}.{}.k(0);", libname(u, us[r.t].lib, rng), unit_name(r.t, us)),
                _ => format!("use l{}.all;", r.t),
            };
            lines.push(txt);
            push_req(&mut jreqs, r, lines.len());
        }
        match unit.kind {
            Kind::P => lines.push(format!("package {name} is")),
            Kind::E => lines.push(format!("entity {name} is")),
            Kind::A => {
                lines.push(format!("architecture {name} of {} is", unit_name(unit.of, us)));
                let r = &unit.reqs[0];
                jreqs.insert(0, json!({"k": "of", "t": r.t, "line": base_line + lines.len()}));
            }
        }
        if unit.kind == Kind::P {
            lines.push("  constant k : integer := 0;".to_string());
        }
        for r in unit.reqs.iter().filter(|r| section(r.k) == 2) {
            cix += 1;
            if r.k == "s" {
                lines.push(format!(
                    "  alias g{cix} is true [nonexistent_t, {}.{}.k return boolean];",
                    libname(u, us[r.t].lib, rng),
                    unit_name(r.t, us)
                ));
            } else {
                lines.push(format!(
                    "  constant c{cix} : integer := {}.{}.k;",
                    libname(u, us[r.t].lib, rng),
                    unit_name(r.t, us)
                ));
            }
            push_req(&mut jreqs, r, lines.len());
        }
        if unit.kind == Kind::A {
            // lint findings: an unused signal and a process that reads a signal missing from its
            // sensitivity list
            lines.push(format!("  signal lint_a{u}, lint_b{u}, lint_c{u}, lint_unused{u} : bit;"));
            lines.push("begin".to_string());
            lines.push(format!("  lp{u} : process (lint_a{u}) begin lint_b{u} <= lint_a{u} and lint_c{u}; end process;"));
            for r in unit.reqs.iter().filter(|r| section(r.k) == 3) {
                cix += 1;
                let txt = if r.k == "i" {
                    format!("  i{cix} : entity {}.{};", libname(u, us[r.t].lib, rng), unit_name(r.t, us))
                } else {
                    let ent = us[r.t].of;
                    format!(
                        "  i{cix} : entity {}.{}({});",
                        libname(u, us[ent].lib, rng),
                        unit_name(ent, us),
                        unit_name(r.t, us)
                    )
                };
                lines.push(txt);
                push_req(&mut jreqs, r, lines.len());
            }
        }
        lines.push(match unit.kind {
            Kind::P => "end package;".to_string(),
            Kind::E => "end entity;".to_string(),
            Kind::A => "end architecture;".to_string(),
        });
        file_lines[f] += lines.len();
        file_text[f].push_str(&lines.join("\n"));
        file_text[f].push('\n');
        junits.push(json!({
            "u": u, "lib": unit.lib, "kind": format!("{:?}", unit.kind), "name": name, "of": unit.of,
            "file": format!("f{f}.vhd"), "reqs": jreqs,
        }));
    }
    let files: Vec<Value> = (0..nfiles)
        .map(|f| json!({"name": format!("f{f}.vhd"), "lib": file_lib[f], "text": file_text[f]}))
        .collect();
    json!({"id": id, "shape": shape, "nlib": nlib, "units": junits, "files": files})
}

// ------------------------------------------------------------------------------------------
// running
// ------------------------------------------------------------------------------------------
fn base(p: &Path) -> String {
    p.file_name().map(|x| x.to_string_lossy().to_string()).unwrap_or_default()
}

fn range_str(p: &SrcPos) -> String {
    format!(
        "{}.{}-{}.{}",
        p.range.start.line, p.range.start.character, p.range.end.line, p.range.end.character
    )
}

fn canon_diag(d: &Diagnostic) -> String {
    let mut rel: Vec<String> = d
        .related
        .iter()
        .map(|(p, m)| format!("{}:{}:{}", base(p.source.file_name()), range_str(p), m))
        .collect();
    rel.sort();
    format!(
        "{:?}|{}|{}|{}|{}",
        d.code,
        base(d.pos.source.file_name()),
        range_str(&d.pos),
        d.message,
        rel.join(";")
    )
}

fn fnv(s: &str, h: &mut u64) {
    for b in s.bytes() {
        *h ^= b as u64;
        *h = h.wrapping_mul(0x100000001b3);
    }
    *h ^= 0xff;
    *h = h.wrapping_mul(0x100000001b3);
}

fn std_toml() -> String {
    "std.files = ['/repo/vhdl_libraries/std/standard.vhd', '/repo/vhdl_libraries/std/textio.vhd', '/repo/vhdl_libraries/std/env.vhd']\nstd.is_third_party = true\n".to_string()
}

/// writes the project of `case` for order k and returns (dir, toml text)
fn write_project(case: &Value, workdir: &Path, k: usize, seed: u64) -> (PathBuf, String) {
    let id = case["id"].as_u64().unwrap_or(0);
    let mut rng = Rng::new(seed ^ (id.wrapping_mul(0x9E37) + k as u64 * 0x1_0001 + 7));
    let dir = workdir.join(format!("c{}_{}_{:x}", id, k, rng.next() & 0xffff));
    let _ = std::fs::remove_dir_all(&dir);
    std::fs::create_dir_all(&dir).unwrap();
    let nlib = case["nlib"].as_u64().unwrap() as usize;
    let files = case["files"].as_array().unwrap();
    let mut per_lib: Vec<Vec<String>> = vec![vec![]; nlib];
    for f in files {
        let name = f["name"].as_str().unwrap();
        std::fs::write(dir.join(name), f["text"].as_str().unwrap()).unwrap();
        per_lib[f["lib"].as_u64().unwrap() as usize].push(name.to_string());
    }
    let mut entries: Vec<String> = Vec::new();
    for (l, fs) in per_lib.iter_mut().enumerate() {
        for i in (1..fs.len()).rev() {
            fs.swap(i, rng.below(i + 1));
        }
        let list: Vec<String> = fs.iter().map(|f| format!("'{f}'")).collect();
        entries.push(format!("l{l}.files = [{}]\n", list.join(", ")));
    }
    entries.push(std_toml());
    for i in (1..entries.len()).rev() {
        entries.swap(i, rng.below(i + 1));
    }
    let toml = format!("[libraries]\n{}", entries.join(""));
    std::fs::write(dir.join("vhdl_ls.toml"), &toml).unwrap();
    (dir, toml)
}

fn analyse_dir(dir: &Path, toml: &str, case: &Value, verbose: bool) -> Value {
    let mut msgs = MessagePrinter::default();
    let mut cfg = Config::default();
    match Config::from_str(toml, dir) {
        Ok(c) => cfg.append(&c, &mut msgs),
        Err(e) => return json!({"error": format!("config: {e}")}),
    }
    let mut p = Project::from_config(cfg, &mut msgs);
    // all linters on (as the language server does): the units returned by DesignRoot::analyze
    // decide which units are linted
    p.enable_all_linters();
    let diags = p.analyse();
    // hook H2: the return value of DesignRoot::analyze ("the units that were re-analyzed")
    let analyzed: Vec<String> = p
        .verif_root()
        .verif_trace()
        .analyzed
        .into_iter()
        .filter(|u| !u.starts_with("std|"))
        .collect();
    let mut ds: Vec<String> = diags
        .iter()
        .filter(|d| !d.pos.source.file_name().starts_with("/repo/vhdl_libraries"))
        .map(canon_diag)
        .collect();
    ds.sort();
    let mut circ: BTreeSet<String> = BTreeSet::new();
    for d in &diags {
        if format!("{:?}", d.code) == "CircularDependency" {
            circ.insert(format!("{}:{}", base(d.pos.source.file_name()), d.pos.range.start.line + 1));
        }
    }
    let mut refs: Vec<String> = Vec::new();
    for f in case["files"].as_array().unwrap() {
        let name = f["name"].as_str().unwrap();
        if let Some(src) = p.get_source(&dir.join(name)) {
            for (pos, ent) in p.find_all_entity_references(&src) {
                let decl = match ent.decl_pos() {
                    Some(dp) => format!("{}:{}", base(dp.source.file_name()), range_str(dp)),
                    None => "none".to_string(),
                };
                refs.push(format!("{}|{} -> {}|{}", name, range_str(&pos), decl, ent.describe()));
            }
        } else {
            refs.push(format!("{name}|MISSING-SOURCE"));
        }
    }
    refs.sort();
    let mut h: u64 = 0xcbf29ce484222325;
    for r in &refs {
        fnv(r, &mut h);
    }
    let mut o = json!({
        "diags": ds,
        "analyzed": analyzed,
        "circ": circ.into_iter().collect::<Vec<_>>(),
        "nrefs": refs.len(),
        "refs_hash": format!("{h:016x}"),
    });
    if verbose {
        o["refs"] = json!(refs);
    }
    if case["seqref"].as_bool() == Some(true) {
        // reference for the loading phase: every file parsed alone, one after the other
        let parser = vhdl_lang::VHDLParser::new(vhdl_lang::VHDLStandard::default());
        let mut seq: Vec<String> = Vec::new();
        for f in case["files"].as_array().unwrap() {
            let name = f["name"].as_str().unwrap();
            let mut dd: Vec<Diagnostic> = Vec::new();
            match parser.parse_design_file(&dir.join(name), &mut dd) {
                Ok(_) => seq.extend(dd.iter().map(canon_diag)),
                Err(e) => seq.push(format!("IOERROR {name} {e}")),
            }
        }
        seq.sort();
        o["seq_diags"] = json!(seq);
    }
    o
}

fn run_case(case: &Value, workdir: &Path, k: usize, seed: u64, verbose: bool) -> Value {
    let (dir, toml) = write_project(case, workdir, k, seed);
    let r = std::panic::catch_unwind(|| analyse_dir(&dir, &toml, case, verbose));
    let mut v = match r {
        Ok(v) => v,
        Err(e) => {
            let msg = if let Some(s) = e.downcast_ref::<String>() {
                s.clone()
            } else if let Some(s) = e.downcast_ref::<&str>() {
                s.to_string()
            } else {
                "panic".to_string()
            };
            json!({"panic": msg})
        }
    };
    if verbose {
        v["toml"] = json!(toml);
        v["dir"] = json!(dir.to_string_lossy());
    } else {
        let _ = std::fs::remove_dir_all(&dir);
    }
    v
}

// ------------------------------------------------------------------------------------------
// direct stress of the symbol table: T threads intern the same fresh names at the same time
// ------------------------------------------------------------------------------------------
fn norm_key(name: &str) -> String {
    if name.starts_with('\\') {
        name.to_string()
    } else {
        name.to_lowercase()
    }
}

fn symtab_stress(seed: u64, rounds: usize, threads: usize) -> Value {
    use std::sync::{Arc, Barrier};
    use vhdl_lang::verif::data::{Latin1String, Symbol, SymbolTable};
    let mut rng = Rng::new(seed ^ 0x5157_AB);
    let mut problems: Vec<String> = Vec::new();
    let mut ninserts = 0usize;
    for round in 0..rounds {
        let n = 20 + rng.below(60);
        let tag = rng.below(1000000);
        // names: extended (case-sensitive), basic in three spellings (case-insensitive), and a
        // basic name whose text equals the inside of an extended one
        let mut names: Vec<String> = Vec::new();
        for i in 0..n {
            names.push(format!("\\Ext{tag}_{i}\\"));
            names.push(format!("\\ext{tag}_{i}\\"));
            names.push(format!("Bas{tag}_{i}"));
            names.push(format!("bas{tag}_{i}"));
            names.push(format!("BAS{tag}_{i}"));
            names.push(format!("Ext{tag}_{i}"));
        }
        let names = Arc::new(names);
        let table = Arc::new(SymbolTable::default());
        let barrier = Arc::new(Barrier::new(threads));
        let mut handles = Vec::new();
        for t in 0..threads {
            let (names, table, barrier) = (names.clone(), table.clone(), barrier.clone());
            let rot = if t % 2 == 0 { 0 } else { (round + t) % 7 };
            handles.push(std::thread::spawn(move || {
                let mut out: Vec<(usize, Symbol)> = Vec::with_capacity(names.len());
                barrier.wait();
                for j in 0..names.len() {
                    let i = (j + rot) % names.len();
                    let l = Latin1String::from_utf8(&names[i]).unwrap();
                    let sym = if names[i].starts_with('\\') { table.insert_extended(&l) } else { table.insert(&l) };
                    out.push((i, sym));
                }
                out
            }));
        }
        let mut per_thread: Vec<Vec<Option<Symbol>>> = Vec::new();
        for h in handles {
            match h.join() {
                Ok(v) => {
                    let mut row: Vec<Option<Symbol>> = vec![None; names.len()];
                    for (i, s) in v {
                        row[i] = Some(s);
                    }
                    per_thread.push(row);
                }
                Err(_) => problems.push(format!("round {round}: a thread panicked inside SymbolTable::insert")),
            }
        }
        ninserts += names.len() * threads;
        if per_thread.is_empty() {
            continue;
        }
        // reference: what a lookup returns after all threads are done
        let finals: Vec<Option<Symbol>> =
            names.iter().map(|nm| table.lookup(&Latin1String::from_utf8(nm).unwrap())).collect();
        for i in 0..names.len() {
            let Some(fin) = finals[i].as_ref() else {
                problems.push(format!("round {round}: name {} not in the table after insertion", names[i]));
                continue;
            };
            if fin.name_utf8() != names[i] {
                problems.push(format!("round {round}: lookup of {} returns a symbol named {}", names[i], fin.name_utf8()));
            }
            for (t, row) in per_thread.iter().enumerate() {
                if let Some(s) = row[i].as_ref() {
                    if s != fin {
                        problems.push(format!(
                            "round {round}: thread {t} got a symbol for {} that differs from the table's symbol (two ids for one identifier)",
                            names[i]
                        ));
                    }
                }
            }
        }
        for i in 0..names.len() {
            for j in 0..i {
                if let (Some(a), Some(b)) = (finals[i].as_ref(), finals[j].as_ref()) {
                    let same = norm_key(&names[i]) == norm_key(&names[j]);
                    if same != (a == b) {
                        problems.push(format!(
                            "round {round}: symbols of {} and {} are {} but must be {}",
                            names[i],
                            names[j],
                            if a == b { "equal" } else { "different" },
                            if same { "equal" } else { "different" }
                        ));
                    }
                }
            }
        }
        if problems.len() > 20 {
            break;
        }
    }
    problems.truncate(20);
    json!({"threads": threads, "rounds": rounds, "inserts": ninserts, "problems": problems})
}

/// sequential differential against the Coq model Symtab/Symtab.v: random insertion sequences,
/// output per sequence: for the i-th name the index of the first name that got an equal Symbol
fn symtab_seq(seed: u64, count: usize, cases_path: &str, impl_path: &str) {
    use vhdl_lang::verif::data::{Latin1String, Symbol, SymbolTable};
    let mut rng = Rng::new(seed ^ 0x5E9_5E9);
    let alphabet: [u8; 12] = [b'a', b'A', b'b', b'B', b'z', b'Z', 201, 233, 215, 247, b'_', b'1'];
    let mut cases = std::io::BufWriter::new(std::fs::File::create(cases_path).unwrap());
    let mut out = std::io::BufWriter::new(std::fs::File::create(impl_path).unwrap());
    for _ in 0..count {
        let len = 1 + rng.below(14);
        let mut names: Vec<Vec<u8>> = Vec::new();
        for _ in 0..len {
            if !names.is_empty() && rng.chance(1, 3) {
                // a case variant (or the extended twin) of an earlier name
                let base = names[rng.below(names.len())].clone();
                let mut v: Vec<u8> = base
                    .iter()
                    .map(|&c| {
                        if rng.chance(1, 2) {
                            if c.is_ascii_lowercase() { c.to_ascii_uppercase() } else if c.is_ascii_uppercase() { c.to_ascii_lowercase() } else if c == 201 { 233 } else if c == 233 { 201 } else { c }
                        } else {
                            c
                        }
                    })
                    .collect();
                if rng.chance(1, 5) {
                    if v[0] == b'\\' {
                        v = v[1..v.len() - 1].to_vec();
                        if v.is_empty() {
                            v.push(b'a');
                        }
                    } else {
                        v.insert(0, b'\\');
                        v.push(b'\\');
                    }
                }
                names.push(v);
            } else {
                let l = 1 + rng.below(3);
                let mut v: Vec<u8> = (0..l).map(|_| alphabet[rng.below(alphabet.len())]).collect();
                if rng.chance(1, 3) {
                    v.insert(0, b'\\');
                    v.push(b'\\');
                }
                names.push(v);
            }
        }
        let table = SymbolTable::default();
        let r = std::panic::catch_unwind(std::panic::AssertUnwindSafe(|| {
            let mut syms: Vec<Symbol> = Vec::new();
            for n in &names {
                let l = Latin1String::new(n);
                syms.push(if n[0] == b'\\' { table.insert_extended(&l) } else { table.insert(&l) });
            }
            let mut cls: Vec<String> = Vec::new();
            for i in 0..syms.len() {
                let first = (0..syms.len()).find(|&j| syms[j] == syms[i]).unwrap();
                cls.push(first.to_string());
            }
            cls.join(" ")
        }));
        let line: Vec<String> =
            names.iter().map(|n| n.iter().map(|b| b.to_string()).collect::<Vec<_>>().join(" ")).collect();
        writeln!(cases, "S {}", line.join(";")).unwrap();
        writeln!(out, "{}", r.unwrap_or_else(|_| "PANIC".to_string())).unwrap();
    }
}

fn main() {
    let args: Vec<String> = std::env::args().collect();
    std::panic::set_hook(Box::new(|_| {}));
    match args.get(1).map(|s| s.as_str()) {
        Some("gen") => {
            let seed: u64 = args[2].parse().unwrap();
            let count: usize = args[3].parse().unwrap();
            let maxunits: usize = args[4].parse().unwrap();
            let mut out = std::io::BufWriter::new(std::fs::File::create(&args[5]).unwrap());
            let mut rng = Rng::new(seed.wrapping_mul(0xC04).wrapping_add(4));
            for id in 0..count {
                let mut r = rng.fork();
                let c = gen_case(&mut r, id, maxunits);
                writeln!(out, "{c}").unwrap();
            }
        }
        Some("run") => {
            let text = std::fs::read_to_string(&args[2]).unwrap();
            let workdir = PathBuf::from(&args[3]);
            let orders: usize = args[4].parse().unwrap();
            let seed: u64 = args[5].parse().unwrap();
            let from_case: usize = args.get(6).map(|x| x.parse().unwrap()).unwrap_or(0);
            let from_order: usize = args.get(7).map(|x| x.parse().unwrap()).unwrap_or(0);
            std::fs::create_dir_all(&workdir).unwrap();
            let out = std::io::stdout();
            for (ci, line) in text.lines().enumerate() {
                if line.trim().is_empty() || ci < from_case {
                    continue;
                }
                let case: Value = serde_json::from_str(line).unwrap();
                for k in 0..orders {
                    if ci == from_case && k < from_order {
                        continue;
                    }
                    {
                        let mut o = out.lock();
                        writeln!(o, "BEGIN {ci} {k}").unwrap();
                        o.flush().unwrap();
                    }
                    let v = run_case(&case, &workdir, k, seed, false);
                    let mut o = out.lock();
                    writeln!(o, "END {ci} {k} {v}").unwrap();
                    o.flush().unwrap();
                }
            }
        }
        Some("one") => {
            let text = std::fs::read_to_string(&args[2]).unwrap();
            let case: Value = serde_json::from_str(text.lines().next().unwrap()).unwrap();
            let workdir = PathBuf::from(&args[3]);
            let k: usize = args[4].parse().unwrap();
            let seed: u64 = args[5].parse().unwrap();
            std::fs::create_dir_all(&workdir).unwrap();
            println!("BEGIN 0 {k}");
            std::io::stdout().flush().unwrap();
            let v = run_case(&case, &workdir, k, seed, true);
            println!("END 0 {k} {v}");
        }
        Some("symseq") => {
            let seed: u64 = args[2].parse().unwrap();
            let count: usize = args[3].parse().unwrap();
            symtab_seq(seed, count, &args[4], &args[5]);
        }
        Some("symtab") => {
            let seed: u64 = args[2].parse().unwrap();
            let rounds: usize = args[3].parse().unwrap();
            for t in args[4].split(',') {
                let threads: usize = t.parse().unwrap();
                println!("{}", symtab_stress(seed, rounds, threads));
            }
        }
        _ => {
            eprintln!("usage: c04 gen|run|one|symtab ...");
            std::process::exit(2);
        }
    }
}
