//! C17 harness: concrete syntax trees of vhdl_syntax are lossless, tree edits are local.
//!
//! usage: c17 <mode> <seed> <n> <cases_out> <impl_out>
//!   mode = exhaustive<k> | random | file:<path> | deep:<n>[:<k>/<m>] | limit[:<k>/<m>] | api | runs
//!          (file: one input per line, bytes in decimal, or a descriptor `@deep:<shape>:<n>:<c|u>`;
//!           deep:<n>: every nesting shape of DEEP_SHAPES at depth n, closed and unclosed, each in a child
//!           process whose worker thread has a 2 MiB stack, so that a stack overflow (process abort) is observed: flag A)
//!
//! cases_out: one case per line  `bytes|tree|repl`
//!   bytes = the input, decimal, space separated
//!   tree  = pre-order events of the implementation's tree: `S<kind>` node start, `T` token, `E` node end
//!           (empty when the parser panicked)
//!   repl  = replacement requests `index:hextext|-:trivia|-` (token index in textual order; new text or `-` = keep;
//!           new leading trivia in the notation of the token dumps or `-` = keep), comma separated
//! impl_out: per case  `flags|raw|stream|offsets|errors|identity|repl|panic`  (panic = location and message of the first panic)
//!   flags    = letters of violated oracle clauses (see `oracle`), `-` if none
//!   raw      = tokens of `bytes.tokenize()`:            `kind,texthex,trivia,err` joined by `;`
//!   stream   = tokens of `TokenStream::from(bytes)` (after merge_bit_string_literals), same format
//!   offsets  = red tree in pre-order: `offset:len` for every node and token
//!   errors   = `start-end:K` for every SyntaxErr (K: s b x c = unterminated string / based literal /
//!              extended identifier / block comment, i = illegal input, E = expected, O = unexpected)
//!   identity = `len:hash` of rewrite(Leave) and of TokenRewriter(Keep), comma separated
//!   repl     = per request `len:hash,len:hash` (TokenRewriter Replace, Rewriter Change)
//! The extracted Coq model (ocaml/c17_run.ml) prints the same fields from the same case line.
use std::fmt::Write as _;
use std::io::Write as _;
use std::panic::{catch_unwind, AssertUnwindSafe};
use verif_harness::rng::Rng;
use vhdl_syntax::parser::error::{SyntaxErr, SyntaxErrKind};
use vhdl_syntax::syntax::child::Child;
use vhdl_syntax::syntax::node::{SyntaxElement, SyntaxNode, SyntaxToken};
use vhdl_syntax::syntax::rewrite::{RewriteAction, TokenRewrite, TokenRewriteAction, TokenRewriter};
use vhdl_syntax::syntax::AstNode;
use vhdl_syntax::tokens::tokenizer::{LexErr, LexErrKind, LexErrPos, Tokenize, UnterminatedKind};
use vhdl_syntax::tokens::trivia_piece::Comment;
use vhdl_syntax::tokens::{Token, TokenKind, TokenStream, Trivia, TriviaPiece};

static LAST_PANIC: std::sync::Mutex<String> = std::sync::Mutex::new(String::new());

fn take_panic() -> String {
    let mut g = LAST_PANIC.lock().unwrap_or_else(|e| e.into_inner());
    std::mem::take(&mut *g)
}

fn hex(bs: &[u8]) -> String {
    let mut s = String::with_capacity(bs.len() * 2);
    for b in bs {
        write!(s, "{:02x}", b).unwrap();
    }
    s
}

fn unhex(s: &str) -> Vec<u8> {
    (0..s.len() / 2).map(|i| u8::from_str_radix(&s[2 * i..2 * i + 2], 16).unwrap()).collect()
}

fn dec(bs: &[u8]) -> String {
    let mut s = String::with_capacity(bs.len() * 4);
    for (i, b) in bs.iter().enumerate() {
        if i > 0 {
            s.push(' ');
        }
        write!(s, "{}", b).unwrap();
    }
    s
}

/// `len:hash` with hash = fold (h*31 + b + 1) mod 2^30
fn digest(bs: &[u8]) -> String {
    let mut h: u64 = 7;
    for b in bs {
        h = (h * 31 + *b as u64 + 1) & 0x3FFF_FFFF;
    }
    format!("{}:{}", bs.len(), h)
}

fn kind_name(k: TokenKind) -> String {
    match k {
        TokenKind::Keyword(kw) => format!("K:{}", String::from_utf8_lossy(kw.canonical_text().as_bytes())),
        other => format!("{:?}", other),
    }
}

fn piece_str(p: &TriviaPiece) -> String {
    match p {
        TriviaPiece::HorizontalTabs(n) => format!("H{}", n),
        TriviaPiece::VerticalTabs(n) => format!("V{}", n),
        TriviaPiece::CarriageReturns(n) => format!("R{}", n),
        TriviaPiece::CarriageReturnLineFeeds(n) => format!("W{}", n),
        TriviaPiece::LineFeeds(n) => format!("L{}", n),
        TriviaPiece::FormFeeds(n) => format!("F{}", n),
        TriviaPiece::Spaces(n) => format!("S{}", n),
        TriviaPiece::NonBreakingSpaces(n) => format!("N{}", n),
        TriviaPiece::LineComment(c) => format!("c{}", hex(c.as_bytes())),
        TriviaPiece::BlockComment(c) => format!("b{}", hex(c.as_bytes())),
        // `UnterminatedBlockComment` (repair of F10) is recognised through Debug so that this harness also builds
        // against a tree without that variant
        other => {
            let d = format!("{:?}", other);
            let mut w = Vec::new();
            other.write_to(&mut w).unwrap();
            if d.starts_with("UnterminatedBlockComment") {
                format!("u{}", hex(&w[2.min(w.len())..]))
            } else {
                format!("?{}", hex(&w))
            }
        }
    }
}

fn err_kind_char(k: &LexErrKind) -> char {
    match k {
        LexErrKind::Unterminated(UnterminatedKind::StringLiteral) => 's',
        LexErrKind::Unterminated(UnterminatedKind::BasedLiteral) => 'b',
        LexErrKind::Unterminated(UnterminatedKind::ExtendedIdentifier) => 'x',
        LexErrKind::Unterminated(UnterminatedKind::BlockComment) => 'c',
        LexErrKind::IllegalInput => 'i',
    }
}

fn tok_str(t: &Token, e: &Option<LexErr>) -> String {
    let triv: Vec<String> = t.leading_trivia().iter().map(piece_str).collect();
    let err = match e {
        None => "-".to_string(),
        Some(le) => match le.pos {
            LexErrPos::Token => format!("T{}", err_kind_char(&le.err)),
            LexErrPos::Trivia(i) => format!("V{}{}", i, err_kind_char(&le.err)),
        },
    };
    format!("{},{},{},{}", kind_name(t.kind()), hex(t.text().as_bytes()), triv.join("."), err)
}

fn toks_str(ts: &[(Token, Option<LexErr>)]) -> String {
    ts.iter().map(|(t, e)| tok_str(t, e)).collect::<Vec<_>>().join(";")
}

fn err_str(e: &SyntaxErr) -> String {
    let k = match e.err() {
        SyntaxErrKind::Unterminated(UnterminatedKind::StringLiteral) => 's',
        SyntaxErrKind::Unterminated(UnterminatedKind::BasedLiteral) => 'b',
        SyntaxErrKind::Unterminated(UnterminatedKind::ExtendedIdentifier) => 'x',
        SyntaxErrKind::Unterminated(UnterminatedKind::BlockComment) => 'c',
        SyntaxErrKind::Unexpected(TokenKind::Unknown) => 'i',
        SyntaxErrKind::Expected(_) => 'E',
        SyntaxErrKind::Unexpected(_) => 'O',
    };
    format!("{}-{}:{}", e.span().start, e.span().end, k)
}

struct Walk<'a> {
    input: &'a [u8],
    events: String,
    offsets: String,
    leaves: Vec<SyntaxToken>,
    tile_bad: bool,
    slice_bad: bool,
    depth: usize,
    max_depth: usize,
    nodes: Vec<SyntaxNode>,
    elements: Vec<SyntaxElement>,
    nav_bad: bool,
    nav: bool,
}

impl<'a> Walk<'a> {
    fn slice_eq(&self, start: usize, len: usize, bytes: &[u8]) -> bool {
        start.checked_add(len).map_or(false, |e| e <= self.input.len() && &self.input[start..e] == bytes)
    }
    fn node(&mut self, n: &SyntaxNode) {
        self.depth += 1;
        self.max_depth = self.max_depth.max(self.depth);
        write!(self.events, "S{} ", n.kind() as u32).unwrap();
        write!(self.offsets, "{}:{};", n.offset(), n.byte_len()).unwrap();
        let mut out = Vec::new();
        n.write_to(&mut out).unwrap();
        if out.len() != n.byte_len() || !self.slice_eq(n.offset(), n.byte_len(), &out) {
            self.slice_bad = true;
        }
        if self.nav {
            self.nodes.push(n.clone());
            self.elements.push(SyntaxElement::Node(n.clone()));
            if !nav_node_ok(n) {
                self.nav_bad = true;
            }
        }
        let mut run = n.offset();
        for ch in n.children_with_tokens() {
            match ch {
                Child::Node(c) => {
                    if c.offset() != run {
                        self.tile_bad = true;
                    }
                    run += c.byte_len();
                    self.node(&c);
                }
                Child::Token(t) => {
                    if t.offset() != run {
                        self.tile_bad = true;
                    }
                    run += t.byte_len();
                    self.events.push_str("T ");
                    write!(self.offsets, "{}:{};", t.offset(), t.byte_len()).unwrap();
                    let mut out = Vec::new();
                    t.write_to(&mut out).unwrap();
                    if out.len() != t.byte_len() || !self.slice_eq(t.offset(), t.byte_len(), &out) {
                        self.slice_bad = true;
                    }
                    let tr = t.text_range();
                    if !(tr.start <= tr.end && self.slice_eq(tr.start, tr.end - tr.start, t.text().as_bytes())) {
                        self.slice_bad = true;
                    }
                    if self.nav {
                        self.elements.push(SyntaxElement::Token(t.clone()));
                    }
                    self.leaves.push(t);
                }
            }
        }
        if run != n.offset() + n.byte_len() {
            self.tile_bad = true;
        }
        self.events.push_str("E ");
        self.depth -= 1;
    }
}

/// Navigation API of a node against the positions in its children_with_tokens() list (independent of
/// next_sibling & co): children see this node as parent, and their sibling / nth / first / last accessors agree
/// with their place in the list.
fn nav_node_ok(p: &SyntaxNode) -> bool {
    let cs: Vec<SyntaxElement> = p.children_with_tokens().collect();
    let node_list: Vec<SyntaxNode> = cs.iter().filter_map(|c| c.as_node()).collect();
    let mut ok = true;
    ok &= p.children().collect::<Vec<_>>() == node_list;
    ok &= p.tokens().collect::<Vec<_>>() == cs.iter().filter_map(|c| c.as_token()).collect::<Vec<_>>();
    ok &= p.first_child() == node_list.first().cloned();
    ok &= p.first_child_or_token() == cs.first().cloned();
    ok &= p.last_child_or_token() == cs.last().cloned();
    ok &= p.nth_child(node_list.len()).is_none() && p.nth_child_or_token(cs.len()).is_none();
    let mut j = 0usize;
    for (i, c) in cs.iter().enumerate() {
        ok &= p.nth_child_or_token(i).as_ref() == Some(c);
        ok &= c.parent().as_ref() == Some(p);
        let prev = if i == 0 { None } else { Some(cs[i - 1].clone()) };
        let next = cs.get(i + 1).cloned();
        ok &= c.next_sibling_or_token() == next;
        match c {
            SyntaxElement::Node(n) => {
                ok &= p.nth_child(j).as_ref() == Some(n);
                ok &= n.prev_sibling() == prev;
                ok &= n.next_sibling() == node_list.get(j + 1).cloned();
                ok &= n.ancestors().nth(1).as_ref() == Some(p);
                j += 1;
            }
            SyntaxElement::Token(t) => {
                ok &= t.prev_sibling_or_token() == prev;
                ok &= t.is_first_sibling() == (i == 0) && t.is_last_sibling() == (i + 1 == cs.len());
                ok &= t.ancestors().next().as_ref() == Some(p);
            }
        }
    }
    ok
}

/// Traversals from the root against the independent recursive walk: Preorder (= AstNode::walk) enters exactly the
/// nodes, PreorderWithTokens exactly the nodes and tokens, in textual order, every Enter is matched by a Leave;
/// the first_token/next_token and last_token/prev_token chains enumerate exactly the leaves.
fn nav_root_ok(root: &SyntaxNode, w: &Walk) -> bool {
    use vhdl_syntax::syntax::visitor::{Preorder, PreorderWithTokens, WalkEvent};
    let mut ok = true;
    let mut entered = Vec::new();
    let mut left = 0usize;
    for ev in Preorder::new(root.clone()) {
        match ev {
            WalkEvent::Enter(n) => entered.push(n),
            WalkEvent::Leave(_) => left += 1,
        }
    }
    ok &= entered == w.nodes && left == w.nodes.len();
    let mut entered = Vec::new();
    let mut left = 0usize;
    for ev in PreorderWithTokens::new(root.clone()) {
        match ev {
            WalkEvent::Enter(e) => entered.push(e),
            WalkEvent::Leave(_) => left += 1,
        }
    }
    ok &= entered == w.elements && left == w.elements.len();
    // token chains
    let mut chain = Vec::new();
    let mut cur = root.first_token();
    while let Some(t) = cur {
        if chain.len() > w.leaves.len() {
            break;
        }
        cur = t.next_token();
        chain.push(t);
    }
    ok &= chain == w.leaves;
    let mut chain = Vec::new();
    let mut cur = root.last_token();
    while let Some(t) = cur {
        if chain.len() > w.leaves.len() {
            break;
        }
        cur = t.prev_token();
        chain.push(t);
    }
    chain.reverse();
    ok &= chain == w.leaves;
    // every node: first_token / last_token are the first / last leaf inside its range
    for n in &w.nodes {
        let inside: Vec<&SyntaxToken> = w.leaves.iter().filter(|l| l.offset() >= n.offset() && l.offset() + l.byte_len() <= n.offset() + n.byte_len()).collect();
        if n.byte_len() > 0 && w.nodes.len() <= 400 {
            ok &= n.first_token().map(|t| t.offset()) == inside.first().map(|t| t.offset());
            ok &= n.last_token().map(|t| t.offset() + t.byte_len()) == inside.last().map(|t| t.offset() + t.byte_len());
        }
    }
    ok
}

/// Every public entry point of the crate on the same bytes: all must give the reference token sequence
/// (`bytes.tokenize()` / `TokenStream::from(&[u8])`) resp. a tree identical to `parse(&[u8])`.
/// The `&str` / `String` paths are driven when the bytes are valid UTF-8.
fn entry_points_ok(input: &[u8], raw: &[(Token, Option<LexErr>)], stream: &[(Token, Option<LexErr>)], root: &SyntaxNode, nerrs: &[String], full: bool) -> bool {
    use vhdl_syntax::latin_1::{Latin1Str, Latin1String};
    use vhdl_syntax::standard::VHDLStandard;
    use vhdl_syntax::tokens::Tokenizer;
    fn same(a: &[(Token, Option<LexErr>)], b: &[(Token, Option<LexErr>)]) -> bool {
        a.len() == b.len()
            && a.iter().zip(b.iter()).all(|((t, e), (u, f))| {
                t == u
                    && match (e, f) {
                        (None, None) => true,
                        (Some(x), Some(y)) => err_kind_char(&x.err) == err_kind_char(&y.err) && format!("{:?}", x.pos) == format!("{:?}", y.pos),
                        _ => false,
                    }
            })
    }
    let tree_same = |r: (vhdl_syntax::syntax::DesignFileSyntax, Vec<SyntaxErr>)| -> bool {
        r.0.raw() == *root && printed(&r.0.raw()) == input && r.1.iter().map(err_str).collect::<Vec<_>>() == nerrs
    };
    let mut ok = true;
    let text = std::str::from_utf8(input).ok();
    if let Some(t) = text {
        ok &= tree_same(vhdl_syntax::parser::parse(t));
        ok &= same(&TokenStream::from(t).collect::<Vec<_>>(), stream);
    }
    if !full {
        return ok;
    }
    // tokenizers
    ok &= same(&input.to_vec().tokenize().collect::<Vec<_>>(), raw);
    ok &= same(&Tokenizer::new(input.iter().copied()).collect::<Vec<_>>(), raw);
    ok &= same(&Tokenizer::from(input.to_vec()).collect::<Vec<_>>(), raw);
    ok &= same(&Tokenizer::with_standard(VHDLStandard::default(), input.iter().copied()).collect::<Vec<_>>(), raw);
    ok &= same(&Latin1Str::new(input).tokenize().collect::<Vec<_>>(), raw);
    ok &= same(&Latin1String::from(input).tokenize().collect::<Vec<_>>(), raw);
    // token streams
    ok &= same(&TokenStream::from(input.to_vec()).collect::<Vec<_>>(), stream);
    ok &= same(&input.tokenize().collect::<TokenStream>().collect::<Vec<_>>(), stream);
    // parsers
    ok &= tree_same(vhdl_syntax::parser::parse(input.to_vec()));
    ok &= tree_same(vhdl_syntax::parser::parse_with_standard(VHDLStandard::default(), input.iter().copied()));
    ok &= tree_same(vhdl_syntax::parser::parse(input.tokenize().collect::<TokenStream>()));
    if let Some(t) = text {
        ok &= same(&t.tokenize().collect::<Vec<_>>(), raw);
        ok &= same(&t.to_string().tokenize().collect::<Vec<_>>(), raw);
        ok &= same(&TokenStream::from(t.to_string()).collect::<Vec<_>>(), stream);
        ok &= tree_same(vhdl_syntax::parser::parse(t.to_string()));
        ok &= tree_same(vhdl_syntax::parser::parse_with_standard(VHDLStandard::default(), t.bytes()));
    }
    ok
}

/// Every printing API on the tree against the input and against the cached lengths: write_to of every trivia piece,
/// trivia and token (lengths = byte_len), and for ASCII inputs display() / to_string() of root, nodes and tokens
/// (display transcodes Latin-1 to UTF-8, so it is byte-identical to write_to exactly on ASCII text).
fn printing_ok(input: &[u8], root: &SyntaxNode, w: &Walk) -> bool {
    use vhdl_syntax::fmt::write::FormatToExt;
    let mut ok = true;
    for l in &w.leaves {
        let tok = l.token();
        let mut tv = Vec::new();
        tok.leading_trivia().write_to(&mut tv).unwrap();
        ok &= tv.len() == tok.leading_trivia().byte_len();
        let mut sum = 0usize;
        for p in tok.leading_trivia().iter() {
            let mut pv = Vec::new();
            p.write_to(&mut pv).unwrap();
            ok &= pv.len() == p.byte_len();
            sum += pv.len();
        }
        ok &= sum == tv.len();
        let mut t1 = Vec::new();
        tok.write_to(&mut t1).unwrap();
        ok &= t1.len() == tok.byte_len() && l.offset() + t1.len() <= input.len() && input[l.offset()..l.offset() + t1.len()] == t1[..];
    }
    if input.is_ascii() {
        ok &= root.display().to_string().as_bytes() == input;
        ok &= format!("{}", root.display()).len() == root.byte_len();
        // (per token only up to 20000 tokens: the deep inputs have 10^5..10^6)
        for l in w.leaves.iter().take(20000) {
            let r = l.range();
            ok &= r.end <= input.len() && l.display().to_string().as_bytes() == &input[r.clone()];
            ok &= l.token().display().to_string().as_bytes() == &input[r];
        }
        for n in w.nodes.iter().take(200) {
            let r = n.range();
            ok &= r.end <= input.len() && n.display().to_string().as_bytes() == &input[r];
        }
    }
    ok
}

struct Keep;
impl TokenRewrite for Keep {
    fn token(&mut self, _t: &SyntaxToken) -> TokenRewriteAction {
        TokenRewriteAction::Keep
    }
}

struct ReplaceNth<'a> {
    n: usize,
    target: usize,
    make: &'a dyn Fn(&SyntaxToken) -> SyntaxToken,
}
impl<'a> TokenRewrite for ReplaceNth<'a> {
    fn token(&mut self, t: &SyntaxToken) -> TokenRewriteAction {
        let k = self.n;
        self.n += 1;
        if k == self.target {
            TokenRewriteAction::Replace((self.make)(t))
        } else {
            TokenRewriteAction::Keep
        }
    }
}

/// trivia in the notation of `piece_str`, pieces joined by `.`
fn parse_trivia(spec: &str) -> Trivia {
    let mut v = Vec::new();
    for p in spec.split('.').filter(|x| !x.is_empty()) {
        let (c, rest) = p.split_at(1);
        let n = || rest.parse::<usize>().unwrap();
        v.push(match c {
            "H" => TriviaPiece::HorizontalTabs(n()),
            "V" => TriviaPiece::VerticalTabs(n()),
            "R" => TriviaPiece::CarriageReturns(n()),
            "W" => TriviaPiece::CarriageReturnLineFeeds(n()),
            "L" => TriviaPiece::LineFeeds(n()),
            "F" => TriviaPiece::FormFeeds(n()),
            "S" => TriviaPiece::Spaces(n()),
            "N" => TriviaPiece::NonBreakingSpaces(n()),
            "c" => TriviaPiece::LineComment(Comment::new(unhex(rest))),
            "b" => TriviaPiece::BlockComment(Comment::new(unhex(rest))),
            _ => panic!("bad trivia piece {}", p),
        });
    }
    Trivia::from(v)
}

fn printed(n: &SyntaxNode) -> Vec<u8> {
    let mut out = Vec::new();
    n.write_to(&mut out).unwrap();
    out
}

const REPL_TEXTS: [&[u8]; 4] = [b"zz", b"", b"\"a b\"", b"Q_9\xe9"];
/// replacement trivia (see `parse_trivia`): none, one space, newline + indentation, a line comment, a block comment, CRLF + tab
const REPL_TRIVIA: [&str; 6] = ["", "S1", "L1.S2", "S1.c2078.L1", "b2078.S1", "W1.H1"];

/// Runs the implementation on one input; returns (case line, impl line).
/// Inputs above this size are not run through the extracted model (quadratic list model): their token and
/// offset dumps are replaced by `BIG`; the oracle is evaluated in full.
const BIG: usize = 5000;

fn run_case(input: &[u8], rng: &mut Rng, fixed_repl: Option<&str>, label: Option<&str>, expect_clean: bool) -> (String, String) {
    let big = input.len() > BIG;
    let force_full = label.is_some();
    let mut flags = String::new();
    take_panic();
    let t0 = std::time::Instant::now();
    let timing = std::env::var("C17_TIMING").is_ok();
    macro_rules! lap { ($n:expr) => { if timing { eprintln!("{} {:?}", $n, t0.elapsed()); } } }
    // ---- tokenizer ----
    let inp = input.to_vec();
    let raw = catch_unwind(AssertUnwindSafe(|| inp.as_slice().tokenize().collect::<Vec<_>>()));
    let raw_s = match &raw {
        Ok(ts) => {
            let mut out = Vec::new();
            let mut sum = 0usize;
            for (t, _) in ts {
                t.write_to(&mut out).unwrap();
                sum += t.byte_len();
            }
            if out != input || sum != input.len() {
                flags.push('T');
            }
            if big { "BIG".to_string() } else { toks_str(ts) }
        }
        Err(_) => {
            flags.push('T');
            "PANIC".to_string()
        }
    };
    let stream = catch_unwind(AssertUnwindSafe(|| TokenStream::from(inp.as_slice()).collect::<Vec<_>>()));
    let stream_s = match &stream {
        Ok(ts) => if big { "BIG".to_string() } else { toks_str(ts) },
        Err(_) => {
            flags.push('T');
            "PANIC".to_string()
        }
    };
    lap!("tokenized");
    // ---- parser ----
    let parsed = catch_unwind(AssertUnwindSafe(|| vhdl_syntax::parser::parse(inp.as_slice())));
    let mut events = String::new();
    let mut offsets = String::new();
    let mut errors = String::new();
    let mut identity = String::new();
    let mut repl_req = String::new();
    let mut repl_res = String::new();
    match parsed {
        Err(_) => flags.push('P'),
        Ok((file, errs)) => {
            lap!("parsed");
            let root = file.raw();
            if printed(&root) != input {
                flags.push('L');
            }
            if root.byte_len() != input.len() || root.offset() != 0 {
                flags.push('B');
            }
            let mut w = Walk { input, events: String::new(), offsets: String::new(), leaves: vec![], tile_bad: false, slice_bad: false, depth: 0, max_depth: 0, nodes: vec![], elements: vec![], nav_bad: false, nav: false };
            w.nav = !big;
            if catch_unwind(AssertUnwindSafe(|| w.node(&root))).is_err() {
                flags.push('O');
            }
            if !big {
                // (for AstNode::walk: the same Preorder over file.raw())
                let walk_count = file.walk().filter(|e| matches!(e, vhdl_syntax::syntax::visitor::WalkEvent::Enter(_))).count();
                let nav_ok = catch_unwind(AssertUnwindSafe(|| nav_root_ok(&root, &w))).unwrap_or(false);
                if w.nav_bad || !nav_ok || walk_count != w.nodes.len() {
                    flags.push('N');
                }
            } else {
                // big inputs: the node pre-order only (the per-element accessors are linear in the sibling count, so
                // Preorder is quadratic in the number of siblings: skipped when a node has very many node children)
                let mut count = 0usize;
                let mut cost = 0usize;
                fn count_nodes(n: &SyntaxNode, c: &mut usize, cost: &mut usize) {
                    *c += 1;
                    let mut all = 0usize;
                    let mut nodes = 0usize;
                    for ch in n.children_with_tokens() {
                        all += 1;
                        if let Child::Node(ch) = ch {
                            nodes += 1;
                            count_nodes(&ch, c, cost);
                        }
                    }
                    *cost = cost.saturating_add(all.saturating_mul(nodes));
                }
                count_nodes(&root, &mut count, &mut cost);
                if cost <= 20_000_000 {
                    let walk_count = file.walk().filter(|e| matches!(e, vhdl_syntax::syntax::visitor::WalkEvent::Enter(_))).count();
                    if walk_count != count {
                        flags.push('N');
                    }
                }
            }
            if w.tile_bad {
                flags.push('O');
            }
            if w.slice_bad {
                flags.push('D');
            }
            events = if big { "BIG".to_string() } else { w.events.trim_end().to_string() };
            offsets = if big { "BIG".to_string() } else { w.offsets.trim_end_matches(';').to_string() };
            // every printing API, every entry point
            if !catch_unwind(AssertUnwindSafe(|| printing_ok(input, &root, &w))).unwrap_or(false) {
                flags.push('Y');
            }
            if let (Ok(rt), Ok(st)) = (&raw, &stream) {
                let full = !big && (input.len() <= 200 || input.len() % 4 == 0 || force_full);
                let nerrs: Vec<String> = errs.iter().map(err_str).collect();
                if !catch_unwind(AssertUnwindSafe(|| entry_points_ok(input, rt, st, &root, &nerrs, full))).unwrap_or(false) {
                    flags.push('U');
                }
            }
            lap!("walked");
            // leaf sequence = token stream
            if let Ok(ts) = &stream {
                let same = ts.len() == w.leaves.len() && ts.iter().zip(w.leaves.iter()).all(|((t, _), l)| t == l.token());
                if !same {
                    flags.push('S');
                }
            }
            // error spans
            let mut es = Vec::new();
            for e in &errs {
                if !(e.span().start <= e.span().end && e.span().end <= input.len()) {
                    if !flags.contains('E') {
                        flags.push('E');
                    }
                }
                es.push(err_str(e));
            }
            if expect_clean && !errs.is_empty() {
                flags.push('V');
            }
            if big && es.len() > 40 {
                let n = es.len();
                es.truncate(40);
                es.push(format!("...{}", n));
            }
            // error spans are aligned with the tokens: Unexpected(..) and token-level lexer errors cover token text
            // (from the text start of a token to the text end of a token), Expected(..) is an empty span at a token
            // boundary, an unterminated block comment lies inside the leading trivia of one token
            {
                use std::collections::HashSet;
                let mut starts: HashSet<usize> = HashSet::new();
                let mut ends: HashSet<usize> = HashSet::new();
                let mut bounds: HashSet<usize> = HashSet::new();
                bounds.insert(input.len());
                for l in &w.leaves {
                    let tr = l.text_range();
                    starts.insert(tr.start);
                    ends.insert(tr.end);
                    bounds.insert(l.offset());
                }
                let mut misaligned = false;
                for e in &errs {
                    let (a, b) = (e.span().start, e.span().end);
                    let ok = match e.err() {
                        SyntaxErrKind::Expected(_) => a == b && bounds.contains(&a),
                        SyntaxErrKind::Unterminated(UnterminatedKind::BlockComment) => {
                            w.leaves.iter().any(|l| l.offset() <= a && a <= b && b <= l.text_range().start)
                        }
                        _ => starts.contains(&a) && a <= b && (ends.contains(&b) || a == b),
                    };
                    if !ok {
                        misaligned = true;
                    }
                }
                if misaligned {
                    flags.push('X');
                }
            }
            errors = es.join(";");
            lap!("errors");
            // identity rewrites
            let r1 = catch_unwind(AssertUnwindSafe(|| root.rewrite(|_| RewriteAction::Leave)));
            match &r1 {
                Ok(n) => {
                    if *n != root {
                        flags.push('R');
                    }
                    identity.push_str(&digest(&printed(n)));
                }
                Err(_) => {
                    flags.push('R');
                    identity.push_str("PANIC");
                }
            }
            identity.push(',');
            let r2 = catch_unwind(AssertUnwindSafe(|| TokenRewriter::new(Keep).rewrite(root.clone())));
            match &r2 {
                Ok(n) => {
                    if *n != root {
                        flags.push('K');
                    }
                    identity.push_str(&digest(&printed(n)));
                }
                Err(_) => {
                    flags.push('K');
                    identity.push_str("PANIC");
                }
            }
            lap!("identity");
            // single-token replacements: the text only (clone_with_text), the leading trivia only
            // (clone_with_leading_trivia) or both, through both rewriting interfaces
            let nt = w.leaves.len();
            // (token index, new text or None = keep, new trivia spec or None = keep)
            // how: c = clone_with_text / clone_with_leading_trivia; s = Token::clone + set_leading_trivia + clone_with_token
            // (trivia requests); n = Token::new(kind, text, trivia) + clone_with_token
            let mut reqs: Vec<(usize, Option<Vec<u8>>, Option<String>, char)> = Vec::new();
            if let Some(f) = fixed_repl {
                for r in f.split(',').filter(|x| !x.is_empty()) {
                    let p: Vec<&str> = r.split(':').collect();
                    let idx = p[0].parse().unwrap();
                    if p.len() == 2 {
                        reqs.push((idx, Some(unhex(p[1])), None, 'c'));
                    } else {
                        let how = p.get(3).and_then(|h| h.chars().next()).unwrap_or('c');
                        reqs.push((idx, if p[1] == "-" { None } else { Some(unhex(p[1])) }, if p[2] == "-" { None } else { Some(p[2].to_string()) }, how));
                    }
                }
            } else if nt > 0 {
                let mut idx: Vec<usize> = if nt <= 6 { (0..nt).collect() } else if big { vec![nt - 1] } else { vec![0, nt - 1, nt - 2] };
                if nt > 6 {
                    for _ in 0..(if big { 1 } else { 3 }) {
                        idx.push(rng.below(nt));
                    }
                }
                for (k, i) in idx.into_iter().enumerate() {
                    // the first request of every input is a trivia-only change
                    let mode = if k == 0 { 1 } else { rng.below(3) };
                    let text = if mode != 1 { Some(REPL_TEXTS[rng.below(REPL_TEXTS.len())].to_vec()) } else { None };
                    let triv = if mode != 0 { Some(REPL_TRIVIA[rng.below(REPL_TRIVIA.len())].to_string()) } else { None };
                    // every public way to make the replacement token, in turn
                    let how = ['c', 's', 'n'][(k + rng.below(3)) % 3];
                    reqs.push((i, text, triv, how));
                }
            }
            let mut rq = Vec::new();
            let mut rs = Vec::new();
            let mut local_bad = false;
            for (k, (i, text, triv, how)) in reqs.iter().enumerate() {
                rq.push(format!("{}:{}:{}:{}", i, text.as_ref().map(|t| if t.is_empty() { "".to_string() } else { hex(t) }).unwrap_or_else(|| "-".to_string()), triv.clone().unwrap_or_else(|| "-".to_string()), how));
                if *i >= nt {
                    rs.push("-,-".to_string());
                    continue;
                }
                // expected: only the bytes of this token change: [offset, text start) is its leading trivia,
                // [text start, end) its text
                let tok = &w.leaves[*i];
                let tr = tok.text_range();
                let off = tok.offset();
                let new_trivia: Option<Trivia> = triv.as_ref().map(|t| parse_trivia(t));
                let expected: Option<Vec<u8>> = if off <= tr.start && tr.start <= tr.end && tr.end <= input.len() {
                    let mut v = input[..off].to_vec();
                    match &new_trivia {
                        Some(t) => t.write_to(&mut v).unwrap(),
                        None => v.extend_from_slice(&input[off..tr.start]),
                    }
                    match text {
                        Some(t) => v.extend_from_slice(t),
                        None => v.extend_from_slice(&input[tr.start..tr.end]),
                    }
                    v.extend_from_slice(&input[tr.end..]);
                    Some(v)
                } else {
                    None
                };
                let make = |t: &SyntaxToken| -> SyntaxToken {
                    match how {
                        // a copy of the original token, modified in place by the public setter
                        's' => {
                            let mut tk: Token = match text {
                                Some(x) => Token::new(t.kind(), x.as_slice(), t.leading_trivia().clone()),
                                None => t.token().clone(),
                            };
                            if let Some(tv) = &new_trivia {
                                tk.set_leading_trivia(tv.clone());
                            }
                            t.clone_with_token(tk)
                        }
                        // a freshly constructed token
                        'n' => {
                            let tv = new_trivia.clone().unwrap_or_else(|| t.leading_trivia().clone());
                            let tk = match text {
                                Some(x) => Token::new(t.kind(), x.as_slice(), tv),
                                None => Token::new(t.kind(), t.text(), tv),
                            };
                            t.clone_with_token(tk)
                        }
                        _ => {
                            let t1 = match text {
                                Some(x) => t.clone_with_text(x.as_slice()),
                                None => t.clone(),
                            };
                            match &new_trivia {
                                Some(tv) => t1.clone_with_leading_trivia(tv.clone()),
                                None => t1,
                            }
                        }
                    }
                };
                let a = catch_unwind(AssertUnwindSafe(|| {
                    TokenRewriter::new(ReplaceNth { n: 0, target: *i, make: &make }).rewrite(root.clone())
                }));
                let b = catch_unwind(AssertUnwindSafe(|| {
                    let mut n = 0usize;
                    root.rewrite(|el| match el {
                        SyntaxElement::Token(t) => {
                            let k = n;
                            n += 1;
                            if k == *i {
                                RewriteAction::Change(SyntaxElement::Token(make(t)))
                            } else {
                                RewriteAction::Leave
                            }
                        }
                        SyntaxElement::Node(_) => RewriteAction::Leave,
                    })
                }));
                let mut one = Vec::new();
                for r in [&a, &b] {
                    match r {
                        Ok(nr) => {
                            let v = printed(nr);
                            if expected.as_ref() != Some(&v) || nr.byte_len() != v.len() {
                                local_bad = true;
                            }
                            // offsets of the new tree tile the new text (every request of short inputs, else the first)
                            if (k == 0 || input.len() <= 300) && !big {
                                let mut w2 = Walk { input: &v, events: String::new(), offsets: String::new(), leaves: vec![], tile_bad: false, slice_bad: false, depth: 0, max_depth: 0, nodes: vec![], elements: vec![], nav_bad: false, nav: false };
                                if catch_unwind(AssertUnwindSafe(|| w2.node(nr))).is_err() || w2.tile_bad || w2.slice_bad {
                                    local_bad = true;
                                }
                            }
                            one.push(digest(&v));
                        }
                        Err(_) => {
                            local_bad = true;
                            one.push("PANIC".to_string());
                        }
                    }
                }
                rs.push(one.join(","));
            }
            if local_bad {
                flags.push('C');
            }
            lap!("replaced");
            repl_req = rq.join(",");
            repl_res = rs.join(";");
        }
    }
    if flags.is_empty() {
        flags.push('-');
    }
    (
        // big generated inputs are named by their descriptor, everything else is written out
        format!("{}|{}|{}", label.filter(|_| big).map(|l| l.to_string()).unwrap_or_else(|| dec(input)), events, repl_req),
        format!("{}|{}|{}|{}|{}|{}|{}|{}", flags, raw_s, stream_s, offsets, errors, identity, repl_res, take_panic()),
    )
}

// ------------------------------------------------------------------------------------------------
// generators
// ------------------------------------------------------------------------------------------------
const ALPHABET: &[u8] = &[
    b'/', b'*', b'-', b'\'', b'"', b'\\', b'#', b':', b'.', b'e', b'1', b'x', b'_', b' ', b'\r', b'\n', 0xA0, 0xFF, b'b', b'=', b'(', b';',
];

const WORDS: &[&[u8]] = &[
    b"entity", b"is", b"end", b"(", b")", b";", b":", b"'", b"\"", b"--", b"/*", b"*/", b"`", b"begin", b"process", b"<=", b":=",
    b"package", b"body", b"architecture", b"of", b"use", b"library", b"context", b".", b"all", b"x\"", b"1e", b"16#", b"#", b"\\",
    b"generate", b"for", b"if", b"then", b"case", b"when", b"=>", b"|", b"component", b"port", b"generic", b"map", b"function",
    b"return", b"procedure", b"type", b"record", b"range", b"to", b"\xe2\x82\xac", b"\xff", b"\r", b"\n", b"\t", b" ", b"protected",
    b"view", b"<<", b">>", b"@", b"^", b"?", b"??", b"?=", b"?/=", b"abs", b"not", b"new", b"null", b"others", b"open", b"with",
    b"select", b"block", b"configuration", b"assert", b"report", b"wait", b"until", b"loop", b"while", b"file", b"alias",
    b"attribute", b"signal", b"variable", b"constant", b"subtype", b"array", b"access", b"units", b"\x00", b"\xa0", b"\x0b", b"\x0c",
    b"group", b"a", b"b", b"work", b"e", b"t", b"0", b"1", b"12", b"1.5", b"1e3", b"2#1#", b"16:ff:", b"1:", b"ub\"01\"", b"10ub\"0\"",
    b"'a'", b"'", b"''", b"\"s\"", b"\"", b"\\x\\", b"?<", b"?<=", b"?>", b"?>=", b"/=", b"**", b"*", b"/", b"+", b"-", b"&", b",",
    b"<", b">", b"<>", b">=", b"=", b"[", b"]", b"$", b"_", b"\r\n", b"-- c\n", b"/* c */", b"disconnect", b"force", b"release",
    b"private", b"vpgk", b"vpkg", b"assume_guarantee", b"restrict_guarantee", b"vunit",
];

const DECL: &str = "package p is\n  constant c : integer := ";
const DECL_END: &str = ";\nend package;\n";
const PROCESS: &str = "entity e is\nend;\n\narchitecture a of e is\nbegin\n  process\n  begin\n";
const PROCESS_END: &str = "  end process;\nend architecture;\n";
const ARCH: &str = "entity e is\nend;\n\narchitecture a of e is\nbegin\n";
const ARCH_END: &str = "end architecture;\n";
/// (name, prefix, opens one level, innermost text, closes one level, suffix, the closed form is valid VHDL)
const DEEP_SHAPES: &[(&str, &str, &str, &str, &str, &str, bool)] = &[
    ("bare parentheses", "", "(", "", ")", "", false),
    ("parenthesized expression", DECL, "(", "1", ")", DECL_END, true),
    ("aggregate", DECL, "(others => ", "0", ")", DECL_END, true),
    ("indexed name / call a(b(b(", "package p is\n  constant c : integer := a(", "b(", "1", ")", ");\nend package;\n", true),
    ("qualified expression", DECL, "t'(", "1", ")", DECL_END, true),
    ("unary not", DECL, "not ", "a", "", DECL_END, true),
    ("unary minus", DECL, "- ", "1", "", DECL_END, true),
    ("external name in external name", DECL, "<< signal .g(", "1", ").s : bit >>", DECL_END, true),
    ("array/record constraint", "package p is\n  subtype s is t", "(a", "(0 to 1)", ")", DECL_END, true),
    ("record aggregate by name", DECL, "(f => ", "0", ")", DECL_END, true),
    ("subprogram body", "package body p is\n", "function f return integer is\n", "", "begin\n  return 0;\nend function;\n", "end package body;\n", true),
    ("nested package", "package p is\n", "package q is\n", "", "end package;\n", "end package;\n", false),
    ("nested package body", "package body p is\n", "package body q is\n", "", "end package body;\n", "end package body;\n", false),
    ("if statement", PROCESS, "if a then\n", "null;\n", "end if;\n", PROCESS_END, true),
    ("case statement", PROCESS, "case a is\nwhen others =>\n", "null;\n", "end case;\n", PROCESS_END, true),
    ("loop statement", PROCESS, "loop\n", "null;\n", "end loop;\n", PROCESS_END, true),
    ("block statement", ARCH, "b : block\nbegin\n", "", "end block;\n", ARCH_END, true),
    ("if generate", ARCH, "g : if c generate\n", "", "end generate;\n", ARCH_END, true),
    ("for generate", ARCH, "g : for i in 0 to 1 generate\n", "", "end generate;\n", ARCH_END, true),
    ("case generate", ARCH, "g : case c generate\nwhen others =>\n", "", "end generate;\n", ARCH_END, true),
];

fn deep_input(shape: usize, n: usize, closed: bool) -> Vec<u8> {
    let (_, prefix, open, inner, close, suffix, _) = DEEP_SHAPES[shape];
    let mut s = String::from(prefix);
    s.push_str(&open.repeat(n));
    if closed {
        s.push_str(inner);
        s.push_str(&close.repeat(n));
        s.push_str(suffix);
    }
    s.into_bytes()
}

/// Sweep across the parser's limit of open nodes: every nesting level on its own line, preceded by a comment
/// line and indentation (long leading trivia before the token that opens the level), unclosed, cut right
/// after level n, followed by a short tail (or with the last one or two bytes cut off).
const LIMIT_TAILS: &[&str] = &["", " ", "\n1", "<cut1>", "<cut2>"];
fn limit_input(shape: usize, n: usize, tail: usize) -> Vec<u8> {
    let (_, prefix, open, _, _, _, _) = DEEP_SHAPES[shape];
    let mut s = String::from(prefix);
    for i in 0..n {
        s.push_str(&format!("\n-- nesting level {} of the sweep across the limit of open nodes\n", i));
        s.push_str(&" ".repeat(2 * (i % 24)));
        s.push_str(open.trim_end_matches('\n'));
    }
    let mut b = s.into_bytes();
    match LIMIT_TAILS[tail] {
        "<cut1>" => {
            b.pop();
        }
        "<cut2>" => {
            b.pop();
            b.pop();
        }
        t => b.extend_from_slice(t.as_bytes()),
    }
    b
}

/// Long runs of every whitespace trivia kind (run lengths around the powers of two up to 65537), alone and mixed,
/// between tokens, at the start and at the end of the file.
const RUN_LENGTHS: &[usize] = &[0, 1, 2, 7, 8, 9, 15, 16, 17, 31, 32, 33, 63, 64, 65, 127, 128, 129, 255, 256, 257, 1000, 4097, 65537];
const RUN_KINDS: usize = 10;
const RUN_PLACEMENTS: usize = 5;
fn runs_input(kind: usize, len: usize, placement: usize) -> Vec<u8> {
    let unit: &[&[u8]] = match kind {
        0 => &[b" "],
        1 => &[b"\t"],
        2 => &[b"\n"],
        3 => &[b"\r"],
        4 => &[b"\r\n"],
        5 => &[b"\x0c"],
        6 => &[b"\x0b"],
        7 => &[b"\xa0"],
        8 => &[b"\r\n", b" "],
        _ => &[b" ", b"\n", b"\t", b"\r\n", b"\r"],
    };
    let mut run = Vec::new();
    for u in unit {
        for _ in 0..len {
            run.extend_from_slice(u);
        }
    }
    let mut s = Vec::new();
    match placement {
        0 => s.extend_from_slice(&run),
        1 => {
            s.extend_from_slice(b"a");
            s.extend_from_slice(&run);
            s.extend_from_slice(b"b");
        }
        2 => {
            s.extend_from_slice(&run);
            s.extend_from_slice(b"a");
        }
        3 => {
            s.extend_from_slice(b"a");
            s.extend_from_slice(&run);
        }
        _ => {
            s.extend_from_slice(b"entity e is");
            s.extend_from_slice(&run);
            s.extend_from_slice(b"-- c\n");
            s.extend_from_slice(&run);
            s.extend_from_slice(b"end;");
            s.extend_from_slice(&run);
        }
    }
    s
}

/// `@deep:<shape>:<n>:<c|u>` / `@limit:<shape>:<n>:<tail>` / `@runs:<kind>:<len>:<placement>` -> (input, no syntax error expected)
fn parse_descriptor(d: &str) -> Option<(Vec<u8>, bool)> {
    let p: Vec<&str> = d.split(':').collect();
    if p.len() == 4 && p[0] == "@runs" {
        let kind: usize = p[1].parse().ok()?;
        let len: usize = p[2].parse().ok()?;
        let pl: usize = p[3].parse().ok()?;
        if kind >= RUN_KINDS || pl >= RUN_PLACEMENTS {
            return None;
        }
        return Some((runs_input(kind, len, pl), false));
    }
    if p.len() == 4 && p[0] == "@limit" {
        let shape: usize = p[1].parse().ok()?;
        let n: usize = p[2].parse().ok()?;
        let tail: usize = p[3].parse().ok()?;
        if shape >= DEEP_SHAPES.len() || tail >= LIMIT_TAILS.len() {
            return None;
        }
        return Some((limit_input(shape, n, tail), false));
    }
    if p.len() != 4 || p[0] != "@deep" {
        return None;
    }
    let shape: usize = p[1].parse().ok()?;
    let n: usize = p[2].parse().ok()?;
    if shape >= DEEP_SHAPES.len() {
        return None;
    }
    let closed = p[3] == "c";
    Some((deep_input(shape, n, closed), closed && DEEP_SHAPES[shape].6 && n <= 50))
}

/// Runs one descriptor case in a child process whose worker thread has a 2 MiB stack: a stack overflow aborts
/// the child only and is reported as flag `A`.  Returns (case line, impl line), each with its newline.
fn run_in_child(d: &str, seed: u64, cases_path: &str) -> (String, String) {
    let exe = std::env::current_exe().unwrap();
    let tmp = format!("{}.child", cases_path);
    std::fs::write(format!("{}.in", tmp), format!("{}\n", d)).unwrap();
    let st = std::process::Command::new(&exe)
        .args([&format!("file:{}.in", tmp), &seed.to_string(), "0", &format!("{}.cases", tmp), &format!("{}.impl", tmp)])
        .env("C17_STACK", (2usize << 20).to_string())
        .env("C17_CHILD", "1")
        .stderr(std::process::Stdio::null())
        .status();
    let ok = matches!(&st, Ok(x) if x.success());
    let (c, i) = if ok {
        (std::fs::read_to_string(format!("{}.cases", tmp)).unwrap_or_default(), std::fs::read_to_string(format!("{}.impl", tmp)).unwrap_or_default())
    } else {
        (String::new(), String::new())
    };
    for ext in ["in", "cases", "impl"] {
        let _ = std::fs::remove_file(format!("{}.{}", tmp, ext));
    }
    if ok && c.lines().count() == 1 && i.lines().count() == 1 {
        (c, i)
    } else {
        let first = d.split('|').next().unwrap_or(d);
        let small = parse_descriptor(first).map(|x| x.0).unwrap_or_default();
        (
            format!("{}||\n", if small.len() > BIG { first.to_string() } else { dec(&small) }),
            format!("A|BIG|BIG|||||child process died on a 2 MiB stack: {:?}\n", st.map(|x| x.to_string())),
        )
    }
}

// ------------------------------------------------------------------------------------------------
// api stream: every public way to construct or modify tokens and nodes outside the parser
// (Token::new, Token::set_leading_trivia, the builder domain types' with_trivia, the generated builders'
// with_<token>(..) / with_<token>_trivia(..) setters, composite builders = NodeBuilder::push_node)
// ------------------------------------------------------------------------------------------------
const API_CASES: usize = 14;

fn api_build(k: usize, tv: Trivia) -> Result<SyntaxNode, (usize, Vec<u8>)> {
    use vhdl_syntax::builder::{AbstractLiteral, BitStringLiteral, CharLiteral, Identifier, StringLiteral};
    use vhdl_syntax::syntax::*;
    use vhdl_syntax::tokens::Keyword as Kw;
    let tok_check = |t: Token| -> Result<SyntaxNode, (usize, Vec<u8>)> {
        let mut out = Vec::new();
        t.write_to(&mut out).unwrap();
        Err((t.byte_len(), out))
    };
    match k {
        0 => Ok(EntityDeclarationPreambleBuilder::new(Identifier::from(b"e").with_trivia(tv)).build().raw()),
        1 => Ok(EntityDeclarationPreambleBuilder::new(Identifier::from(b"e"))
            .with_entity_token_trivia(tv.clone())
            .with_name_token_trivia(tv.clone())
            .with_is_token_trivia(tv)
            .build()
            .raw()),
        2 => Ok(ArchitectureEpilogueBuilder::new().with_end_token_trivia(tv.clone()).with_semi_colon_token_trivia(tv).build().raw()),
        3 => Ok(ArchitectureEpilogueBuilder::new()
            .with_architecture_token(Token::new(TokenKind::Keyword(Kw::Architecture), b"architecture", tv.clone()))
            .with_identifier_token(Identifier::from(b"a").with_trivia(tv.clone()))
            .with_identifier_token_trivia(tv)
            .build()
            .raw()),
        4 => Ok(LabelBuilder::new(Identifier::from(b"l")).with_identifier_token_trivia(tv.clone()).with_colon_token_trivia(tv).build().raw()),
        5 => Ok(PackageBodyPreambleBuilder::new(Identifier::from(b"p")).with_body_token_trivia(tv.clone()).with_package_token_trivia(tv).build().raw()),
        6 => Ok(ProcessEpilogueBuilder::new().with_process_token_trivia(tv.clone()).with_end_token_trivia(tv).build().raw()),
        7 => Ok(OthersChoiceBuilder::new().with_others_token_trivia(tv).build().raw()),
        // composite builders: children are pushed as green nodes
        8 => Ok(EntityDeclarationBuilder::new(EntityDeclarationPreambleBuilder::new(Identifier::from(b"e").with_trivia(tv.clone())).with_is_token_trivia(tv))
            .build()
            .raw()),
        9 => Ok(EntityDeclarationBuilder::new(EntityDeclarationPreambleBuilder::new(Identifier::from(b"e")))
            .with_entity_declaration_epilogue(EntityDeclarationEpilogueBuilder::new().with_end_token_trivia(tv.clone()).with_semi_colon_token_trivia(tv))
            .build()
            .raw()),
        // tokens
        10 => tok_check(Token::from(StringLiteral::new("s").with_trivia(tv))),
        11 => tok_check(Token::from(CharLiteral::new(b'a').with_trivia(tv.clone()))).or_else(|a| {
            let b = tok_check(Token::from(AbstractLiteral::integer(12).with_trivia(tv.clone()))).unwrap_err();
            let c = tok_check(Token::from(BitStringLiteral::hex(b"ff").with_trivia(tv.clone()))).unwrap_err();
            Err((a.0 + b.0 + c.0, [a.1, b.1, c.1].concat()))
        }),
        12 => {
            let mut t = Token::new(TokenKind::Identifier, b"x", Trivia::from(vec![TriviaPiece::Spaces(3)]));
            t.set_leading_trivia(tv);
            tok_check(t)
        }
        _ => {
            // a token whose trivia were set twice, then put into a node
            let mut t = Token::new(TokenKind::Keyword(Kw::End), b"end", Trivia::from(vec![TriviaPiece::LineFeeds(2)]));
            t.set_leading_trivia(Trivia::new());
            t.set_leading_trivia(tv);
            Ok(ArchitectureEpilogueBuilder::new().with_end_token(t).build().raw())
        }
    }
}

/// Oracle for a constructed node / token: cached lengths equal printed lengths, offsets tile, every element
/// is the slice of the printed text at its range, the requested trivia are printed.
fn run_api_case(k: usize, t: usize) -> (String, String) {
    take_panic();
    let spec = REPL_TRIVIA[t];
    let tv = parse_trivia(spec);
    let mut tvb = Vec::new();
    tv.write_to(&mut tvb).unwrap();
    let mut flags = String::new();
    let mut detail = String::new();
    match catch_unwind(AssertUnwindSafe(|| api_build(k, tv))) {
        Err(_) => flags.push('P'),
        Ok(Err((len, bytes))) => {
            if len != bytes.len() {
                flags.push('B');
            }
            if !bytes.windows(tvb.len().max(1)).any(|w| w == tvb.as_slice()) && !tvb.is_empty() {
                flags.push('L');
            }
            detail = format!("byte_len={} printed={}", len, hex(&bytes));
        }
        Ok(Ok(root)) => {
            let v = printed(&root);
            if root.byte_len() != v.len() || root.offset() != 0 {
                flags.push('B');
            }
            let mut w = Walk { input: &v, events: String::new(), offsets: String::new(), leaves: vec![], tile_bad: false, slice_bad: false, depth: 0, max_depth: 0, nodes: vec![], elements: vec![], nav_bad: false, nav: false };
            if catch_unwind(AssertUnwindSafe(|| w.node(&root))).is_err() || w.tile_bad {
                flags.push('O');
            }
            if w.slice_bad {
                flags.push('D');
            }
            if !tvb.is_empty() && !v.windows(tvb.len()).any(|x| x == tvb.as_slice()) {
                flags.push('L');
            }
            // identity rewrites of a built tree
            if root.rewrite(|_| RewriteAction::Leave) != root {
                flags.push('R');
            }
            if TokenRewriter::new(Keep).rewrite(root.clone()) != root {
                flags.push('K');
            }
            detail = format!("byte_len={} printed={}", root.byte_len(), hex(&v));
        }
    }
    if flags.is_empty() {
        flags.push('-');
    }
    (format!("@api:{}:{}||", k, t), format!("{}|BIG|BIG||{}|||{}", flags, detail, take_panic()))
}

fn library_files() -> Vec<Vec<u8>> {
    let mut out = Vec::new();
    let mut dirs = vec![std::path::PathBuf::from("/repo/vhdl_libraries")];
    let mut paths = Vec::new();
    while let Some(d) = dirs.pop() {
        if let Ok(rd) = std::fs::read_dir(&d) {
            for e in rd.flatten() {
                let p = e.path();
                if p.is_dir() {
                    dirs.push(p);
                } else if p.extension().map_or(false, |x| x == "vhd" || x == "vhdl") {
                    paths.push(p);
                }
            }
        }
    }
    paths.sort();
    for p in paths {
        if let Ok(b) = std::fs::read(&p) {
            if !b.is_empty() {
                out.push(b);
            }
        }
    }
    out
}

fn gen_random(rng: &mut Rng, corpus: &[Vec<u8>]) -> Vec<u8> {
    let mut s = gen_random_plain(rng, corpus);
    // byte order marks and NUL in front of / inside the text
    if rng.chance(1, 40) {
        const MARKS: &[&[u8]] = &[b"\xef\xbb\xbf", b"\xfe\xff", b"\xff\xfe", b"\x00", b"\xef\xbb\xbf\xef\xbb\xbf"];
        let m: &[u8] = *rng.pick(MARKS);
        let pos = if rng.chance(2, 3) || s.is_empty() { 0 } else { rng.below(s.len()) };
        s.splice(pos..pos, m.to_vec());
    }
    s
}

fn gen_random_plain(rng: &mut Rng, corpus: &[Vec<u8>]) -> Vec<u8> {
    match rng.below(10) {
        // arbitrary bytes
        0 => {
            let n = rng.below(24);
            (0..n).map(|_| rng.below(256) as u8).collect()
        }
        // strings over the small alphabet
        1 | 2 => {
            let n = 4 + rng.below(12);
            (0..n).map(|_| *rng.pick(ALPHABET)).collect()
        }
        // token soups
        3 | 4 | 5 => {
            let n = 1 + rng.below(14);
            let mut s = Vec::new();
            for _ in 0..n {
                let w: &[u8] = *rng.pick(WORDS); s.extend_from_slice(w);
                if rng.chance(2, 3) {
                    s.push(b' ');
                }
            }
            s
        }
        // mutated slices of the bundled libraries
        _ => {
            if corpus.is_empty() {
                return b"entity e is end;".to_vec();
            }
            let base = rng.pick(corpus);
            let start = rng.below(base.len());
            let maxlen = if rng.chance(1, 8) { 1500 } else { 300 };
            let len = 20 + rng.below(maxlen);
            let end = (start + len).min(base.len());
            let mut s = base[start..end].to_vec();
            let muts = rng.below(6);
            for _ in 0..muts {
                if s.is_empty() {
                    break;
                }
                let pos = rng.below(s.len());
                match rng.below(5) {
                    0 => {
                        let l = rng.below(20).min(s.len() - pos);
                        s.drain(pos..pos + l);
                    }
                    1 => {
                        let w: &[u8] = *rng.pick(WORDS);
                        let mut ins = vec![b' '];
                        ins.extend_from_slice(w);
                        ins.push(b' ');
                        s.splice(pos..pos, ins);
                    }
                    2 => {
                        let w: &[u8] = *rng.pick(WORDS);
                        s.splice(pos..pos, w.to_vec());
                    }
                    3 => {
                        s[pos] = rng.below(256) as u8;
                    }
                    _ => s.truncate(pos),
                }
            }
            s
        }
    }
}

fn emit_to(cases: &mut impl std::io::Write, imp: &mut impl std::io::Write, input: &[u8], rng: &mut Rng, fixed: Option<&str>, label: Option<&str>, clean: bool) {
    let (c, i) = run_case(input, rng, fixed, label, clean);
    writeln!(cases, "{}", c).unwrap();
    writeln!(imp, "{}", i).unwrap();
}

fn main() {
    let args: Vec<String> = std::env::args().collect();
    if args.len() < 6 {
        eprintln!("usage: c17 <mode> <seed> <n> <cases_out> <impl_out>");
        std::process::exit(2);
    }
    let mode = args[1].clone();
    let seed: u64 = args[2].parse().unwrap();
    let n: usize = args[3].parse().unwrap();
    let cases_path = args[4].clone();
    let impl_path = args[5].clone();
    std::panic::set_hook(Box::new(|info| {
        let loc = info.location().map(|l| format!("{}:{}", l.file(), l.line())).unwrap_or_default();
        let msg = if let Some(s) = info.payload().downcast_ref::<&str>() {
            s.to_string()
        } else if let Some(s) = info.payload().downcast_ref::<String>() {
            s.clone()
        } else {
            String::new()
        };
        // call site inside the parser productions (first such frame), for precise known-finding matching
        let bt = std::backtrace::Backtrace::force_capture().to_string();
        let site = bt
            .lines()
            .filter_map(|l| l.find("productions::").map(|i| &l[i..]))
            .next()
            .map(|l| l.split("::").filter(|p| !p.starts_with('<') && !p.starts_with("impl") && !p.contains('>')).collect::<Vec<_>>().join("::"))
            .unwrap_or_default();
        let text: String = format!("{} {} site={}", loc, msg, site).chars().map(|c| if c == '|' || c == '\n' || c == '\r' { ' ' } else { c }).take(300).collect();
        let mut g = LAST_PANIC.lock().unwrap_or_else(|e| e.into_inner());
        if g.is_empty() {
            *g = text;
        }
    }));
    // deep recursive-descent on nested input: give the worker a large stack
    let child = std::thread::Builder::new()
        .stack_size(std::env::var("C17_STACK").ok().and_then(|x| x.parse().ok()).unwrap_or(1 << 30))
        .spawn(move || {
            let mut cases = std::io::BufWriter::new(std::fs::File::create(&cases_path).unwrap());
            let mut imp = std::io::BufWriter::new(std::fs::File::create(&impl_path).unwrap());
            // The shared SplitMix64 seeds consecutive integers one step apart (state = seed*gamma + c), so that
            // the streams of seeds s and s+1 overlap; start from a mixed output instead.
            let mut seeder = Rng::new(seed ^ 0xC17);
            seeder.next();
            let mut rng = Rng(seeder.next() ^ seed.rotate_left(32));
            if let Some(path) = mode.strip_prefix("file:") {
                let text = std::fs::read_to_string(path).unwrap();
                for line in text.lines() {
                    let line = line.trim_end();
                    if line.starts_with('#') {
                        continue;
                    }
                    // `bytes` or a full case line `bytes|tree|repl` (replay): the requests are reused
                    let mut parts = line.split('|');
                    let b = parts.next().unwrap_or("");
                    let _tree = parts.next();
                    let repl = parts.next();
                    if let Some(rest) = b.strip_prefix("@api:") {
                        let (k, t) = rest.split_once(':').unwrap();
                        let (c, i) = run_api_case(k.parse().unwrap(), t.parse().unwrap());
                        writeln!(cases, "{}", c).unwrap();
                        writeln!(imp, "{}", i).unwrap();
                        continue;
                    }
                    if b.starts_with('@') && std::env::var("C17_CHILD").is_err() {
                        let (c, i) = run_in_child(line, seed, &cases_path);
                        write!(cases, "{}", c).unwrap();
                        write!(imp, "{}", i).unwrap();
                        continue;
                    }
                    if b.starts_with('@') {
                        match parse_descriptor(b) {
                            Some((bytes, clean)) => emit_to(&mut cases, &mut imp, &bytes, &mut rng, repl, Some(b), clean),
                            None => panic!("bad descriptor {}", b),
                        }
                        continue;
                    }
                    let bytes: Vec<u8> = b.split(' ').filter(|x| !x.is_empty()).map(|x| x.parse::<u16>().unwrap() as u8).collect();
                    emit_to(&mut cases, &mut imp, &bytes, &mut rng, repl, None, false);
                }
            } else if let Some(k) = mode.strip_prefix("exhaustive") {
                let k: usize = k.parse().unwrap();
                let a = ALPHABET.len();
                for len in 0..=k {
                    let total = a.pow(len as u32);
                    for mut x in 0..total {
                        let mut s = Vec::with_capacity(len);
                        for _ in 0..len {
                            s.push(ALPHABET[x % a]);
                            x /= a;
                        }
                        emit_to(&mut cases, &mut imp, &s, &mut rng, None, None, false);
                    }
                }
            } else if mode == "runs" {
                for kind in 0..RUN_KINDS {
                    for &len in RUN_LENGTHS {
                        for pl in 0..RUN_PLACEMENTS {
                            let d = format!("@runs:{}:{}:{}", kind, len, pl);
                            let inp = runs_input(kind, len, pl);
                            emit_to(&mut cases, &mut imp, &inp, &mut rng, None, Some(&d), false);
                        }
                    }
                }
            } else if mode == "api" {
                for k in 0..API_CASES {
                    for t in 0..REPL_TRIVIA.len() {
                        let (c, i) = run_api_case(k, t);
                        writeln!(cases, "{}", c).unwrap();
                        writeln!(imp, "{}", i).unwrap();
                    }
                }
            } else if let Some(part) = mode.strip_prefix("limit") {
                // limit or limit:<k>/<m> (only the shapes with index % m == k)
                let (pk, pm) = part.strip_prefix(':').and_then(|x| x.split_once('/')).map(|(a, b)| (a.parse::<usize>().unwrap(), b.parse::<usize>().unwrap())).unwrap_or((0, 1));
                // for every nesting shape: the smallest number of levels at which the tree reaches the limit of
                // open nodes (binary search on the depth of the parsed tree), then every level count around it
                for shape in (0..DEEP_SHAPES.len()).filter(|x| x % pm == pk) {
                    let depth_of = |n: usize| -> usize {
                        let inp = limit_input(shape, n, 0);
                        catch_unwind(AssertUnwindSafe(|| {
                            let (file, _) = vhdl_syntax::parser::parse(inp.as_slice());
                            let root = file.raw();
                            let mut w = Walk { input: &inp, events: String::new(), offsets: String::new(), leaves: vec![], tile_bad: false, slice_bad: false, depth: 0, max_depth: 0, nodes: vec![], elements: vec![], nav_bad: false, nav: false };
                            w.node(&root);
                            w.max_depth
                        }))
                        .unwrap_or(usize::MAX)
                    };
                    let (mut lo, mut hi) = (1usize, 1400usize);
                    if depth_of(hi) < 1020 {
                        continue;
                    }
                    while lo < hi {
                        let mid = (lo + hi) / 2;
                        if depth_of(mid) >= 1020 {
                            hi = mid;
                        } else {
                            lo = mid + 1;
                        }
                    }
                    for n in lo.saturating_sub(2)..=lo + 4 {
                        for tail in 0..LIMIT_TAILS.len() {
                            let d = format!("@limit:{}:{}:{}", shape, n, tail);
                            let inp = limit_input(shape, n, tail);
                            emit_to(&mut cases, &mut imp, &inp, &mut rng, None, Some(&d), false);
                        }
                    }
                }
            } else if let Some(n) = mode.strip_prefix("deep:") {
                // one child process per case: a stack overflow aborts the child only
                // deep:<n> or deep:<n>:<k>/<m> (only the shapes with index % m == k)
                let (n, part) = n.split_once(':').unwrap_or((n, "0/1"));
                let n: usize = n.parse().unwrap();
                let (k, m) = part.split_once('/').unwrap();
                let (k, m): (usize, usize) = (k.parse().unwrap(), m.parse().unwrap());
                for shape in (0..DEEP_SHAPES.len()).filter(|x| x % m == k) {
                    for closed in [true, false] {
                        let d = format!("@deep:{}:{}:{}", shape, n, if closed { "c" } else { "u" });
                        let (c, i) = run_in_child(&d, seed, &cases_path);
                        write!(cases, "{}", c).unwrap();
                        write!(imp, "{}", i).unwrap();
                    }
                }
            } else {
                let corpus = library_files();
                for _ in 0..n {
                    let s = gen_random(&mut rng, &corpus);
                    emit_to(&mut cases, &mut imp, &s, &mut rng, None, None, false);
                }
            }
            cases.flush().unwrap();
            imp.flush().unwrap();
        })
        .unwrap();
    if child.join().is_err() {
        std::process::exit(3);
    }
}
