//! diag <dir>: loads <dir>/vhdl_ls.toml (+ std libraries), analyses with all linters, prints diagnostics.
use std::path::Path;
use vhdl_lang::{Config, MessagePrinter, Project};
fn main() {
    let dir = std::env::args().nth(1).unwrap();
    let mut msgs = MessagePrinter::default();
    let mut cfg = Config::default();
    cfg.load_external_config(&mut msgs, Some("/repo/vhdl_libraries".to_string()));
    let c2 = Config::read_file_path(Path::new(&format!("{dir}/vhdl_ls.toml"))).unwrap();
    cfg.append(&c2, &mut msgs);
    let mut p = Project::from_config(cfg, &mut msgs);
    p.enable_all_linters();
    for x in p.analyse() {
        println!("{}:{}:{} {:?} {}", x.pos.source.file_name().display(), x.pos.range.start.line, x.pos.range.start.character, x.code, x.message);
    }
    println!("done");
}
