//! C19 — unused-declaration lint is exact where usage is known.
//!
//! usage:
//!   c19 gen <seed> <first> <nprojects> <groups_per_project> <out.jsonl>   generate marked projects first..first+n
//!   c19 run <projects.jsonl> <workdir> <out.jsonl> <model_cases>     analyse them, extract events
//!   c19 dump <file.vhd>...                                           debugging aid
//!
//! A *project* is a set of unit groups (primary unit + secondary units, each group in its own files) in two
//! libraries `lib` (ordinary) and `tp` (`is_third_party = true`).  The VHDL text carries markers:
//!   @D<id>:<kind>:<parent>:<declby>:<elig>@ident    ident declares entity <id> of the group
//!   @R<id>:<sitekind>@ident                          ident is a reference to entity <id>
//! which are stripped before the text is given to the analyser; their positions are the oracle's
//! knowledge of where declarations and references are.
use serde_json::{json, Value};
use std::collections::{BTreeMap, HashMap};
use std::io::{BufRead, Write};
use std::path::Path;
use vhdl_lang::ast::search::{DeclarationItem, FoundDeclaration, SearchState, Searcher};
use vhdl_lang::{
    AnyEntKind, Config, Design, EntRef, HasEntityId, NullMessages, Overloaded, Project, Reference, Related, Source,
    SrcPos, TokenAccess, Type,
};

#[path = "c19/gen.rs"]
mod gen;

// ------------------------------------------------------------------------------------------------
// markers
// ------------------------------------------------------------------------------------------------
#[derive(Clone, Debug)]
pub struct DeclMark {
    pub id: usize,
    pub kind: String,
    pub parent: Option<usize>,
    pub declby: Option<usize>,
    pub elig: bool,
    pub file: String,
    pub line: u32,
    pub col: u32,
    pub name: String,
    pub order: usize,
}
#[derive(Clone, Debug)]
pub struct RefMark {
    pub id: usize,
    pub site: String,
    pub file: String,
    pub line: u32,
    pub col: u32,
    pub order: usize,
}

fn opt_id(s: &str) -> Option<usize> {
    if s == "-" {
        None
    } else {
        Some(s.parse().expect("marker id"))
    }
}

/// Strips the markers; returns the clean text and the marks with (line, utf16 column) of the identifier after them.
pub fn strip_markers(file: &str, text: &str, order0: usize) -> (String, Vec<DeclMark>, Vec<RefMark>) {
    let mut out = String::with_capacity(text.len());
    let mut decls = vec![];
    let mut refs = vec![];
    let (mut line, mut col) = (0u32, 0u32);
    let chars: Vec<char> = text.chars().collect();
    let mut i = 0;
    let mut order = order0;
    while i < chars.len() {
        let c = chars[i];
        if c == '@' {
            let mut j = i + 1;
            while chars[j] != '@' {
                j += 1;
            }
            let body: String = chars[i + 1..j].iter().collect();
            // identifier after the marker
            let mut k = j + 1;
            let mut name = String::new();
            if k < chars.len() && (chars[k] == '\'' || chars[k] == '"') {
                // character literal or operator symbol
                let q = chars[k];
                name.push(q);
                k += 1;
                while chars[k] != q {
                    name.push(chars[k]);
                    k += 1;
                }
                name.push(q);
            } else {
                while k < chars.len() && (chars[k].is_alphanumeric() || chars[k] == '_') {
                    name.push(chars[k]);
                    k += 1;
                }
            }
            let f: Vec<&str> = body[1..].split(':').collect();
            if body.starts_with('D') {
                decls.push(DeclMark {
                    id: f[0].parse().unwrap(),
                    kind: f[1].to_string(),
                    parent: opt_id(f[2]),
                    declby: opt_id(f[3]),
                    elig: f[4] == "1",
                    file: file.to_string(),
                    line,
                    col,
                    name,
                    order,
                });
            } else {
                refs.push(RefMark { id: f[0].parse().unwrap(), site: f[1].to_string(), file: file.to_string(), line, col, order });
            }
            order += 1;
            i = j + 1;
            continue;
        }
        out.push(c);
        if c == '\n' {
            line += 1;
            col = 0;
        } else {
            col += c.len_utf16() as u32;
        }
        i += 1;
    }
    (out, decls, refs)
}

// ------------------------------------------------------------------------------------------------
// recording searcher: the event list of the real traversal
// ------------------------------------------------------------------------------------------------
#[derive(Clone, Debug)]
enum Ev {
    Ref { file: String, line: u32, col: u32, id: Option<usize> },
    Decl { id: Option<usize>, item: &'static str },
}
#[derive(Default)]
struct Rec {
    units: Vec<(usize, Vec<Ev>)>, // (token-context address, events) : one entry per traversed design unit
}
impl Rec {
    fn cur(&mut self, ctx: &dyn TokenAccess) -> &mut Vec<Ev> {
        let addr = ctx as *const dyn TokenAccess as *const () as usize;
        if self.units.last().map(|u| u.0) != Some(addr) {
            self.units.push((addr, vec![]));
        }
        &mut self.units.last_mut().unwrap().1
    }
}
fn item_name(d: &DeclarationItem<'_>) -> &'static str {
    use DeclarationItem::*;
    match d {
        Object(_) => "Object",
        ElementDeclaration(_) => "ElementDeclaration",
        EnumerationLiteral(..) => "EnumerationLiteral",
        InterfaceObject(_) => "InterfaceObject",
        InterfaceFile(_) => "InterfaceFile",
        File(_) => "File",
        Type(_) => "Type",
        InterfaceType(_) => "InterfaceType",
        InterfacePackage(_) => "InterfacePackage",
        PhysicalTypePrimary(_) => "PhysicalTypePrimary",
        PhysicalTypeSecondary(..) => "PhysicalTypeSecondary",
        Component(_) => "Component",
        Attribute(_) => "Attribute",
        Alias(_) => "Alias",
        SubprogramDecl(_) => "SubprogramDecl",
        ReturnIdentifier(_) => "ReturnIdentifier",
        Subprogram(_) => "Subprogram",
        SubprogramInstantiation(_) => "SubprogramInstantiation",
        Package(_) => "Package",
        PackageBody(_) => "PackageBody",
        PackageInstance(_) => "PackageInstance",
        Configuration(_) => "Configuration",
        Entity(_) => "Entity",
        Architecture(_) => "Architecture",
        Context(_) => "Context",
        ForIndex(..) => "ForIndex",
        ForGenerateIndex(..) => "ForGenerateIndex",
        GenerateBody(_) => "GenerateBody",
        ConcurrentStatement(_) => "ConcurrentStatement",
        SequentialStatement(_) => "SequentialStatement",
        View(_) => "View",
    }
}
impl Searcher for Rec {
    fn search_pos_with_ref(&mut self, ctx: &dyn TokenAccess, pos: &SrcPos, rf: &Reference) -> SearchState {
        let ev = Ev::Ref {
            file: pos.source.file_name().to_string_lossy().to_string(),
            line: pos.range.start.line,
            col: pos.range.start.character,
            id: rf.get().map(|i| i.to_raw()),
        };
        self.cur(ctx).push(ev);
        SearchState::NotFinished
    }
    fn search_decl(&mut self, ctx: &dyn TokenAccess, decl: FoundDeclaration<'_>) -> SearchState {
        let ev = Ev::Decl { id: decl.ent_id().map(|i| i.to_raw()), item: item_name(&decl.ast) };
        self.cur(ctx).push(ev);
        SearchState::NotFinished
    }
}

/// The kind classes of RH.Lint.DeadCode.kind
fn kind_class(ent: EntRef<'_>) -> &'static str {
    match ent.kind() {
        AnyEntKind::Design(Design::Package(..)) => "pkg",
        AnyEntKind::Design(Design::UninstPackage(..)) => "upkg",
        AnyEntKind::Design(_) => "design",
        AnyEntKind::Concurrent(..) => "conc",
        AnyEntKind::Sequential(_) => "seq",
        AnyEntKind::LoopParameter(..) => "loop",
        AnyEntKind::ElementDeclaration(..) => "elem",
        AnyEntKind::Overloaded(Overloaded::EnumLiteral(..)) => "enum",
        AnyEntKind::Overloaded(Overloaded::InterfaceSubprogram(..)) => "isub",
        AnyEntKind::Overloaded(Overloaded::SubprogramDecl(..)) => "sdecl",
        AnyEntKind::Overloaded(_) => "over",
        AnyEntKind::Object(o) => {
            if o.iface.is_some() {
                "iobj"
            } else {
                "obj"
            }
        }
        AnyEntKind::Component(..) => "comp",
        AnyEntKind::Type(Type::Protected(..)) => "prot",
        AnyEntKind::Type(_) => "type",
        _ => "other",
    }
}

struct EntTable<'a> {
    by_raw: HashMap<usize, EntRef<'a>>,
}
impl<'a> EntTable<'a> {
    fn add(&mut self, e: EntRef<'a>) {
        if self.by_raw.insert(e.id().to_raw(), e).is_some() {
            return;
        }
        if let Some(p) = e.parent {
            self.add(p);
        }
        if let Related::DeclaredBy(o) = e.related {
            self.add(o);
        }
    }
}

fn pos_json(p: &SrcPos) -> Value {
    json!([p.source.file_name().to_string_lossy(), p.range.start.line, p.range.start.character])
}

/// Real events of the whole project grouped by design unit; entities referenced by them.
/// Returns JSON: {"units":[{"design":[file,line,col] | null, "events":[...]}], "ents":{raw:{kind,parent,rel,relto,pos}}}
fn real_events(p: &Project, files: &[String]) -> Value {
    let mut rec = Rec::default();
    p.search(&mut rec);
    let mut tab = EntTable { by_raw: HashMap::new() };
    for f in files {
        if let Some(src) = p.get_source(Path::new(f)) {
            for (_pos, ent) in p.find_all_entity_references(&src) {
                tab.add(ent);
            }
        }
    }
    let fileset: std::collections::HashSet<&String> = files.iter().collect();
    let mut units = vec![];
    let mut used: BTreeMap<usize, ()> = BTreeMap::new();
    for (_addr, evs) in rec.units.iter() {
        // a unit belongs to our files if its design-unit declaration is there
        let mut design: Option<&SrcPos> = None;
        let mut ditem: &'static str = "";
        let mut foreign = false;
        for ev in evs {
            if let Ev::Decl { id: Some(raw), item } = ev {
                if matches!(*item, "Entity" | "Architecture" | "Package" | "PackageBody" | "Configuration" | "Context" | "PackageInstance")
                {
                    match tab.by_raw.get(raw).and_then(|e| e.decl_pos.as_ref()) {
                        Some(pos) => {
                            if design.is_none() {
                                design = Some(pos);
                                ditem = *item;
                            }
                        }
                        None => {
                            if design.is_none() {
                                foreign = true;
                            }
                        }
                    }
                    break;
                }
            }
        }
        let design = match design {
            Some(d) if !foreign && fileset.contains(&d.source.file_name().to_string_lossy().to_string()) => d,
            _ => continue,
        };
        let mut jev = vec![];
        for ev in evs {
            match ev {
                Ev::Ref { file, line, col, id } => {
                    if let Some(raw) = id {
                        used.insert(*raw, ());
                    }
                    jev.push(json!({"t":"R","file":file,"line":line,"col":col,"id":id}));
                }
                Ev::Decl { id, item } => {
                    if let Some(raw) = id {
                        used.insert(*raw, ());
                    }
                    jev.push(json!({"t":"D","id":id,"item":item}));
                }
            }
        }
        units.push(json!({"design": pos_json(design), "ditem": ditem, "events": jev}));
    }
    // entity table: everything used + closure over parent / DeclaredBy
    let mut ents = serde_json::Map::new();
    let mut todo: Vec<usize> = used.keys().cloned().collect();
    while let Some(raw) = todo.pop() {
        if ents.contains_key(&raw.to_string()) {
            continue;
        }
        match tab.by_raw.get(&raw) {
            Some(e) => {
                let (rel, relto) = match e.related {
                    Related::DeclaredBy(o) => ("D", Some(o.id().to_raw())),
                    Related::None => ("N", None),
                    _ => ("O", None),
                };
                if let Some(p) = e.parent {
                    todo.push(p.id().to_raw());
                }
                if let Some(r) = relto {
                    todo.push(r);
                }
                ents.insert(
                    raw.to_string(),
                    json!({"kind": kind_class(e), "parent": e.parent.map(|p| p.id().to_raw()), "rel": rel, "relto": relto,
                           "pos": e.decl_pos.as_ref().map(pos_json), "desc": e.describe()}),
                );
            }
            None => {
                ents.insert(raw.to_string(), json!({"kind":"unknown","parent":null,"rel":"N","relto":null,"pos":null,"desc":"?"}));
            }
        }
    }
    json!({"units": units, "ents": ents})
}

fn diags_json(ds: &[vhdl_lang::Diagnostic]) -> Value {
    Value::Array(
        ds.iter()
            .map(|x| {
                json!({"file": x.pos.source.file_name().to_string_lossy(), "l1": x.pos.range.start.line, "c1": x.pos.range.start.character,
                   "l2": x.pos.range.end.line, "c2": x.pos.range.end.character, "code": format!("{:?}", x.code), "msg": x.message})
            })
            .collect(),
    )
}

/// `layered`: an earlier configuration file defines the same libraries with the OPPOSITE is_third_party flags
/// (installation / home / VHDL_LS_CONFIG / project files are merged with Config::append: the last definition decides)
/// `names`: configured spelling of the library with the given role (lib / tp / lib2): mixed and upper case, digits, underscores
fn make_config(
    dir: &str,
    libfiles: &BTreeMap<String, Vec<String>>,
    names: &BTreeMap<String, String>,
    third_party: &dyn Fn(&str) -> bool,
    layered: bool,
) -> Config {
    let mut msgs = NullMessages;
    let mut cfg = Config::default();
    cfg.load_external_config(&mut msgs, Some("/repo/vhdl_libraries".to_string()));
    if layered {
        let mut toml = String::from("[libraries]\n");
        for (lib, files) in libfiles {
            toml.push_str(&format!("{}.files=[{}]\n", names[lib], files.iter().map(|n| format!("'{}'", n)).collect::<Vec<_>>().join(",")));
            if !third_party(lib) {
                toml.push_str(&format!("{}.is_third_party=true\n", names[lib]));
            }
        }
        cfg.append(&Config::from_str(&toml, Path::new(dir)).expect("config"), &mut msgs);
    }
    let mut toml = String::from("[libraries]\n");
    for (lib, files) in libfiles {
        toml.push_str(&format!(
            "{}.files=[{}]\n",
            names[lib],
            files.iter().map(|n| format!("'{}'", n)).collect::<Vec<_>>().join(",")
        ));
        if third_party(lib) {
            toml.push_str(&format!("{}.is_third_party=true\n", names[lib]));
        }
    }
    cfg.append(&Config::from_str(&toml, Path::new(dir)).expect("config"), &mut msgs);
    cfg
}

/// Runs one project: returns {"steps":[{"what":..,"tp":{lib:bool},"diags":[..],"real":{..}}], "marks":{...}}
fn run_project(pj: &Value, workdir: &str) -> Value {
    let pid = pj["id"].as_str().unwrap();
    let dir = format!("{}/{}", workdir, pid);
    let _ = std::fs::remove_dir_all(&dir);
    std::fs::create_dir_all(&dir).unwrap();
    let mut libfiles: BTreeMap<String, Vec<String>> = BTreeMap::new();
    libfiles.insert("lib".into(), vec![]);
    libfiles.insert("tp".into(), vec![]);
    libfiles.insert("lib2".into(), vec![]);
    let layered = pj["layered"].as_bool().unwrap_or(false);
    let mut names: BTreeMap<String, String> = BTreeMap::new();
    for role in ["lib", "tp", "lib2"] {
        names.insert(role.to_string(), pj["libnames"][role].as_str().unwrap_or(role).to_string());
    }
    let cased = !pj["libnames"].is_null();
    let mut nfile = 0usize;
    let mut all_files = vec![];
    let mut marks = vec![]; // per group: {"gid","lib","v0":{decls,refs},"v1":...}
    let mut edits: Vec<(String, String)> = vec![];
    for g in pj["groups"].as_array().unwrap() {
        let lib = g["lib"].as_str().unwrap().to_string();
        let mut gm = json!({"gid": g["gid"], "lib": lib});
        for (ver, key) in [(0, "files"), (1, "edit")] {
            if g[key].is_null() {
                continue;
            }
            let mut per_file = serde_json::Map::new();
            for f in g[key].as_array().unwrap() {
                let name = f[0].as_str().unwrap();
                let path = format!("{}/{}", dir, name);
                // the VHDL text names its own library in another letter case than the configuration does
                let raw = f[1].as_str().unwrap();
                let text = if cased && !raw.trim().is_empty() {
                    nfile += 1;
                    let n = &names[&lib];
                    format!("library {};\n{}", if nfile % 2 == 0 { n.to_lowercase() } else { n.to_uppercase() }, raw)
                } else {
                    raw.to_string()
                };
                let (clean, decls, refs) = strip_markers(&path, &text, 0);
                if ver == 0 {
                    std::fs::write(&path, &clean).unwrap();
                    libfiles.get_mut(&lib).unwrap().push(name.to_string());
                    all_files.push(path.clone());
                } else {
                    edits.push((path.clone(), clean));
                }
                per_file.insert(path, json!({
                    "decls": decls.iter().map(|d| json!({"id":d.id,"kind":d.kind,"parent":d.parent,"declby":d.declby,"elig":d.elig,
                        "line":d.line,"col":d.col,"name":d.name})).collect::<Vec<_>>(),
                    "refs": refs.iter().map(|r| json!({"id":r.id,"site":r.site,"line":r.line,"col":r.col})).collect::<Vec<_>>(),
                }));
            }
            gm[format!("v{}", ver)] = Value::Object(per_file);
        }
        marks.push(gm);
    }
    // two files without generated declarations: a comment-only file and a file whose only design unit is a
    // package nothing depends on (rounds that re-analyse nothing must still report every cached warning)
    let scratch_c = format!("{}/scratch_c.vhd", dir);
    let scratch_u = format!("{}/scratch_u.vhd", dir);
    std::fs::write(&scratch_c, "-- scratch\n").unwrap();
    std::fs::write(&scratch_u, format!("package scr_{} is\nend package;\n", pid)).unwrap();
    libfiles.get_mut("lib").unwrap().push("scratch_c.vhd".into());
    libfiles.get_mut("lib").unwrap().push("scratch_u.vhd".into());
    let mut steps = vec![];
    let mut msgs = NullMessages;
    let cfg = make_config(&dir, &libfiles, &names, &|l| l == "tp", layered);
    let mut p = Project::from_config(cfg, &mut msgs);
    p.enable_unused_declaration_detection();
    let mut edited = false;
    let mut tp = json!({"lib":false,"tp":true,"lib2":false});
    macro_rules! round {
        ($what:expr) => {{
            let d = p.analyse();
            steps.push(json!({"what": $what, "edited": edited, "tp": tp.clone(), "diags": diags_json(&d), "real": real_events(&p, &all_files)}));
        }};
    }
    let touch = |p: &mut Project, path: &str, text: &str| {
        let src = p.get_source(Path::new(path)).unwrap_or_else(|| Source::inline(Path::new(path), text));
        src.change(None, text);
        p.update_source(&src);
    };
    round!("initial");
    // analyse() a second time without any update_source
    round!("noop");
    if !edits.is_empty() {
        for (path, text) in &edits {
            touch(&mut p, path, text);
        }
        edited = true;
        round!("edit");
    }
    // an edit of a file that holds no design unit before and after
    touch(&mut p, &scratch_c, "-- scratch, edited\n-- second line\n");
    round!("comment_edit");
    if pj["flip"].as_bool().unwrap_or(false) {
        let cfg = make_config(&dir, &libfiles, &names, &|l| l == "lib", layered);
        p.update_config(cfg, &mut msgs);
        tp = json!({"lib":true,"tp":false,"lib2":false});
        round!("flip");
    }
    // the only design unit of a file nothing depends on is deleted
    touch(&mut p, &scratch_u, "");
    round!("remove_unit");
    round!("noop");
    let _ = std::fs::remove_dir_all(&dir);
    json!({"id": pid, "dir": dir, "layered": layered, "marks": marks, "steps": steps})
}

fn main() {
    let args: Vec<String> = std::env::args().collect();
    std::panic::set_hook(Box::new(|_| {}));
    match args[1].as_str() {
        "gen" => {
            let seed: u64 = args[2].parse().unwrap();
            let first: usize = args[3].parse().unwrap();
            let np: usize = args[4].parse().unwrap();
            let gpp: usize = args[5].parse().unwrap();
            let mut out = std::io::BufWriter::new(std::fs::File::create(&args[6]).unwrap());
            for pi in first..first + np {
                let pj = gen::gen_project(seed, pi, gpp);
                writeln!(out, "{}", pj).unwrap();
            }
        }
        "run" => {
            let inp = std::io::BufReader::new(std::fs::File::open(&args[2]).unwrap());
            let workdir = &args[3];
            let mut out = std::io::BufWriter::new(std::fs::File::create(&args[4]).unwrap());
            for line in inp.lines() {
                let line = line.unwrap();
                if line.trim().is_empty() {
                    continue;
                }
                let pj: Value = serde_json::from_str(&line).expect("project json");
                let r = std::panic::catch_unwind(|| run_project(&pj, workdir));
                match r {
                    Ok(v) => writeln!(out, "{}", v).unwrap(),
                    Err(_) => writeln!(out, "{}", json!({"id": pj["id"], "panic": true})).unwrap(),
                }
            }
        }
        "dump" => {
            // plain files (markers allowed) in library lib: print diagnostics, events, entities
            let dir = "/verif/.cache/scratch/C19/dump";
            let mut files = vec![];
            for (i, f) in args[2..].iter().enumerate() {
                let text = std::fs::read_to_string(f).unwrap();
                files.push(json!([format!("f{}.vhd", i), text]));
            }
            let pj = json!({"id":"dump","groups":[{"gid":0,"lib":"lib","files":files,"edit":null}],"flip":false});
            let r = run_project(&pj, dir);
            for d in r["steps"][0]["diags"].as_array().unwrap() {
                println!("DIAG {}:{} {} {}", d["l1"], d["c1"], d["code"], d["msg"]);
            }
            let real = &r["steps"][0]["real"];
            let ents = real["ents"].as_object().unwrap();
            let show = |id: &Value| -> String {
                match id.as_u64() {
                    Some(raw) => {
                        let e = &ents[&raw.to_string()];
                        format!("{} [{} @{}]", e["desc"].as_str().unwrap_or("?"), e["kind"].as_str().unwrap(), e["pos"])
                    }
                    None => "-".to_string(),
                }
            };
            for u in real["units"].as_array().unwrap() {
                println!("UNIT {}", u["design"]);
                for ev in u["events"].as_array().unwrap() {
                    if ev["t"] == "R" {
                        println!("  R {}:{} -> {}", ev["line"], ev["col"], show(&ev["id"]));
                    } else {
                        println!("  D {} {}", ev["item"].as_str().unwrap(), show(&ev["id"]));
                    }
                }
            }
            for (raw, e) in ents {
                println!("ENT {} {} parent={} rel={} relto={} pos={}", raw, e["desc"], e["parent"], e["rel"], e["relto"], e["pos"]);
            }
        }
        _ => panic!("usage"),
    }
}
