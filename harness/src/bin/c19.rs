use std::path::Path;
use vhdl_lang::{Config, NullMessages, Project};
fn main() {
    let files: Vec<String> = std::env::args().skip(1).collect();
    let mut msgs = NullMessages;
    let mut cfg = Config::default();
    cfg.load_external_config(&mut msgs, Some("/repo/vhdl_libraries".to_string()));
    let toml = format!("[libraries]\nlib.files=[{}]\n", files.iter().map(|n| format!("'{}'", n)).collect::<Vec<_>>().join(","));
    cfg.append(&Config::from_str(&toml, Path::new("/")).unwrap(), &mut msgs);
    let mut p = Project::from_config(cfg, &mut msgs);
    p.enable_all_linters();
    for x in p.analyse() {
        println!("{} {}:{}-{}:{} {:?} {}", x.pos.source.file_name().display(), x.pos.range.start.line, x.pos.range.start.character, x.pos.range.end.line, x.pos.range.end.character, x.code, x.message);
    }
}
