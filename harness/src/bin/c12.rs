//! C12 harness: formatting preserves the token stream and the comments.
//!
//! usage: c12 <mode> <seed> <n> <cases_out> <impl_out> <model_in> [93|08|19]
//!   the last argument is the VHDL standard of the parser (default 2008); case lines are tagged U93 / U08 / U19
//!   (`U` = the standard of the run); show:/min: take the standard from the environment variable C12_STD
//!   mode = files:<list>   every path of the list file (read as ISO-8859-1) + `n` variants of each
//!          cases:<file>   `U <code points>` lines (snippets: tried as they are and inside wrappers) + `n` variants
//!          gen            `n` generated design files (grammar-derived sentences), each with 2 variants
//!          opt            the 'optional tokens' family: every construct with optional labels / end labels / keywords,
//!                         every combination of its optional parts (exhaustive), each with `n` variants
//!          replay:<file>  `U` lines, taken exactly as they are (no wrappers, no variants)
//!
//! cases_out: one line `U <code points>` per explored source (flushed BEFORE the implementation runs).
//! impl_out : per case  `verdict|units|tokens|comments|out_tokens`
//!   verdict = SKIP:<n diagnostics> (source does not parse cleanly: outside the property)
//!             | OK | BAD:<reason> | PANIC:<msg>
//!   out_tokens = token dump (C11 format) of the front end on the formatter's OUTPUT (for the lexer correspondence)
//! model_in : per case `-` (skipped) or `<input tokens, C11 format>|<code points of the output>`
//!
//! ORACLE (the property itself, independent of the Coq model): parse (no diagnostics) ->
//! VHDLFormatter::format_design_file -> parse again: no diagnostics, same number of design units, per
//! unit the same tokens (kind, value) and the same flattened sequence of attached comments
//! (leading then trailing, token by token) up to trailing blanks.
use std::fmt::Write as _;
use std::io::Write as _;
use std::panic::{catch_unwind, AssertUnwindSafe};
use std::path::Path;
use verif_harness::rng::Rng;
use vhdl_lang::ast::{AbstractLiteral, BaseSpecifier, DesignFile};
use vhdl_lang::verif::data::ContentReader;
use vhdl_lang::verif::syntax::{kind_str, Comment, Kind, Symbols, Token, TokenStream, Tokenizer, Value};
use vhdl_lang::{Diagnostic, Source, VHDLFormatter, VHDLParser, VHDLStandard};

// ---------------------------------------------------------------------------------------------
// token dump (same format as the C11 harness)
// ---------------------------------------------------------------------------------------------
fn hex_l1(bytes: &[u8]) -> String {
    let mut s = String::new();
    for b in bytes {
        write!(s, "{:x}.", b).unwrap();
    }
    s
}
fn hex_chars(t: &str) -> String {
    let mut s = String::new();
    for c in t.chars() {
        write!(s, "{:x}.", c as u32).unwrap();
    }
    s
}
fn base_code(b: BaseSpecifier) -> u32 {
    match b {
        BaseSpecifier::B => 0,
        BaseSpecifier::O => 1,
        BaseSpecifier::X => 2,
        BaseSpecifier::UB => 3,
        BaseSpecifier::UO => 4,
        BaseSpecifier::UX => 5,
        BaseSpecifier::SB => 6,
        BaseSpecifier::SO => 7,
        BaseSpecifier::SX => 8,
        BaseSpecifier::D => 9,
    }
}
fn kind_name(k: Kind, kws: &[Kind]) -> String {
    if kws.contains(&k) {
        format!("kw:{}", kind_str(k))
    } else {
        format!("{:?}", k)
    }
}
fn value_str(v: &Value) -> String {
    match v {
        Value::None => "N".to_string(),
        Value::Identifier(s) => format!("I{}", hex_l1(&s.name().bytes)),
        Value::String(s) => format!("S{}", hex_l1(&s.bytes)),
        Value::BitString(t, bs) => format!(
            "B{}/{}/{}/{}",
            hex_l1(&t.bytes),
            bs.length.map(|x| x.to_string()).unwrap_or_else(|| "-".to_string()),
            base_code(bs.base),
            hex_l1(&bs.value.bytes)
        ),
        Value::AbstractLiteral(t, AbstractLiteral::Integer(i)) => format!("A{}/i{}", hex_l1(&t.bytes), i),
        Value::AbstractLiteral(t, AbstractLiteral::Real(_)) => format!("A{}/r", hex_l1(&t.bytes)),
        Value::Character(c) => format!("C{}", c),
        Value::Text(t) => format!("T{}", hex_l1(&t.bytes)),
    }
}
fn fmt_range(r: &vhdl_lang::Range) -> String {
    format!("{}:{}-{}:{}", r.start.line, r.start.character, r.end.line, r.end.character)
}
fn fmt_comment(c: &Comment) -> String {
    format!("{}:{}:{}", fmt_range(&c.range), if c.multi_line { 1 } else { 0 }, hex_chars(&c.value))
}
fn fmt_token(t: &Token, kws: &[Kind]) -> String {
    let (lead, trail) = match &t.comments {
        Some(c) => (
            c.leading.iter().map(fmt_comment).collect::<Vec<_>>().join("+"),
            c.trailing.as_ref().map(fmt_comment).unwrap_or_else(|| "-".to_string()),
        ),
        None => (String::new(), "-".to_string()),
    };
    format!("{},{},{},{},{}", kind_name(t.kind, kws), value_str(&t.value), fmt_range(&t.pos.range), lead, trail)
}
fn dump_tokens(df: &DesignFile, kws: &[Kind]) -> String {
    let mut v = Vec::new();
    for (toks, _) in df.design_units.iter() {
        for t in toks {
            v.push(fmt_token(t, kws));
        }
    }
    v.join(";")
}

// ---------------------------------------------------------------------------------------------
// oracle
// ---------------------------------------------------------------------------------------------
/// one parser per VHDL standard the front end supports; `cur` selects the standard of the current case
struct Ctx {
    parsers: Vec<VHDLParser>,
    kwss: Vec<Vec<Kind>>,
    cur: std::cell::Cell<usize>,
}
const STDS: [VHDLStandard; 3] = [VHDLStandard::VHDL1993, VHDLStandard::VHDL2008, VHDLStandard::VHDL2019];
const STD_TAGS: [&str; 3] = ["U93", "U", "U19"];
impl Ctx {
    fn new(cur: usize) -> Ctx {
        Ctx {
            parsers: STDS.iter().map(|s| VHDLParser::new(*s)).collect(),
            kwss: STDS.iter().map(|s| s.keywords().to_vec()).collect(),
            cur: std::cell::Cell::new(cur),
        }
    }
    fn parser(&self) -> &VHDLParser {
        &self.parsers[self.cur.get()]
    }
    fn kws(&self) -> &[Kind] {
        &self.kwss[self.cur.get()]
    }
}
fn std_index(s: &str) -> usize {
    match s {
        "93" | "1993" => 0,
        "19" | "2019" => 2,
        _ => 1,
    }
}

fn parse(ctx: &Ctx, text: &str) -> (DesignFile, Vec<Diagnostic>) {
    let mut d: Vec<Diagnostic> = Vec::new();
    let df = ctx.parser().parse_design_source(&Source::inline(Path::new("/verif_c12.vhd"), text), &mut d);
    (df, d)
}

fn flat_comments(toks: &[Token]) -> Vec<String> {
    let mut v = Vec::new();
    for t in toks {
        if let Some(c) = &t.comments {
            for x in c.leading.iter() {
                v.push(x.value.trim_end().to_string());
            }
            if let Some(x) = &c.trailing {
                v.push(x.value.trim_end().to_string());
            }
        }
    }
    v
}

/// tokens of a text as the tokenizer alone sees them (no parser)
fn lex_only(std: VHDLStandard, text: &str) -> Vec<Token> {
    let symbols = Symbols::from_standard(std);
    let src = Source::inline(Path::new("/verif_c12_out.vhd"), text);
    let contents = src.contents();
    let tokenizer = Tokenizer::new(&symbols, &src, ContentReader::new(&contents));
    let mut d: Vec<Diagnostic> = Vec::new();
    let stream = TokenStream::new(tokenizer, &mut d);
    let mut toks = Vec::new();
    while let Some(t) = stream.peek() {
        toks.push(t.clone());
        stream.skip();
    }
    toks
}
fn tok_key(t: &Token, kws: &[Kind]) -> String {
    let v = match &t.value {
        Value::Identifier(s) if s.name().bytes.first() != Some(&b'\\') => {
            format!("I{}", hex_l1(&s.name().bytes.iter().map(|b| b.to_ascii_lowercase()).collect::<Vec<u8>>()))
        }
        v => value_str(v),
    };
    format!("{}/{}", kind_name(t.kind, kws), v)
}
/// Signature of the first divergence between the input token stream and the tokens of the output
/// (used to tell known defects apart): `ctx=<kinds from the statement start> [<diverging kind>] <next two>
/// | out=<kinds found instead> | flags=...`
fn signature(ctx: &Ctx, df: &DesignFile, out: &str) -> String {
    let a: Vec<&Token> = df.design_units.iter().flat_map(|(t, _)| t.iter()).collect();
    let b = match catch_unwind(AssertUnwindSafe(|| lex_only(STDS[ctx.cur.get()], out))) {
        Ok(b) => b,
        Err(_) => return "sig=lexer-panic".into(),
    };
    let n = a.len().min(b.len());
    let mut i = 0;
    while i < n && tok_key(a[i], ctx.kws()) == tok_key(&b[i], ctx.kws()) {
        i += 1;
    }
    if i == a.len() && i == b.len() {
        // same tokens: comments differ
        let fa: Vec<(usize, String)> = a
            .iter()
            .enumerate()
            .flat_map(|(k, t)| flat_comments(std::slice::from_ref(*t)).into_iter().map(move |c| (k, c)))
            .collect();
        let fb: Vec<(usize, String)> = b
            .iter()
            .enumerate()
            .flat_map(|(k, t)| flat_comments(std::slice::from_ref(t)).into_iter().map(move |c| (k, c)))
            .collect();
        let mut j = 0;
        while j < fa.len().min(fb.len()) && fa[j].1 == fb[j].1 {
            j += 1;
        }
        let at = fa.get(j).map(|x| x.0).or(fb.get(j).map(|x| x.0)).unwrap_or(0);
        let k = |x: usize| a.get(x).map(|t| kind_name(t.kind, ctx.kws())).unwrap_or_else(|| "EOF".into());
        return format!(
            "sig=comments {} [{}] {} | {} before, {} after",
            if at > 0 { k(at - 1) } else { "BOF".into() },
            k(at),
            k(at + 1),
            fa.len(),
            fb.len()
        );
    }
    let mut s = i;
    let mut back = 0;
    while s > 0 && back < 16 {
        let k = a[s - 1].kind;
        if k == Kind::SemiColon || k == Kind::Begin || k == Kind::Is {
            break;
        }
        s -= 1;
        back += 1;
    }
    let mut sig = String::from("sig=ctx=");
    for t in &a[s..i] {
        sig.push_str(&kind_name(t.kind, ctx.kws()));
        sig.push(' ');
    }
    match a.get(i) {
        Some(t) => write!(sig, "[{}]", kind_name(t.kind, ctx.kws())).unwrap(),
        None => sig.push_str("[EOF]"),
    }
    for t in a.iter().skip(i + 1).take(2) {
        sig.push(' ');
        sig.push_str(&kind_name(t.kind, ctx.kws()));
    }
    sig.push_str(" | out=");
    let o: Vec<String> = b.iter().skip(i).take(2).map(|t| kind_name(t.kind, ctx.kws())).collect();
    sig.push_str(&if o.is_empty() { "EOF".to_string() } else { o.join(" ") });
    let mut flags: Vec<&str> = Vec::new();
    if let Some(t) = a.get(i) {
        if let Value::Identifier(sym) = &t.value {
            let nb = &sym.name().bytes;
            if nb.len() > 2 && nb[0] == b'\\' && nb[1..nb.len() - 1].contains(&b'\\') {
                flags.push("extended_identifier_with_backslash");
            }
        }
        if t.comments.as_ref().map_or(true, |c| c.trailing.is_none()) {
            if let Some(nx) = a.get(i + 1) {
                if let Some(c) = &nx.comments {
                    if let Some(first) = c.leading.first() {
                        flags.push(if first.multi_line { "next_leading_block_comment" } else { "next_leading_line_comment" });
                    }
                }
            }
        }
    }
    write!(sig, " | flags={}", flags.join(",")).unwrap();
    sig
}

struct Outcome {
    verdict: String,
    units: usize,
    tokens: usize,
    comments: usize,
    out_tokens: String,
    model_in: String,
}

fn clean(s: &str) -> String {
    s.replace(['|', '\n', '\r'], " ")
}

/// parse -> format -> parse, compare.  `None`: the source is outside the property (diagnostics).
fn check_source(ctx: &Ctx, text: &str) -> Outcome {
    let (df, d) = parse(ctx, text);
    let mut o = Outcome { verdict: String::new(), units: 0, tokens: 0, comments: 0, out_tokens: String::new(), model_in: "-".into() };
    if !d.is_empty() {
        o.verdict = format!("SKIP:{}", d.len());
        if std::env::var("C12_DEBUG").is_ok() {
            eprintln!("SKIP {} at {}: {}", d.len(), fmt_range(&d[0].pos.range), clean(&d[0].message));
        }
        return o;
    }
    o.units = df.design_units.len();
    o.tokens = df.design_units.iter().map(|(t, _)| t.len()).sum();
    o.comments = df.design_units.iter().map(|(t, _)| flat_comments(t).len()).sum();
    let out = VHDLFormatter::format_design_file(&df);
    let (df2, d2) = parse(ctx, &out);
    o.out_tokens = dump_tokens(&df2, ctx.kws());
    let mut cps = String::new();
    for c in out.chars() {
        write!(cps, "{} ", c as u32).unwrap();
    }
    o.model_in = format!("{}|{}", dump_tokens(&df, ctx.kws()), cps.trim_end());
    if !d2.is_empty() {
        let m = &d2[0];
        o.verdict = format!(
            "BAD:formatted output has {} diagnostics; first at {}: {}",
            d2.len(),
            fmt_range(&m.pos.range),
            clean(&m.message)
        );
        return o;
    }
    if df.design_units.len() != df2.design_units.len() {
        o.verdict = format!("BAD:{} design units before, {} after formatting", df.design_units.len(), df2.design_units.len());
        return o;
    }
    for (u, ((ta, _), (tb, _))) in df.design_units.iter().zip(df2.design_units.iter()).enumerate() {
        for (i, (a, b)) in ta.iter().zip(tb.iter()).enumerate() {
            if a.kind != b.kind || a.value != b.value {
                o.verdict = format!(
                    "BAD:unit {} token {}: {}/{} at {} became {}/{} at {} of the output",
                    u,
                    i,
                    kind_name(a.kind, ctx.kws()),
                    value_str(&a.value),
                    fmt_range(&a.pos.range),
                    kind_name(b.kind, ctx.kws()),
                    value_str(&b.value),
                    fmt_range(&b.pos.range)
                );
                return o;
            }
        }
        if ta.len() != tb.len() {
            o.verdict = format!("BAD:unit {}: {} tokens before, {} after formatting", u, ta.len(), tb.len());
            return o;
        }
        let fa = flat_comments(ta);
        let fb = flat_comments(tb);
        if fa != fb {
            let i = fa.iter().zip(fb.iter()).position(|(x, y)| x != y).unwrap_or(fa.len().min(fb.len()));
            o.verdict = format!(
                "BAD:unit {}: attached comments differ at index {} ({} before, {} after): {:?} vs {:?}",
                u,
                i,
                fa.len(),
                fb.len(),
                fa.get(i).map(|s| clean(s)),
                fb.get(i).map(|s| clean(s))
            );
            return o;
        }
    }
    o.verdict = "OK".into();
    o
}

fn check_source_sig(ctx: &Ctx, text: &str) -> Outcome {
    let mut o = check_source(ctx, text);
    if o.verdict.starts_with("BAD") {
        let (df, _) = parse(ctx, text);
        let out = VHDLFormatter::format_design_file(&df);
        let sig = signature(ctx, &df, &out);
        o.verdict = format!("{} ;; {}", o.verdict, clean(&sig));
    }
    o
}

fn run_case(ctx: &Ctx, text: &str) -> Outcome {
    match catch_unwind(AssertUnwindSafe(|| check_source_sig(ctx, text))) {
        Ok(o) => o,
        Err(p) => {
            let msg = if let Some(s) = p.downcast_ref::<&str>() {
                s.to_string()
            } else if let Some(s) = p.downcast_ref::<String>() {
                s.clone()
            } else {
                "?".to_string()
            };
            Outcome { verdict: format!("PANIC:{}", clean(&msg)), units: 0, tokens: 0, comments: 0, out_tokens: String::new(), model_in: "-".into() }
        }
    }
}

// ---------------------------------------------------------------------------------------------
// variants of a clean source: the text is cut into token lexemes and gaps; gaps and lexemes are
// rewritten (comments at token gaps, blank lines, CRLF/CR, tabs, minimal spacing, letter case,
// Latin-1 characters in comments, strings, character literals and extended identifiers,
// `vhdl_ls off`/`on` regions)
// ---------------------------------------------------------------------------------------------
/// char index of every (line, utf-16 column) of the text; lines split at LF, CR, CRLF
struct LineIndex {
    starts: Vec<usize>,
    text: Vec<char>,
}
impl LineIndex {
    fn new(text: &str) -> LineIndex {
        let cs: Vec<char> = text.chars().collect();
        let mut starts = vec![0];
        let mut i = 0;
        while i < cs.len() {
            if cs[i] == '\n' {
                starts.push(i + 1);
            } else if cs[i] == '\r' {
                if i + 1 < cs.len() && cs[i + 1] == '\n' {
                    i += 1;
                }
                starts.push(i + 1);
            }
            i += 1;
        }
        LineIndex { starts, text: cs }
    }
    fn offset(&self, p: vhdl_lang::Position) -> Option<usize> {
        let mut i = *self.starts.get(p.line as usize)?;
        let mut col = 0u32;
        while col < p.character {
            let c = *self.text.get(i)?;
            col += c.len_utf16() as u32;
            i += 1;
        }
        Some(i)
    }
}

struct Piece {
    gap: String,    // text before the lexeme
    lexeme: String, // the token's text
    kind: Kind,
    basic_ident: bool,
}

fn cut(ctx: &Ctx, text: &str, df: &DesignFile) -> Option<(Vec<Piece>, String)> {
    let li = LineIndex::new(text);
    let mut pieces = Vec::new();
    let mut at = 0usize;
    for (toks, _) in df.design_units.iter() {
        for t in toks {
            let s = li.offset(t.pos.range.start)?;
            let e = li.offset(t.pos.range.end)?;
            if s < at || e < s || e > li.text.len() {
                return None;
            }
            let lexeme: String = li.text[s..e].iter().collect();
            let basic = matches!(&t.value, Value::Identifier(_)) && !lexeme.starts_with('\\');
            pieces.push(Piece { gap: li.text[at..s].iter().collect(), lexeme, kind: t.kind, basic_ident: basic });
            at = e;
        }
    }
    let _ = ctx;
    Some((pieces, li.text[at..].iter().collect()))
}

const COMMENT_TEXT: [&str; 26] = [
    " c", "", " note: x <= y", " trailing blanks   ", " tab\t", " caf\u{e9} na\u{ef}ve \u{ff}", " nbsp\u{a0}", " -- nested", " /* not a block",
    " */ stray", "x", "-", "--", " \u{20ac} \u{1f600} non latin-1", " 'quote' \"str\"", "*", "/", " a*/b", " ends with star *", " \\ backslash\\",
    " if then else end", " ;", " :=", "!", " vhdl_ls", "\u{a0}",
];
const BLOCK_TEXT: [&str; 21] = [
    " \u{1f4a3} ", "\u{1f600}\u{1f600}", " a \u{10348} b ", " c ", "", "x", " two\nlines ", "\n", " caf\u{e9} ", "*", " * ", "/", " -- dashes ", " \u{20ac} ", " a\n\n  b\n", "**", " / * ", " trailing   ",
    "\t", " \"s\" 'c' ", "-",
];
const EXT_IDENTS: [&str; 10] =
    ["\\a b\\", "\\a\\\\b\\", "\\\u{e9}t\u{e9}\\", "\\--\\", "\\/*\\", "\\\"\\", "\\'\\", "\\ENTITY\\", "\\\\\\\\", "\\1\\"];
const STRINGS: [&str; 10] = ["\"\"", "\"\"\"\"", "\"a\"\"b\"", "\"--\"", "\"/* */\"", "\"\u{e9}\u{ff}\"", "\" \"", "\"'\"", "\"\\\"", "\"a -- b\""];
const CHARS: [&str; 9] = ["'''", "'\"'", "'-'", "'\\'", "'\u{e9}'", "' '", "'('", "'/'", "'*'"];

fn pick_str<'a>(rng: &mut Rng, xs: &'a [&'a str]) -> &'a str {
    xs[rng.below(xs.len())]
}
fn nl(rng: &mut Rng, style: usize) -> &'static str {
    match style {
        1 => "\r\n",
        2 => "\r",
        3 => *rng.pick(&["\n", "\r\n", "\r"]),
        _ => "\n",
    }
}
fn line_comment(rng: &mut Rng, nls: usize) -> String {
    format!("--{}{}", pick_str(rng, &COMMENT_TEXT), nl(rng, nls))
}
fn block_comment(rng: &mut Rng) -> String {
    format!("/*{}*/", pick_str(rng, &BLOCK_TEXT))
}
fn blank(rng: &mut Rng, nls: usize) -> String {
    match rng.below(7) {
        0 => " ".into(),
        1 => "  ".into(),
        2 => "\t".into(),
        3 => nl(rng, nls).into(),
        4 => format!("{}{}", nl(rng, nls), nl(rng, nls)),
        5 => format!(" {}{}{}   ", nl(rng, nls), nl(rng, nls), nl(rng, nls)),
        _ => format!("{}    ", nl(rng, nls)),
    }
}
/// a gap text holding comments
fn comment_gap(rng: &mut Rng, nls: usize) -> String {
    let mut g = String::new();
    match rng.below(12) {
        0 => {
            g.push(' ');
            g.push_str(&line_comment(rng, nls));
        }
        1 => {
            g.push_str(nl(rng, nls));
            g.push_str(&line_comment(rng, nls));
        }
        2 => g.push_str(&block_comment(rng)),
        3 => {
            g.push(' ');
            g.push_str(&block_comment(rng));
            g.push(' ');
        }
        4 => {
            g.push_str(nl(rng, nls));
            g.push_str(&block_comment(rng));
            g.push_str(nl(rng, nls));
        }
        5 => {
            g.push(' ');
            g.push_str(&block_comment(rng));
            g.push(' ');
            g.push_str(&block_comment(rng));
            g.push(' ');
        }
        6 => {
            g.push(' ');
            g.push_str(&line_comment(rng, nls));
            g.push_str("  ");
            g.push_str(&line_comment(rng, nls));
        }
        7 => {
            g.push(' ');
            g.push_str(&line_comment(rng, nls));
            g.push_str(nl(rng, nls));
            g.push_str(&line_comment(rng, nls));
            g.push_str(&block_comment(rng));
            g.push(' ');
        }
        8 => {
            g.push_str(&block_comment(rng));
            g.push(' ');
            g.push_str(&line_comment(rng, nls));
        }
        9 => {
            g.push_str(nl(rng, nls));
            g.push_str(&block_comment(rng));
            g.push_str(&block_comment(rng));
            g.push_str(nl(rng, nls));
            g.push_str(&line_comment(rng, nls));
            g.push_str(&line_comment(rng, nls));
        }
        10 => {
            g.push_str(&block_comment(rng));
            g.push_str(nl(rng, nls));
        }
        _ => {
            g.push_str(nl(rng, nls));
            g.push_str(nl(rng, nls));
            g.push_str(&line_comment(rng, nls));
            g.push_str(nl(rng, nls));
        }
    }
    g
}

fn is_word_char(c: char) -> bool {
    c.is_alphanumeric() || c == '_' || c == '"' || c == '\\' || c == '\'' || c == '#' || c == '.'
}
/// conservative: may the two lexemes stand next to each other without a separator?
fn may_glue(a: &str, b: &str) -> bool {
    let x = a.chars().last().unwrap_or(' ');
    let y = b.chars().next().unwrap_or(' ');
    if is_word_char(x) && is_word_char(y) {
        return false;
    }
    const OPS: &str = "-/*<>=:?|&+";
    if OPS.contains(x) && OPS.contains(y) {
        return false;
    }
    if y == '\'' || x == '\'' {
        return false;
    }
    true
}

fn ident_hash(s: &str, salt: u64) -> u64 {
    let mut h = salt ^ 0xcbf29ce484222325;
    for c in s.chars() {
        h = (h ^ (c.to_ascii_lowercase() as u64)).wrapping_mul(0x100000001b3);
    }
    h ^ (h >> 29)
}
fn flip_case(rng: &mut Rng, s: &str) -> String {
    s.chars()
        .map(|c| {
            if c.is_ascii_alphabetic() && rng.chance(1, 2) {
                if c.is_ascii_uppercase() {
                    c.to_ascii_lowercase()
                } else {
                    c.to_ascii_uppercase()
                }
            } else {
                c
            }
        })
        .collect()
}

/// One variant of the source.  `style`: 0 comments at gaps, 1 comments everywhere, 2 minimal spacing,
/// 3 CRLF/CR/tabs + blank lines, 4 letter case + Latin-1 lexemes, 5 everything, 6 ignored regions
fn variant(rng: &mut Rng, pieces: &[Piece], tail: &str, style: usize) -> String {
    let nls = if style == 3 || style == 5 { 1 + rng.below(3) } else { 0 };
    let p_comment = match style {
        0 => *rng.pick(&[3usize, 10, 30]),
        1 => 100,
        5 => 15,
        6 => 2,
        _ => 0,
    };
    let mut out = String::new();
    let n = pieces.len();
    let region_at = if style == 6 && n > 0 { rng.below(n) } else { usize::MAX };
    let salt = rng.next();
    for (i, p) in pieces.iter().enumerate() {
        // gap
        let mut gap = p.gap.clone();
        if style == 2 || (style == 5 && rng.chance(1, 4)) {
            if gap.chars().all(|c| c == ' ' || c == '\t' || c == '\n' || c == '\r') {
                let glue = i > 0 && may_glue(&pieces[i - 1].lexeme, &p.lexeme);
                gap = if i == 0 || glue { String::new() } else { " ".into() };
            }
        }
        if nls != 0 {
            let mut g = String::new();
            let cs: Vec<char> = gap.chars().collect();
            let mut k = 0;
            while k < cs.len() {
                if cs[k] == '\r' && k + 1 < cs.len() && cs[k + 1] == '\n' {
                    g.push_str(nl(rng, nls));
                    k += 1;
                } else if cs[k] == '\n' || cs[k] == '\r' {
                    g.push_str(nl(rng, nls));
                } else if cs[k] == ' ' && rng.chance(1, 6) {
                    g.push('\t');
                } else {
                    g.push(cs[k]);
                }
                k += 1;
            }
            if rng.chance(1, 12) {
                g.push_str(&blank(rng, nls));
            }
            gap = g;
        }
        if p_comment > 0 && rng.below(100) < p_comment {
            let cg = comment_gap(rng, nls);
            gap = match rng.below(3) {
                0 => format!("{}{}", gap, cg),
                1 => format!("{}{}{}", gap, cg, blank(rng, nls)),
                _ => cg,
            };
        }
        if i == region_at {
            let on = *rng.pick(&["-- vhdl_ls on", "--vhdl_ls on  ", "--  vhdl_ls on"]);
            gap = format!("{}\n-- vhdl_ls off\n this is ~ not $ vhdl ( ; end 1e 'x\n{}\n", gap, on);
        }
        out.push_str(&gap);
        // lexeme
        let mut lx = p.lexeme.clone();
        if style == 4 || style == 5 {
            if p.basic_ident {
                // every occurrence of one identifier gets the same treatment (end labels must match)
                let h = ident_hash(&lx, salt);
                if h % 23 == 0 {
                    lx = EXT_IDENTS[(h / 23) as usize % EXT_IDENTS.len()].to_string();
                } else {
                    let mut r = Rng(h);
                    lx = flip_case(&mut r, &lx);
                }
            } else if p.kind == Kind::StringLiteral && rng.chance(1, 6) {
                lx = pick_str(rng, &STRINGS).to_string();
            } else if p.kind == Kind::Character && rng.chance(1, 3) {
                lx = pick_str(rng, &CHARS).to_string();
            } else if rng.chance(1, 2) {
                lx = flip_case(rng, &lx);
            }
        }
        out.push_str(&lx);
    }
    out.push_str(tail);
    if p_comment > 0 && rng.chance(1, 3) {
        out.push_str(&comment_gap(rng, nls));
    }
    out
}

// ---------------------------------------------------------------------------------------------
// snippets: a fragment is tried as a design file and inside wrappers
// ---------------------------------------------------------------------------------------------
fn wrappers(frag: &str) -> Vec<String> {
    vec![
        frag.to_string(),
        format!("package p_w is\n{}\nend package;", frag),
        format!("architecture a_w of e_w is\nbegin\n{}\nend architecture;", frag),
        format!("architecture a_w of e_w is\nbegin\nprocess\nbegin\n{}\nend process;\nend architecture;", frag),
        format!("architecture a_w of e_w is\n{}\nbegin\nend architecture;", frag),
        format!("package p_w is\nconstant c_w : t_w := {};\nend package;", frag),
        format!("package p_w is\nsubtype s_w is {};\nend package;", frag),
        format!("entity e_w is\n{}\nend entity;", frag),
        format!("package p_w is\nprocedure q_w({});\nend package;", frag),
        format!("package body p_w is\n{}\nend package body;", frag),
    ]
}

// ---------------------------------------------------------------------------------------------
// generated programs: a liberal syntax generator; every fragment is test-parsed inside a wrapper
// and only accepted fragments are assembled into design files
// ---------------------------------------------------------------------------------------------
struct Gen<'a> {
    rng: &'a mut Rng,
    depth: usize,
}
const IDS: [&str; 24] = [
    "a", "b", "x", "o", "d", "ub", "sx", "clk", "rst_n", "Data_In", "q1", "e", "s", "u", "cnt", "state", "foo_bar", "T1", "idx", "Z",
    "\\ext id\\", "\\a\\\\b\\", "std_logic", "natural",
];
const TYPES: [&str; 10] = [
    "integer", "natural", "std_logic", "bit", "boolean", "std_logic_vector", "unsigned", "work.pkg.t", "real", "time",
];
const BINOPS: [&str; 32] = [
    "and", "or", "nand", "nor", "xor", "xnor", "=", "/=", "<", "<=", ">", ">=", "?=", "?/=", "?<", "?<=", "?>", "?>=", "sll", "srl",
    "sla", "sra", "rol", "ror", "+", "-", "&", "*", "/", "mod", "rem", "**",
];
const UNOPS: [&str; 10] = ["-", "+", "abs", "not", "??", "and", "or", "xor", "nand", "nor"];
const LITS: [&str; 43] = [
    "0", "1", "42", "1_000", "1e3", "1E+3", "2e0", "1.5", "1.5e-3", "3.14_15", "16#FF#", "2#1010_1010#", "8#77#E1", "16#F.F#", "16#f.f#e-1", "16:FF:", "2:1:E3", "16:F.8:",
    "10#1.0#e+2", "x\"AB\"", "B\"1_0\"", "12sb\"01\"", "ux\"f\"", "d\"12\"", "O\"7\"", "8SX\"F\"", "\"\"", "\"abc\"", "\"a\"\"b\"",
    "\"--\"", "'a'", "'''", "'\"'", "'0'", "'1'", "null", "10 ns", "1.5 us", "2 ps", "true", "open", "\"10\"", "1 fs",
];
const ATTRS: [&str; 12] =
    ["range", "length", "left", "right", "high", "low", "event", "image", "reverse_range", "subtype", "element", "ascending"];

impl<'a> Gen<'a> {
    fn id(&mut self) -> String {
        IDS[self.rng.below(IDS.len())].to_string()
    }
    fn simple_id(&mut self) -> String {
        IDS[self.rng.below(20)].to_string()
    }
    fn name(&mut self) -> String {
        if self.depth > 4 {
            return self.id();
        }
        self.depth += 1;
        let r = match self.rng.below(14) {
            0..=4 => self.id(),
            5 => format!("{} . {}", self.name(), self.id()),
            6 => format!("{} ( {} )", self.name(), self.expr()),
            7 => format!("{} ( {} , {} )", self.name(), self.expr(), self.expr()),
            8 => format!("{} ( {} )", self.name(), self.range()),
            9 => format!("{} ' {}", self.name(), ATTRS[self.rng.below(ATTRS.len())]),
            10 => format!("{} ' {} ( {} )", self.name(), ATTRS[self.rng.below(ATTRS.len())], self.expr()),
            11 => format!("{} . all", self.name()),
            12 => format!("{} ( {} => {} )", self.name(), self.simple_id(), self.expr()),
            _ => format!(
                "<< {} {} : {} >>",
                *self.rng.pick(&["signal", "constant", "variable"]),
                *self.rng.pick(&[". tb . dut . s", "^ . ^ . x", "@ lib . pkg . c", "a . b ( 1 ) . c"]),
                self.subtype()
            ),
        };
        self.depth -= 1;
        r
    }
    fn range(&mut self) -> String {
        match self.rng.below(4) {
            0 => format!("{} to {}", self.expr(), self.expr()),
            1 => format!("{} downto {}", self.expr(), self.expr()),
            2 => format!("{} ' range", self.name()),
            _ => format!("{} range {} to {}", TYPES[self.rng.below(5)], self.expr(), self.expr()),
        }
    }
    fn subtype(&mut self) -> String {
        match self.rng.below(8) {
            0..=3 => TYPES[self.rng.below(TYPES.len())].to_string(),
            4 => format!("{} ( {} )", TYPES[5 + self.rng.below(2)], self.range()),
            5 => format!("{} range {}", TYPES[self.rng.below(2)], self.range()),
            6 => format!("resolved {}", TYPES[self.rng.below(TYPES.len())]),
            _ => format!("( resolved ) {} ( {} )", TYPES[5], self.range()),
        }
    }
    fn choices(&mut self) -> String {
        match self.rng.below(6) {
            0 => "others".to_string(),
            1 => format!("{} | {}", self.expr(), self.expr()),
            2 => self.range(),
            3 => format!("{} | {} | others", self.simple_id(), self.range()),
            _ => self.expr(),
        }
    }
    fn aggregate(&mut self) -> String {
        match self.rng.below(5) {
            0 => format!("( {} , {} )", self.expr(), self.expr()),
            1 => format!("( others => {} )", self.expr()),
            2 => format!("( {} => {} , {} => {} )", self.choices(), self.expr(), self.choices(), self.expr()),
            3 => format!("( {} , others => {} )", self.expr(), self.expr()),
            _ => format!("( {} => ( {} , {} ) , {} )", self.choices(), self.expr(), self.expr(), self.expr()),
        }
    }
    fn expr(&mut self) -> String {
        if self.depth > 4 {
            return if self.rng.chance(1, 2) { self.id() } else { LITS[self.rng.below(LITS.len())].to_string() };
        }
        self.depth += 1;
        let r = match self.rng.below(16) {
            0..=2 => LITS[self.rng.below(LITS.len())].to_string(),
            3..=5 => self.name(),
            6..=8 => format!("{} {} {}", self.expr(), BINOPS[self.rng.below(BINOPS.len())], self.expr()),
            9 => format!("{} {}", UNOPS[self.rng.below(UNOPS.len())], self.expr()),
            10 => format!("( {} )", self.expr()),
            11 => self.aggregate(),
            12 => format!("{} ' ( {} )", TYPES[self.rng.below(TYPES.len())], self.expr()),
            13 => format!("{} ' {}", TYPES[self.rng.below(TYPES.len())], self.aggregate()),
            14 => match self.rng.below(3) {
                0 => format!("new {}", self.subtype()),
                1 => format!("new {} ' ( {} )", TYPES[self.rng.below(TYPES.len())], self.expr()),
                _ => format!("{} {} ( - {} )", self.expr(), BINOPS[24 + self.rng.below(8)], self.expr()),
            },
            _ => format!("{} {} {} {}", UNOPS[self.rng.below(2)], self.expr(), BINOPS[24 + self.rng.below(2)], self.expr()),
        };
        self.depth -= 1;
        r
    }
    fn label(&mut self) -> String {
        if self.rng.chance(1, 3) {
            format!("{} : ", self.simple_id())
        } else {
            String::new()
        }
    }
    fn waveform(&mut self) -> String {
        match self.rng.below(5) {
            0 => format!("{} after {} ns", self.expr(), 1 + self.rng.below(9)),
            1 => format!("{} , {} after 2 ns , null after 3 ns", self.expr(), self.expr()),
            2 => "unaffected".to_string(),
            _ => self.expr(),
        }
    }
    fn delay(&mut self) -> String {
        match self.rng.below(6) {
            0 => "transport ".into(),
            1 => "inertial ".into(),
            2 => "reject 1 ns inertial ".into(),
            _ => String::new(),
        }
    }
    fn seq(&mut self) -> String {
        if self.depth > 3 {
            return "null ;".into();
        }
        self.depth += 1;
        let l = self.label();
        let r = match self.rng.below(37) {
            0 => format!("{}{} := {} ;", l, self.name(), self.expr()),
            1 => format!("{}{} <= {}{} ;", l, self.name(), self.delay(), self.waveform()),
            2 => format!("{}if {} then {} end if ;", l, self.expr(), self.seq()),
            3 => format!(
                "{}if {} then {} elsif {} then {} {} else {} end if ;",
                l,
                self.expr(),
                self.seq(),
                self.expr(),
                self.seq(),
                self.seq(),
                self.seq()
            ),
            4 => format!(
                "{}case {} is when {} => {} when others => {} end case ;",
                l,
                self.expr(),
                self.choices(),
                self.seq(),
                self.seq()
            ),
            5 => format!("{}for {} in {} loop {} end loop ;", l, self.simple_id(), self.range(), self.seq()),
            6 => format!("{}while {} loop {} {} end loop ;", l, self.expr(), self.seq(), self.seq()),
            7 => format!("lp : loop {} exit lp when {} ; next ; end loop lp ;", self.seq(), self.expr()),
            8 => format!("{}return {} ;", l, self.expr()),
            9 => format!("{}wait ;", l),
            10 => format!("{}wait on {} , {} until {} for 10 ns ;", l, self.name(), self.name(), self.expr()),
            11 => format!("{}wait until {} ;", l, self.expr()),
            12 => format!("{}assert {} report {} severity failure ;", l, self.expr(), self.expr()),
            13 => format!("{}report {} ;", l, self.expr()),
            14 => format!("{}{} ;", l, self.name()),
            15 => format!("{}{} ( {} , {} => {} ) ;", l, self.simple_id(), self.expr(), self.simple_id(), self.expr()),
            16 => format!("{}null ;", l),
            17 => format!("{}exit when {} ;", l, self.expr()),
            18 => format!("{}{} := {} when {} else {} ;", l, self.name(), self.expr(), self.expr(), self.expr()),
            19 => format!("{}{} <= {} when {} else {} when {} ;", l, self.name(), self.waveform(), self.expr(), self.waveform(), self.expr()),
            20 => format!("{}{} <= force {} ;", l, self.name(), self.expr()),
            21 => format!("{}{} <= release ;", l, self.name()),
            22 => format!("{}with {} select {} := {} when {} , {} when others ;", l, self.expr(), self.name(), self.expr(), self.choices(), self.expr()),
            23 => format!("{}assert {} severity {} ;", l, self.expr(), *self.rng.pick(&["failure", "error", "warning", "note"])),
            24 => format!("{}report {} severity {} ;", l, self.expr(), self.expr()),
            25 => format!("{}next {} when {} ;", l, *self.rng.pick(&["", "lp"]), self.expr()),
            26 => format!("{}case ? {} is when {} => {} when others => null ; end case ? ;", l, self.expr(), self.choices(), self.seq()),
            27 => format!("{}wait for {} ;", l, self.expr()),
            28 => format!("{}return ;", l),
            29 => format!("{}{} <= {} when {} else unaffected ;", l, self.name(), self.expr(), self.expr()),
            30 => format!("{}{} <= force {} {} when {} else {} ;", l, self.name(), *self.rng.pick(&["", "in", "out"]), self.expr(), self.expr(), self.expr()),
            31 => format!("{}{} <= release {} ;", l, self.name(), *self.rng.pick(&["", "in", "out"])),
            32 => format!("{}with {} select ? {} <= {} when {} , {} when others ;", l, self.expr(), self.name(), self.waveform(), self.choices(), self.waveform()),
            33 => format!("{}with {} select {} <= force {} when {} , {} when others ;", l, self.expr(), self.name(), self.expr(), self.choices(), self.expr()),
            34 => format!("{}if {} then {} else {} end if {} ;", if l.is_empty() { "il : ".to_string() } else { l.clone() }, self.expr(), self.seq(), self.seq(), ""),
            35 => format!("{}exit ;", l),
            _ => format!("{}{} := {} ;", l, self.aggregate(), self.expr()),
        };
        self.depth -= 1;
        r
    }
    fn iface(&mut self) -> String {
        match self.rng.below(9) {
            0 => format!("{} : in {}", self.simple_id(), self.subtype()),
            1 => format!("signal {} , {} : out {} := {}", self.simple_id(), self.simple_id(), self.subtype(), self.expr()),
            2 => format!("variable {} : inout {}", self.simple_id(), self.subtype()),
            3 => format!("constant {} : {} := {}", self.simple_id(), self.subtype(), self.expr()),
            4 => format!("file {} : text", self.simple_id()),
            5 => format!("{} : buffer {} bus", self.simple_id(), self.subtype()),
            6 => format!("type {}", self.simple_id()),
            7 => format!("function {} ( a : t ) return t is <>", self.simple_id()),
            _ => format!("{} : {}", self.simple_id(), self.subtype()),
        }
    }
    fn iface_list(&mut self) -> String {
        let n = 1 + self.rng.below(3);
        (0..n).map(|_| self.iface()).collect::<Vec<_>>().join(" ; ")
    }
    fn assoc(&mut self) -> String {
        match self.rng.below(5) {
            0 => format!("{} => {}", self.simple_id(), self.expr()),
            1 => format!("{} ( {} ) => open", self.simple_id(), self.expr()),
            2 => format!("{} => {} , {} => {}", self.simple_id(), self.expr(), self.name(), self.name()),
            3 => format!("{} , {}", self.expr(), self.expr()),
            _ => self.expr(),
        }
    }
    fn decl(&mut self) -> String {
        if self.depth > 3 {
            return format!("constant {} : integer := 0 ;", self.simple_id());
        }
        self.depth += 1;
        let r = match self.rng.below(49) {
            0 => format!("constant {} : {} := {} ;", self.simple_id(), self.subtype(), self.expr()),
            1 => format!("signal {} , {} : {} ;", self.simple_id(), self.simple_id(), self.subtype()),
            2 => format!("signal {} : {} register := {} ;", self.simple_id(), self.subtype(), self.expr()),
            3 => format!("variable {} : {} := {} ;", self.simple_id(), self.subtype(), self.expr()),
            4 => format!("shared variable {} : {} ;", self.simple_id(), self.subtype()),
            5 => format!("file {} : text open read_mode is {} ;", self.simple_id(), self.expr()),
            6 => format!("type {} is ( {} , {} , 'a' , 'b' ) ;", self.simple_id(), self.simple_id(), self.simple_id()),
            7 => format!("type {} is range {} ;", self.simple_id(), self.range()),
            8 => format!("type {} is array ( natural range <> ) of {} ;", self.simple_id(), self.subtype()),
            9 => format!("type {} is array ( {} , {} ) of {} ;", self.simple_id(), self.range(), self.range(), self.subtype()),
            10 => format!(
                "type {} is record {} : {} ; {} , {} : {} ; end record ;",
                self.simple_id(),
                self.simple_id(),
                self.subtype(),
                self.simple_id(),
                self.simple_id(),
                self.subtype()
            ),
            11 => format!("type {} is access {} ;", self.simple_id(), self.subtype()),
            12 => format!("type {} is file of {} ;", self.simple_id(), self.subtype()),
            13 => format!("type {} ;", self.simple_id()),
            14 => format!(
                "type {} is range 0 to 1e9 units fs ; ps = 1000 fs ; ns = 1000 ps ; end units {} ;",
                self.simple_id(),
                if self.rng.chance(1, 2) { self.simple_id() } else { String::new() }
            ),
            15 => format!(
                "type {} is protected procedure p ( x : integer ) ; impure function f return integer ; end protected ;",
                self.simple_id()
            ),
            16 => format!("type {} is protected body variable v : integer := 0 ; end protected body ;", self.simple_id()),
            17 => format!("subtype {} is {} ;", self.simple_id(), self.subtype()),
            18 => format!("alias {} : {} is {} ;", self.simple_id(), self.subtype(), self.name()),
            19 => format!("alias {} is {} [ integer , bit return boolean ] ;", *self.rng.pick(&["f2", "\"+\"", "'x'"]), self.name()),
            20 => format!("attribute {} : {} ;", self.simple_id(), TYPES[self.rng.below(5)]),
            21 => format!(
                "attribute {} of {} : {} is {} ;",
                self.simple_id(),
                *self.rng.pick(&["x", "all", "others", "a , b", "f [ integer return bit ]", "'c'", "\"and\""]),
                *self.rng.pick(&["signal", "entity", "function", "label", "literal", "type", "component"]),
                self.expr()
            ),
            22 => format!(
                "component {} {} generic ( {} ) ; port ( {} ) ; end component {} ;",
                self.simple_id(),
                if self.rng.chance(1, 2) { "is" } else { "" },
                self.iface_list(),
                self.iface_list(),
                if self.rng.chance(1, 2) { "c" } else { "" }
            ),
            23 => format!(
                "{} function {} ( {} ) return {} ;",
                *self.rng.pick(&["", "pure", "impure"]),
                *self.rng.pick(&["f", "\"+\"", "\"and\"", "g_2"]),
                self.iface_list(),
                TYPES[self.rng.below(TYPES.len())]
            ),
            24 => format!("procedure {} ( {} ) ;", self.simple_id(), self.iface_list()),
            25 => format!(
                "function {} ( {} ) return {} is {} begin {} return {} ; end function {} ;",
                *self.rng.pick(&["f", "\"+\"", "g"]),
                self.iface_list(),
                TYPES[self.rng.below(TYPES.len())],
                self.decl(),
                self.seq(),
                self.expr(),
                if self.rng.chance(1, 2) { "" } else { "f" }
            ),
            26 => format!(
                "procedure {} {} is {} begin {} {} end {} ;",
                self.simple_id(),
                if self.rng.chance(1, 2) { format!("( {} )", self.iface_list()) } else { String::new() },
                self.decl(),
                self.seq(),
                self.seq(),
                if self.rng.chance(1, 2) { "procedure" } else { "" }
            ),
            27 => format!("use {} . {} . all , work . {} ;", self.simple_id(), self.simple_id(), self.simple_id()),
            28 => format!(
                "package {} is new {} . {} generic map ( {} ) ;",
                self.simple_id(),
                self.simple_id(),
                self.simple_id(),
                self.assoc()
            ),
            29 => format!(
                "procedure {} is new {} generic map ( {} => {} ) ;",
                self.simple_id(),
                self.simple_id(),
                self.simple_id(),
                TYPES[self.rng.below(5)]
            ),
            30 => format!("function {} is new {} [ {} return {} ] generic map ( t => {} ) ;", self.simple_id(), self.simple_id(), TYPES[self.rng.below(5)], TYPES[self.rng.below(5)], TYPES[self.rng.below(5)]),
            31 => format!("package {} is new work . gp generic map ( {} ) ;", self.simple_id(), *self.rng.pick(&["<>", "default", "t => integer , f => <>", "x => open"])),
            32 => format!("group {} : {} ( {} , {} ) ;", self.simple_id(), self.simple_id(), self.simple_id(), *self.rng.pick(&["b", "'c'", "x . y"])),
            33 => format!("group {} is ( signal , label <> ) ;", self.simple_id()),
            34 => format!("disconnect {} : {} after {} ;", *self.rng.pick(&["s", "all", "others", "a , b"]), TYPES[self.rng.below(5)], self.expr()),
            35 => format!("for {} : {} use entity work . {} ( {} ) generic map ( {} ) port map ( {} ) ;", *self.rng.pick(&["all", "others", "u1 , u2"]), self.simple_id(), self.simple_id(), self.simple_id(), self.assoc(), self.assoc()),
            36 => format!("for all : {} use configuration work . cfg ; end for ;", self.simple_id()),
            37 => format!("subtype {} is {} ( {} ) ( {} ) ;", self.simple_id(), self.simple_id(), self.range(), *self.rng.pick(&["open", "0 to 1", "x ' range"])),
            38 => format!("subtype {} is {} ( {} ( {} ) , {} ( open ) ) ;", self.simple_id(), self.simple_id(), self.simple_id(), self.range(), self.simple_id()),
            39 => format!("use work . {} . {} , ieee . std_logic_1164 . {} ;", self.simple_id(), *self.rng.pick(&["\"+\"", "'a'", "all", "\"and\""]), *self.rng.pick(&["all", "std_logic", "\"=\""])),
            40 => format!("attribute {} of {} : {} is {} ;", self.simple_id(), *self.rng.pick(&["a , b , c", "\"+\" [ integer , integer return integer ] , f", "all", "'0' , '1'"]), *self.rng.pick(&["signal", "function", "literal", "variable"]), self.expr()),
            41 => format!("signal {} : {} bus := {} ;", self.simple_id(), self.subtype(), self.expr()),
            42 => format!("function {} parameter ( {} ) return {} ;", *self.rng.pick(&["f", "\"-\"", "g_2"]), self.iface_list(), TYPES[self.rng.below(5)]),
            43 => format!("procedure {} parameter ( {} ) ;", self.simple_id(), self.iface_list()),
            44 => format!("procedure {} generic ( type t ; n : natural := 3 ) parameter ( x : t ) ;", self.simple_id()),
            45 => format!("function {} generic ( type t ) generic map ( t => bit ) ( x : t ) return t ;", self.simple_id()),
            46 => format!("alias {} is {} ;", *self.rng.pick(&["a2", "'z'", "\"or\""]), self.name()),
            47 => format!("type {} is array ( {} ' range ( 1 ) , {} range <> ) of {} ;", self.simple_id(), self.simple_id(), TYPES[self.rng.below(2)], self.subtype()),
            _ => format!("file {} , {} : {} ;", self.simple_id(), self.simple_id(), self.simple_id()),
        };
        self.depth -= 1;
        r
    }
    fn conc(&mut self) -> String {
        if self.depth > 3 {
            return format!("{} <= {} ;", self.simple_id(), self.simple_id());
        }
        self.depth += 1;
        let l = self.label();
        let r = match self.rng.below(30) {
            0 => format!("{}{} <= {}{} ;", l, self.name(), self.delay(), self.waveform()),
            1 => format!(
                "{}{} <= {}{} when {} else {} when {} else {} ;",
                l,
                self.name(),
                if self.rng.chance(1, 4) { "guarded " } else { "" },
                self.waveform(),
                self.expr(),
                self.waveform(),
                self.expr(),
                self.waveform()
            ),
            2 => format!(
                "{}with {} select{} {} <= {}{} when {} , {} when others ;",
                l,
                self.expr(),
                if self.rng.chance(1, 3) { " ?" } else { "" },
                self.name(),
                self.delay(),
                self.waveform(),
                self.choices(),
                self.waveform()
            ),
            3 => format!(
                "{}{}process {} {} {} begin {} {} end {}process {} ;",
                if l.is_empty() { "p1 : ".to_string() } else { l.clone() },
                if self.rng.chance(1, 5) { "postponed " } else { "" },
                *self.rng.pick(&["", "( all )", "( clk , rst_n )", "( a . b , c ( 1 ) )"]),
                if self.rng.chance(1, 2) { "is" } else { "" },
                self.decl(),
                self.seq(),
                self.seq(),
                "",
                if self.rng.chance(1, 3) { "p1" } else { "" }
            ),
            4 => format!("process begin {} wait ; end process ;", self.seq()),
            5 => format!(
                "u_{} : {} generic map ( {} ) port map ( {} ) ;",
                self.rng.below(9),
                *self.rng.pick(&["comp", "component comp", "entity work . ent", "entity work . ent ( rtl )", "configuration work . cfg"]),
                self.assoc(),
                self.assoc()
            ),
            6 => format!("u_{} : entity lib . e port map ( {} ) ;", self.rng.below(9), self.assoc()),
            7 => format!(
                "b_{} : block {} {} {} begin {} end block {} ;",
                self.rng.below(9),
                if self.rng.chance(1, 3) { format!("( {} )", self.expr()) } else { String::new() },
                if self.rng.chance(1, 2) { "is" } else { "" },
                self.decl(),
                self.conc(),
                if self.rng.chance(1, 2) { "" } else { "b" }
            ),
            8 => format!(
                "g_{} : for {} in {} generate {} end generate {} ;",
                self.rng.below(9),
                self.simple_id(),
                self.range(),
                self.conc(),
                if self.rng.chance(1, 2) { "" } else { "g" }
            ),
            9 => format!(
                "g_{} : for {} in {} generate {} begin {} end ; end generate ;",
                self.rng.below(9),
                self.simple_id(),
                self.range(),
                self.decl(),
                self.conc()
            ),
            10 => format!(
                "g_{} : if {} generate {} elsif alt2 : {} generate {} else generate {} end generate ;",
                self.rng.below(9),
                self.expr(),
                self.conc(),
                self.expr(),
                self.conc(),
                self.conc()
            ),
            11 => format!(
                "g_{} : case {} generate when {} => {} when l2 : others => {} end generate ;",
                self.rng.below(9),
                self.expr(),
                self.choices(),
                self.conc(),
                self.conc()
            ),
            12 => format!("{}assert {} report {} severity error ;", l, self.expr(), self.expr()),
            13 => format!("{}postponed assert {} ;", l, self.expr()),
            14 => format!("{}{} ( {} ) ;", l, self.simple_id(), self.assoc()),
            15 => format!("{}{} ;", l, self.simple_id()),
            16 => format!(
                "b_{} : block generic ( {} ) ; generic map ( {} ) ; port ( {} ) ; port map ( {} ) ; begin end block ;",
                self.rng.below(9),
                self.iface_list(),
                self.assoc(),
                self.iface_list(),
                self.assoc()
            ),
            17 => format!("{}{} <= {} ;", l, self.aggregate(), self.expr()),
            18 => format!("{}postponed {} <= {} ;", l, self.name(), self.expr()),
            19 => format!("{}assert {} severity {} ;", l, self.expr(), *self.rng.pick(&["failure", "error", "note"])),
            20 => format!("{}postponed assert {} severity {} ;", if l.is_empty() { "al : ".to_string() } else { l.clone() }, self.expr(), self.expr()),
            21 => format!("{}{} <= guarded {} ;", l, self.name(), self.waveform()),
            22 => format!("{}postponed {} ( {} ) ;", l, self.simple_id(), self.assoc()),
            23 => format!("{}process ( {} ) is begin {} end postponed process ;", if self.rng.chance(1, 2) { "postponed " } else { "" }, self.name(), self.seq()),
            24 => format!("u_{} : component {} ;", self.rng.below(9), self.simple_id()),
            25 => format!("u_{} : {} port map ( {} => {} , {} ( {} ) => {} ( {} ) , {} => open ) ;", self.rng.below(9), self.simple_id(), self.simple_id(), self.expr(), self.simple_id(), self.simple_id(), self.simple_id(), self.expr(), self.name()),
            26 => format!("g_{} : if l1 : {} generate {} end l1 ; else l2 : generate {} end l2 ; end generate g_x ;", self.rng.below(9), self.expr(), self.conc(), self.conc()).replace("g_x", ""),
            27 => format!("{}{} <= {} when {} else {} ;", l, self.aggregate(), self.waveform(), self.expr(), self.waveform()),
            28 => format!("with {} select {} <= guarded transport {} when {} , {} when others ;", self.expr(), self.aggregate(), self.waveform(), self.choices(), self.waveform()),
            _ => format!("{}{} <= {} ;", l, self.name(), self.expr()),
        };
        self.depth -= 1;
        r
    }
}

fn accepted(ctx: &Ctx, text: &str) -> bool {
    matches!(catch_unwind(AssertUnwindSafe(|| parse(ctx, text).1.is_empty())), Ok(true))
}

fn gen_program(ctx: &Ctx, rng: &mut Rng) -> String {
    let mut decls: Vec<String> = Vec::new();
    let mut concs: Vec<String> = Vec::new();
    let nd = rng.below(5);
    let nc = 1 + rng.below(5);
    let mut tries = 0;
    while (decls.len() < nd || concs.len() < nc) && tries < 60 {
        tries += 1;
        if decls.len() < nd {
            let d = {
                let mut g = Gen { rng, depth: 0 };
                g.decl()
            };
            if accepted(ctx, &format!("architecture a of e is {} begin end ;", d)) {
                decls.push(d);
            }
        }
        if concs.len() < nc {
            let c = {
                let mut g = Gen { rng, depth: 0 };
                g.conc()
            };
            if accepted(ctx, &format!("architecture a of e is begin {} end ;", c)) {
                concs.push(c);
            }
        }
    }
    let mut g = Gen { rng, depth: 0 };
    let mut units: Vec<String> = Vec::new();
    let ctxc = *g.rng.pick(&[
        "",
        "library ieee ; use ieee . std_logic_1164 . all ;",
        "library ieee , work ; use ieee . numeric_std . all , work . pkg . all ; context work . ctx ;",
    ]);
    for _ in 0..1 + g.rng.below(3) {
        let u = match g.rng.below(8) {
            0 => format!(
                "{} entity ent is generic ( {} ) ; port ( {} ) ; {} begin {} end entity ent ;",
                ctxc,
                g.iface_list(),
                g.iface_list(),
                decls.first().cloned().unwrap_or_default(),
                "assert true ;"
            ),
            1 => format!("{} entity e2 is end ;", ctxc),
            2 | 3 => format!(
                "{} architecture rtl of ent is {} begin {} end architecture rtl ;",
                ctxc,
                decls.join(" "),
                concs.join(" ")
            ),
            4 => format!(
                "{} package pkg is {} {} end package pkg ;",
                ctxc,
                if g.rng.chance(1, 4) { format!("generic ( {} ) ;", g.iface_list()) } else { String::new() },
                decls.iter().filter(|d| !d.contains(" begin ") && !d.contains("protected body")).cloned().collect::<Vec<_>>().join(" ")
            ),
            5 => format!("{} package body pkg is {} end package body ;", ctxc, decls.iter().filter(|d| !d.starts_with("signal") && !d.starts_with("component")).cloned().collect::<Vec<_>>().join(" ")),
            6 => format!(
                "configuration cfg of ent is use work . all ; for rtl for u_1 : comp use entity work . e ( a ) generic map ( {} ) port map ( {} ) ; end for ; for all : c2 use open ; end for ; for g_1 ( 0 to 3 ) for others : c3 use configuration work . c ; end for ; end for ; end for ; end configuration cfg ;",
                g.assoc(),
                g.assoc()
            ),
            _ => "context ctx is library ieee ; use ieee . std_logic_1164 . all ; context work . other ; end context ctx ;".to_string(),
        };
        if accepted(ctx, &u) {
            units.push(u);
        }
    }
    if units.is_empty() {
        units.push(format!("architecture rtl of ent is begin {} end ;", concs.join(" ")));
    }
    units.join("\n")
}


// ---------------------------------------------------------------------------------------------
// the 'optional tokens' family: every construct with an optional label / end label / end keyword /
// optional keyword is rendered with EVERY combination of its optional parts (deterministic, exhaustive
// per template; combinations the parser rejects are outside the property and skipped)
// ---------------------------------------------------------------------------------------------
#[derive(Clone, Copy)]
enum Seg {
    F(&'static str),            // fixed text
    O(&'static str),            // optional text
    A(&'static [&'static str]), // one of the alternatives
}
#[derive(Clone, Copy)]
enum Wrap {
    Unit,     // a design unit (or several) as it is
    Seq,      // sequential statement inside a process
    SeqLoop,  // sequential statement inside a loop inside a process
    SeqFun,   // sequential statement inside a function body
    Conc,     // concurrent statement inside an architecture
    Decl,     // declaration inside an architecture
    PkgDecl,  // declaration inside a package
    BodyDecl, // declaration inside a package body
    Iface,    // interface element of a procedure declaration
    Port,     // interface element of an entity port clause
}
use Seg::{A, F, O};

const OPT_TEMPLATES: &[(Wrap, &[Seg])] = &[
    // ---- sequential statements
    (Wrap::Seq, &[O("lbl :"), F("case"), O("?"), F("x is when a => null ; when others => null ; end case"), O("?"), O("lbl"), F(";")]),
    (Wrap::Seq, &[O("lbl :"), F("if c then null ;"), O("elsif d then null ;"), O("else null ;"), F("end if"), O("lbl"), F(";")]),
    (Wrap::Seq, &[O("lbl :"), A(&["", "for i in 0 to 3", "while c"]), F("loop null ;"), O("next"), F("end loop"), O("lbl"), F(";")]),
    (Wrap::SeqLoop, &[O("l2 :"), A(&["next", "exit"]), O("lbl"), O("when c"), F(";")]),
    (Wrap::Seq, &[O("lbl :"), F("s <="), A(&["", "transport", "inertial", "reject 1 ns inertial"]), F("a"), O("after 1 ns"), O(", b after 2 ns"), F(";")]),
    (Wrap::Seq, &[O("lbl :"), F("s <="), A(&["force", "force in", "force out", "release", "release in", "release out"]), O("a"), F(";")]),
    (Wrap::Seq, &[O("lbl :"), F("s <="), O("transport"), F("a when c"), O("else b when d"), O("else e"), F(";")]),
    (Wrap::Seq, &[O("lbl :"), F("v := a"), O("when c else b"), F(";")]),
    (Wrap::Seq, &[O("lbl :"), F("with x select"), O("?"), F("s <="), A(&["", "transport", "force", "force in"]), F("a when 1 , b when others ;")]),
    (Wrap::Seq, &[O("lbl :"), F("with x select"), O("?"), F("v := a when 1 | 2 , b when others ;")]),
    (Wrap::Seq, &[O("lbl :"), F("assert c"), O("report \"m\""), O("severity error"), F(";")]),
    (Wrap::Seq, &[O("lbl :"), F("report \"m\""), O("severity note"), F(";")]),
    (Wrap::Seq, &[O("lbl :"), F("wait"), O("on a , b"), O("until c"), O("for 1 ns"), F(";")]),
    (Wrap::Seq, &[O("lbl :"), A(&["null", "p", "p ( a , b )", "p ( x => a )", "lib . pkg . p ( 1 )"]), F(";")]),
    (Wrap::SeqFun, &[O("lbl :"), F("return"), O("x + 1"), F(";")]),
    // ---- concurrent statements
    (Wrap::Conc, &[O("lbl :"), O("postponed"), F("process"), A(&["", "( a , b )", "( all )"]), O("is"), O("variable v : t ;"), F("begin null ; end"), O("postponed"), F("process"), O("lbl"), F(";")]),
    (Wrap::Conc, &[F("lbl : block"), O("( g )"), O("is"), O("generic ( n : natural ) ;"), O("generic map ( n => 1 ) ;"), O("port ( p : in bit ) ;"), O("port map ( p => s ) ;"), O("signal x : bit ;"), F("begin"), O("x <= '1' ;"), F("end block"), O("lbl"), F(";")]),
    (Wrap::Conc, &[F("g : for i in 0 to 1 generate"), O("signal x : bit ;"), O("begin"), O("s <= a ;"), O("end ;"), F("end generate"), O("g"), F(";")]),
    (Wrap::Conc, &[F("g : for i in 0 to 1 generate"), O("alt :"), F("begin s <= a ; end"), O("alt"), F("; end generate"), O("g"), F(";")]),
    (Wrap::Conc, &[F("g : if"), O("a1 :"), F("c generate"), O("signal x : bit ;"), O("begin"), F("s <= a ;"), A(&["", "end ;", "end a1 ;"]), O("elsif d generate s <= b ;"), A(&["", "else generate s <= c ;", "else a3 : generate s <= c ; end a3 ;", "else a3 : generate begin s <= c ; end ;"]), F("end generate"), O("g"), F(";")]),
    (Wrap::Conc, &[F("g : if c generate s <= a ; elsif"), O("a2 :"), F("d generate"), O("begin"), F("s <= b ;"), A(&["", "end ;", "end a2 ;"]), F("end generate"), O("g"), F(";")]),
    (Wrap::Conc, &[F("g : case x generate when"), O("a1 :"), F("1 | 2 =>"), O("signal y : bit ; begin"), F("s <= a ;"), A(&["", "end ;", "end a1 ;"]), F("when"), O("a2 :"), F("others =>"), O("begin"), F("s <= b ;"), A(&["", "end ;", "end a2 ;"]), F("end generate"), O("g"), F(";")]),
    (Wrap::Conc, &[F("u1 :"), A(&["c", "component c", "entity work . e", "entity work . e ( a )", "configuration work . cfg"]), O("generic map ( n => 1 )"), O("port map ( p => s , q => open )"), F(";")]),
    (Wrap::Conc, &[O("lbl :"), O("postponed"), F("s <="), O("guarded"), A(&["", "transport", "inertial", "reject 1 ns inertial"]), F("a"), O("after 1 ns"), O("when c else b"), F(";")]),
    (Wrap::Conc, &[O("l :"), O("postponed"), A(&["( a , b )", "<< signal . tb . s : bit >>", "s ( 1 ) . f", "lib . p . s"]), F("<="), O("guarded"), O("transport"), A(&["x", "x after 1 ns", "x after 1 ns when c else y", "x when c else y when d", "x when c else unaffected"]), F(";")]),
    (Wrap::Conc, &[O("l :"), O("postponed"), F("with x select"), O("?"), A(&["s", "( a , b )", "<< signal . tb . s : bit >>"]), F("<="), O("guarded"), A(&["", "transport", "reject 2 ns inertial"]), F("a after 1 ns when 1 | 2 , b when others ;")]),
    (Wrap::Decl, &[F("attribute at of"), A(&["'a'", "'a' , 'b'", "x , 'c' , \"+\""]), F(":"), A(&["literal", "signal"]), F("is"), A(&["1", "'1'"]), F(";")]),
    (Wrap::Decl, &[F("for"), A(&["all", "others", "u1"]), F(": c use"), A(&["open", "entity work . e", "configuration work . cfg"]), F(";"), O("use std . textio . all ;"), O("end for ;"), O("use work . p . all ;")]),
    (Wrap::Decl, &[F("constant k : t :="), A(&["16:FF:", "2:1:E3", "16:F.8:", "16:F.8:e-1", "10:9:", "16#FF#", "2#1#E3"]), O("+ 8:7:"), O("- 1"), F(";")]),
    (Wrap::Seq, &[O("lbl :"), F("s <="), A(&["", "transport", "reject 16:A: ns inertial"]), A(&["16:FF:", "x ( 2:1: )"]), O("after 16:1: ns"), F(";")]),
    (Wrap::Conc, &[O("lbl :"), O("postponed"), F("with x select"), O("?"), F("s <="), O("guarded"), O("transport"), F("a when 1 , b"), O("after 1 ns"), F("when others ;")]),
    (Wrap::Conc, &[O("lbl :"), O("postponed"), F("assert c"), O("report \"m\""), O("severity error"), F(";")]),
    (Wrap::Conc, &[O("lbl :"), O("postponed"), A(&["p", "p ( a , b )", "work . pkg . p ( x => a )"]), F(";")]),
    // ---- declarations
    (Wrap::Decl, &[A(&["", "pure", "impure"]), F("function f"), O("generic ( type t )"), O("parameter"), O("( x : t ; y : in t := 1 )"), F("return t"), O("is"), F(";")]),
    (Wrap::Decl, &[A(&["", "pure", "impure"]), F("function"), A(&["f", "\"+\""]), O("parameter"), O("( x : t )"), F("return t is"), O("variable v : t ;"), F("begin return x ; end"), O("function"), A(&["", "f", "\"+\""]), F(";")]),
    (Wrap::Decl, &[F("procedure p"), O("generic ( n : natural )"), O("parameter"), O("( x : in t ; signal s : out t )"), F(";")]),
    (Wrap::Decl, &[F("procedure p"), O("parameter"), O("( x : in t )"), F("is"), O("variable v : t ;"), F("begin null ; end"), O("procedure"), O("p"), F(";")]),
    (Wrap::Decl, &[F("package p is"), O("generic ( n : natural ) ;"), O("generic map ( n => 1 ) ;"), O("constant c : t := 1 ;"), F("end"), O("package"), O("p"), F(";")]),
    (Wrap::Decl, &[F("package body p is"), O("constant c : t := 1 ;"), F("end"), O("package body"), O("p"), F(";")]),
    (Wrap::Decl, &[F("package p is new work . gp"), O("generic map ( t => bit , n => <> )"), F(";")]),
    (Wrap::Decl, &[A(&["function f", "procedure q"]), F("is new g"), O("[ bit return bit ]"), O("generic map ( t => bit )"), F(";")]),
    (Wrap::PkgDecl, &[F("type r is record a : t ;"), O("b , c : t ;"), F("end record"), O("r"), F(";")]),
    (Wrap::PkgDecl, &[F("type pt is protected"), O("procedure q ;"), O("impure function f return t ;"), F("end protected"), O("pt"), F(";")]),
    (Wrap::BodyDecl, &[F("type pt is protected body"), O("variable v : t ;"), O("procedure q is begin null ; end ;"), F("end protected body"), O("pt"), F(";")]),
    (Wrap::PkgDecl, &[F("type ph is range 0 to 10 units fs ;"), O("ps = 1000 fs ;"), O("ns = 1000 ps ;"), F("end units"), O("ph"), F(";")]),
    (Wrap::Decl, &[F("component c"), O("is"), O("generic ( n : natural ) ;"), O("port ( p : in bit ) ;"), F("end component"), O("c"), F(";")]),
    (Wrap::Decl, &[O("shared"), F("variable v : t"), O(":= 1"), F(";")]),
    (Wrap::Decl, &[F("signal s , s2 : t"), A(&["", "register", "bus"]), O(":= 1"), F(";")]),
    (Wrap::Decl, &[F("file f : text"), A(&["", "is \"x\"", "open read_mode is \"x\""]), F(";")]),
    (Wrap::Decl, &[F("alias"), A(&["a", "\"+\"", "'c'"]), O(": t"), F("is b"), O("[ integer , bit return bit ]"), F(";")]),
    (Wrap::Decl, &[F("attribute a of"), A(&["x", "x , y", "all", "others", "f [ t return t ]"]), F(":"), A(&["signal", "function", "label"]), F("is 1 ;")]),
    (Wrap::Decl, &[F("for"), A(&["all", "others", "u1", "u1 , u2"]), F(": c"), A(&["", "use open", "use entity work . e", "use entity work . e ( a )", "use configuration work . cfg"]), O("generic map ( n => 1 )"), O("port map ( p => s )"), F(";"), O("end for ;")]),
    (Wrap::Decl, &[F("subtype st is"), O("resolved"), F("t"), A(&["", "( 0 to 3 )", "range 0 to 3", "( open ) ( 0 to 1 )"]), F(";")]),
    (Wrap::Decl, &[F("type at is array ("), A(&["natural range <>", "0 to 3", "t", "t range 0 to 1 , bit"]), F(") of"), O("resolved"), F("t ;")]),
    (Wrap::Decl, &[F("use"), A(&["work . p . all", "work . p . \"+\"", "work . p . 'a' , ieee . q . x"]), F(";")]),
    (Wrap::Iface, &[A(&["", "signal", "variable", "constant", "file"]), F("x"), O(", y"), F(":"), A(&["", "in", "out", "inout", "buffer", "linkage"]), F("t"), O("bus"), O(":= 1")]),
    (Wrap::Port, &[O("signal"), F("x"), O(", y"), F(":"), A(&["", "in", "out", "inout", "buffer"]), F("t"), O("( 0 to 1 )"), O("bus"), O(":= '0'")]),
    // ---- literals whose text is re-emitted verbatim
    (Wrap::Decl, &[F("constant k : t :="), A(&["x\"FF\"", "12sb\"01\"", "B\"1_0\"", "\"a\"\"b\"", "'c'", "\\e x\\", "1.5e-3", "16#F.F#e+1"]), F("&"), A(&["ux\"f\"", "8SX\"F\"", "\"\"", "'''"]), F(";")]),
    // ---- VHDL-2019 (accepted by the 2019 parser only)
    (Wrap::Port, &[F("a : in bit ; b : out bit"), O(";")]),
    (Wrap::Iface, &[F("x : t ; signal y : out t"), O(";")]),
    (Wrap::Decl, &[F("component c"), O("is"), O("generic ( n : natural"), O("; ) ;"), O("port ( p : in bit ; ) ;"), F("end"), O("component"), O("c"), F(";")]),
    (Wrap::Decl, &[A(&["", "pure", "impure"]), F("function f"), O("parameter"), O("( x : t )"), F("return"), O("r of"), F("t"), O("is begin return x ; end function f"), F(";")]),
    (Wrap::Decl, &[A(&["constant k : t :=", "signal s : t :=", "variable v : t :=", "attribute at of x : signal is"]), F("0 when c"), O("else 1 when d"), O("else 2"), F(";")]),
    (Wrap::Seq, &[O("lbl :"), A(&["v :=", "return"]), F("( 0 when c else 1 )"), F(";")]),
    (Wrap::Decl, &[F("view v of r is a : in ;"), O("b , c : out ;"), O("d : view w ;"), F("end view"), O("v"), F(";")]),
    (Wrap::Decl, &[F("view v of r is"), A(&["a : inout ;", "a : buffer ;", "a , b : linkage ;", "a : view ( w ) ;", "a : view w . x ;"]), O("z : in ;"), F("end view ;")]),
    (Wrap::Iface, &[F("signal x :"), A(&["view v", "view ( v )", "view v of r", "view ( v ) of r"]), O("; y : t")]),
    (Wrap::Port, &[F("x :"), A(&["view v", "view ( w . v )", "view v of r"]), O(";")]),
    // ---- design units
    (Wrap::Unit, &[O("library ieee , work ;"), O("use ieee . std_logic_1164 . all ;"), O("context work . ctx ;"), F("entity e is"), O("generic ( n : natural := 1 ) ;"), O("port ( p : in bit ) ;"), O("constant c : t := 1 ;"), O("begin"), O("assert true ;"), F("end"), O("entity"), O("e"), F(";")]),
    (Wrap::Unit, &[O("library l ;"), F("architecture a of e is"), O("signal s : bit ;"), F("begin"), O("s <= '1' ;"), F("end"), O("architecture"), O("a"), F(";")]),
    (Wrap::Unit, &[F("package p is"), O("generic ( n : natural ) ;"), O("constant c : t ;"), F("end"), O("package"), O("p"), F(";")]),
    (Wrap::Unit, &[F("package body p is"), O("constant c : t := 1 ;"), F("end"), O("package body"), O("p"), F(";")]),
    (Wrap::Unit, &[F("package p is new work . gp"), O("generic map ( n => 1 )"), F(";")]),
    (Wrap::Unit, &[F("configuration c of"), A(&["e", "work . e"]), F("is"), O("use work . all ;"), F("for a"), O("for u1 : comp use entity work . e ; end for ;"), O("for all : c2 end for ;"), O("for g ( 0 to 1 ) end for ;"), F("end for ; end"), O("configuration"), O("c"), F(";")]),
    (Wrap::Unit, &[F("context c is"), O("library l ;"), O("use l . p . all ;"), O("context l . c2 ;"), F("end"), O("context"), O("c"), F(";")]),
];

fn opt_wrap(w: Wrap, frag: &str) -> String {
    match w {
        Wrap::Unit => frag.to_string(),
        Wrap::Seq => format!("architecture a of e is begin process begin {} end process ; end ;", frag),
        Wrap::SeqLoop => format!("architecture a of e is begin process begin lbl : loop {} end loop lbl ; end process ; end ;", frag),
        Wrap::SeqFun => format!("package body p is function f ( x : t ) return t is begin {} end ; end ;", frag),
        Wrap::Conc => format!("architecture a of e is begin {} end ;", frag),
        Wrap::Decl => format!("architecture a of e is {} begin end ;", frag),
        Wrap::PkgDecl => format!("package p is {} end ;", frag),
        Wrap::BodyDecl => format!("package body p is {} end ;", frag),
        Wrap::Iface => format!("package p is procedure q ( {} ) ; end ;", frag),
        Wrap::Port => format!("entity e is port ( {} ) ; end ;", frag),
    }
}

/// every combination of the optional parts of a template
fn opt_expand(segs: &[Seg]) -> Vec<String> {
    let mut out: Vec<String> = vec![String::new()];
    for s in segs {
        let alts: Vec<&str> = match s {
            F(t) => vec![*t],
            O(t) => vec!["", *t],
            A(ts) => ts.to_vec(),
        };
        let mut next = Vec::with_capacity(out.len() * alts.len());
        for pre in &out {
            for a in &alts {
                let mut t = pre.clone();
                if !a.is_empty() {
                    if !t.is_empty() {
                        t.push(' ');
                    }
                    t.push_str(a);
                }
                next.push(t);
            }
        }
        out = next;
    }
    out
}

// ---------------------------------------------------------------------------------------------
/// `U <code points>` (standard of the run), `U93 ...`, `U19 ...` (that standard); returns (forced standard, text)
fn parse_u_line(line: &str) -> Option<(Option<usize>, String)> {
    let mut it = line.split_whitespace();
    let forced = match it.next()? {
        "U" => None,
        "U93" => Some(0),
        "U08" => Some(1),
        "U19" => Some(2),
        _ => return None,
    };
    let mut s = String::new();
    for x in it {
        s.push(char::from_u32(x.parse::<u32>().ok()?)?);
    }
    Some((forced, s))
}
fn u_line(std: usize, text: &str) -> String {
    let mut out = String::from(if std == 1 { "U08" } else { STD_TAGS[std] });
    for ch in text.chars() {
        write!(out, " {}", ch as u32).unwrap();
    }
    out
}

fn main() {
    let args: Vec<String> = std::env::args().collect();
    let mode = args[1].clone();
    if let Some(file) = mode.strip_prefix("min:") {
        // debugging aid: token-level delta debugging of a failing source (keeps "clean input, BAD verdict")
        let text = std::fs::read_to_string(file).unwrap();
        let ctx = Ctx::new(std_index(&std::env::var("C12_STD").unwrap_or_default()));
        std::panic::set_hook(Box::new(|_| {}));
        let bad = |t: &str| -> bool {
            let v = run_case(&ctx, t).verdict;
            v.starts_with("BAD") || v.starts_with("PANIC")
        };
        if !bad(&text) {
            eprintln!("not failing");
            return;
        }
        let (df, _) = parse(&ctx, &text);
        let (pieces, tail) = cut(&ctx, &text, &df).unwrap();
        let mut items: Vec<String> = pieces.iter().map(|p| format!("{}{}", p.gap, p.lexeme)).collect();
        items.push(tail);
        let join = |v: &Vec<String>| v.concat();
        let mut chunk = items.len() / 2;
        while chunk >= 1 {
            let mut i = 0;
            let mut progress = false;
            while i < items.len() {
                let mut cand = items.clone();
                let e = (i + chunk).min(cand.len());
                cand.drain(i..e);
                if !cand.is_empty() && bad(&join(&cand)) {
                    items = cand;
                    progress = true;
                } else {
                    i += chunk;
                }
            }
            if !progress {
                if chunk == 1 {
                    break;
                }
                chunk /= 2;
            }
        }
        // simplify gaps
        let cur = join(&items);
        let (df, d) = parse(&ctx, &cur);
        let mut best = cur.clone();
        if d.is_empty() {
            if let Some((pieces, tail)) = cut(&ctx, &cur, &df) {
                let mut gaps: Vec<String> = pieces.iter().map(|p| p.gap.clone()).collect();
                let build = |gaps: &Vec<String>, tail: &str| -> String {
                    let mut o = String::new();
                    for (g, p) in gaps.iter().zip(pieces.iter()) {
                        o.push_str(g);
                        o.push_str(&p.lexeme);
                    }
                    o.push_str(tail);
                    o
                };
                let mut tl = tail.clone();
                if bad(&build(&gaps, "")) {
                    tl = String::new();
                }
                for i in 0..gaps.len() {
                    for rep in ["", " ", "\n"] {
                        if gaps[i] == rep {
                            break;
                        }
                        let old = std::mem::replace(&mut gaps[i], rep.to_string());
                        if bad(&build(&gaps, &tl)) {
                            break;
                        }
                        gaps[i] = old;
                    }
                }
                best = build(&gaps, &tl);
            }
        }
        println!("{}", best);
        eprintln!("verdict: {}", run_case(&ctx, &best).verdict);
        return;
    }
    if let Some(file) = mode.strip_prefix("show:") {
        // debugging aid: print the formatter's output for a UTF-8 file
        let text = std::fs::read_to_string(file).unwrap();
        let ctx = Ctx::new(std_index(&std::env::var("C12_STD").unwrap_or_default()));
        let (df, d) = parse(&ctx, &text);
        for x in d.iter() {
            eprintln!("input diagnostic at {}: {}", fmt_range(&x.pos.range), x.message);
        }
        let out = VHDLFormatter::format_design_file(&df);
        print!("{}", out);
        let (_, d2) = parse(&ctx, &out);
        for x in d2.iter() {
            eprintln!("output diagnostic at {}: {}", fmt_range(&x.pos.range), x.message);
        }
        eprintln!("verdict: {}", check_source(&ctx, &text).verdict);
        return;
    }
    let seed: u64 = args[2].parse().unwrap();
    let n: usize = args[3].parse().unwrap();
    let mut cases_out = std::io::BufWriter::new(std::fs::File::create(&args[4]).unwrap());
    let mut impl_out = std::io::BufWriter::new(std::fs::File::create(&args[5]).unwrap());
    let mut model_in = std::io::BufWriter::new(std::fs::File::create(&args[6]).unwrap());
    std::panic::set_hook(Box::new(|_| {}));
    let run_std = args.get(7).map(|s| std_index(s)).unwrap_or(1);

    let worker = std::thread::Builder::new().stack_size(512 << 20).spawn(move || {
        let ctx = Ctx::new(run_std);
        let mut rng = Rng::new(seed).fork();
        let mut emit = |text: &str| -> bool {
            writeln!(cases_out, "{}", u_line(ctx.cur.get(), text)).unwrap();
            cases_out.flush().unwrap();
            let o = run_case(&ctx, text);
            writeln!(impl_out, "{}|{}|{}|{}|{}", o.verdict, o.units, o.tokens, o.comments, o.out_tokens).unwrap();
            writeln!(model_in, "{}", o.model_in).unwrap();
            !o.verdict.starts_with("SKIP")
        };
        // in the `opt` family the first variant of every combination has a comment at EVERY token gap
        let every_gap_first = mode == "opt";
        let mut with_variants = |emit: &mut dyn FnMut(&str) -> bool, rng: &mut Rng, text: &str, k: usize| {
            if !emit(text) {
                return;
            }
            if k == 0 {
                return;
            }
            let (df, d) = parse(&ctx, text);
            if !d.is_empty() {
                return;
            }
            let Some((pieces, tail)) = cut(&ctx, text, &df) else { return };
            for j in 0..k {
                let style = if every_gap_first && j == 0 { 1 } else if k >= 7 { j % 7 } else { rng.below(7) };
                let v = variant(rng, &pieces, &tail, style);
                emit(&v);
            }
        };
        if let Some(list) = mode.strip_prefix("files:") {
            for path in std::fs::read_to_string(list).unwrap().lines() {
                if path.trim().is_empty() {
                    continue;
                }
                let Ok(bytes) = std::fs::read(path.trim()) else { continue };
                let text: String = bytes.iter().map(|&b| b as char).collect();
                with_variants(&mut emit, &mut rng, &text, n);
            }
        } else if let Some(file) = mode.strip_prefix("cases:") {
            for line in std::fs::read_to_string(file).unwrap().lines() {
                let Some((forced, frag)) = parse_u_line(line) else { continue };
                ctx.cur.set(forced.unwrap_or(run_std));
                let mut chosen = None;
                for w in wrappers(&frag) {
                    if accepted(&ctx, &w) {
                        let nt: usize = parse(&ctx, &w).0.design_units.iter().map(|(t, _)| t.len()).sum();
                        if nt > 0 {
                            chosen = Some(w);
                            break;
                        }
                    }
                }
                if let Some(w) = chosen {
                    with_variants(&mut emit, &mut rng, &w, n);
                }
            }
        } else if let Some(file) = mode.strip_prefix("replay:") {
            for line in std::fs::read_to_string(file).unwrap().lines() {
                if line.trim().is_empty() || line.starts_with('#') {
                    continue;
                }
                if let Some((forced, t)) = parse_u_line(line) {
                    ctx.cur.set(forced.unwrap_or(run_std));
                    emit(&t);
                }
            }
        } else if mode == "opt" {
            // the 'optional tokens' family; n = number of variants of every accepted combination
            let mut seen = std::collections::HashSet::new();
            for (w, segs) in OPT_TEMPLATES.iter() {
                for frag in opt_expand(segs) {
                    let text = opt_wrap(*w, &frag);
                    if !seen.insert(text.clone()) {
                        continue;
                    }
                    if !accepted(&ctx, &text) {
                        continue;
                    }
                    with_variants(&mut emit, &mut rng, &text, n);
                }
            }
        } else if mode == "gen" {
            for _ in 0..n {
                let p = gen_program(&ctx, &mut rng);
                with_variants(&mut emit, &mut rng, &p, 2);
            }
        }
        impl_out.flush().unwrap();
        model_in.flush().unwrap();
    });
    worker.unwrap().join().unwrap();
}
