//! Generator of LRM-valid VHDL-2008 design files (valid by construction: every production below is
//! a direct instance of the LRM grammar, expressions are generated per type) as a sequence of
//! LEXEMES, and two printers: generous spacing (blanks, tabs, line breaks, comments between any two
//! lexemes) and minimal legal spacing (a separator only where the LRM requires one: between two
//! adjacent lexemes that would otherwise fuse, 15.3).
use verif_harness::rng::Rng;

pub struct G<'a> {
    rng: &'a mut Rng,
    out: Vec<String>,
    n: usize,
    ints: Vec<String>,
    bits: Vec<String>,
    vecs: Vec<String>,
    bools: Vec<String>,
    reals: Vec<String>,
    funcs: Vec<String>,
    in_function: bool,
    sens: bool,
    in_arch: bool,
}

impl<'a> G<'a> {
    /// emit the blank-separated lexemes of s
    fn e(&mut self, s: &str) {
        for t in s.split_whitespace() {
            self.out.push(t.to_string());
        }
    }
    /// emit one lexeme verbatim (may hold blanks: strings, character literals)
    fn t(&mut self, s: &str) {
        self.out.push(s.to_string());
    }
    fn fresh(&mut self, p: &str) -> String {
        self.n += 1;
        let styles = ["", "_x", "_Q1", "0"];
        if self.rng.chance(1, 12) {
            // extended identifier (LRM 15.4.3): any graphic characters, backslash doubled
            let inner = ["x y", "a\\\\b", "entity", "1+1", "it's", "q\"q", "--c", "a.b"][self.rng.below(8)];
            return format!("\\{}{} {}\\", p, self.n, inner);
        }
        format!("{}{}{}", p, self.n, styles[self.rng.below(styles.len())])
    }
    fn pick(&mut self, v: &[String], dflt: &str) -> String {
        if v.is_empty() {
            dflt.to_string()
        } else {
            v[self.rng.below(v.len())].clone()
        }
    }
    fn kw(&mut self, s: &str) {
        // keywords in random letter case
        for w in s.split_whitespace() {
            let w2: String = match self.rng.below(6) {
                0 => w.to_ascii_uppercase(),
                1 => {
                    let mut c = w.chars();
                    match c.next() {
                        Some(f) => f.to_ascii_uppercase().to_string() + c.as_str(),
                        None => String::new(),
                    }
                }
                _ => w.to_string(),
            };
            self.out.push(w2);
        }
    }

    // ----- literals -----
    fn int_lit(&mut self) {
        const L: [&str; 16] = [
            "0", "1", "7", "42", "1_000", "1e3", "2E2", "1E+2", "16#FF#", "16#ff#", "2#1010_1010#", "8#17#", "16#F#E1", "2#1#e3",
            "10#99#", "255",
        ];
        let s = L[self.rng.below(L.len())];
        self.t(s);
    }
    fn real_lit(&mut self) {
        const L: [&str; 10] = ["1.5", "0.0", "1.0e3", "2.5E-3", "3.14159", "1_0.2_5", "16#F.8#", "2#1.1#e2", "1.0E+6", "10#1.5#E-1"];
        let s = L[self.rng.below(L.len())];
        self.t(s);
    }
    fn bit_lit(&mut self) {
        let s = if self.rng.chance(1, 2) { "'0'" } else { "'1'" };
        self.t(s);
    }
    fn vec_lit(&mut self) {
        const L: [&str; 18] = [
            "x\"AB\"", "X\"00\"", "\"01010101\"", "b\"1111_0000\"", "B\"10101010\"", "o\"377\"", "8x\"FF\"", "8ux\"f\"", "8sx\"F\"",
            "8b\"1\"", "ub\"1010\"", "sb\"1010\"", "uo\"7\"", "so\"7\"", "ux\"A\"", "sx\"a\"", "8d\"255\"", "d\"12\"",
        ];
        let s = L[self.rng.below(L.len())];
        self.t(s);
    }
    fn str_lit(&mut self) {
        const L: [&str; 8] = ["\"abc\"", "\"\"", "\"a \"\"quoted\"\" b\"", "\"-- not a comment\"", "\"/* x */\"", "\"it's\"", "\"x\\y\"", "\"%!:#\""];
        let s = L[self.rng.below(L.len())];
        self.t(s);
    }
    fn time_lit(&mut self) {
        const L: [&str; 6] = ["10 ns", "1 ns", "1.5 us", "0 fs", "2 ms", "100 ps"];
        let s = L[self.rng.below(L.len())];
        self.e(s);
    }

    // ----- expressions (always a primary or parenthesised, so they compose freely) -----
    fn int_expr(&mut self, d: usize) {
        let k = if d == 0 { self.rng.below(3) } else { self.rng.below(16) };
        match k {
            0 => self.int_lit(),
            1 | 2 => {
                let n = self.pick(&self.ints.clone(), "4");
                self.t(&n)
            }
            3..=6 => {
                let op = ["+", "-", "*", "/", "mod", "rem"][self.rng.below(6)];
                self.e("(");
                self.int_expr(d - 1);
                self.kw(op);
                self.int_expr(d - 1);
                self.e(")");
            }
            7 => {
                self.e("(");
                self.int_expr(d - 1);
                self.e("** 2 )");
            }
            8 => {
                self.e("(");
                self.kw("abs");
                self.int_expr(d - 1);
                self.e(")");
            }
            9 => {
                self.e("( -");
                self.int_expr(d - 1);
                self.e(")");
            }
            10 => {
                if self.funcs.is_empty() {
                    self.int_lit()
                } else {
                    let f = self.pick(&self.funcs.clone(), "f");
                    self.t(&f);
                    self.e("(");
                    self.int_expr(d - 1);
                    if self.rng.chance(1, 2) {
                        self.e(",");
                        self.int_expr(d - 1);
                    }
                    self.e(")");
                }
            }
            11 => {
                let v = self.pick(&self.vecs.clone(), "bit_vector");
                self.t(&v);
                let a = ["length", "high", "low", "left", "right", "LENGTH"][self.rng.below(6)];
                self.e("'");
                self.t(a);
            }
            12 => {
                self.e("integer ' (");
                self.int_expr(d - 1);
                self.e(")");
            }
            13 => {
                self.e("integer '");
                { let w_ = ["high", "low"][self.rng.below(2)]; self.t(w_); }
            }
            14 => {
                self.e("natural ' pos (");
                self.int_expr(d - 1);
                self.e(")");
            }
            _ => {
                self.e("integer (");
                self.real_expr(d - 1);
                self.e(")");
            }
        }
    }
    fn real_expr(&mut self, d: usize) {
        let k = if d == 0 { self.rng.below(2) } else { self.rng.below(6) };
        match k {
            0 => self.real_lit(),
            1 => {
                let n = self.pick(&self.reals.clone(), "1.0");
                self.t(&n)
            }
            2 | 3 => {
                let op = ["+", "-", "*", "/"][self.rng.below(4)];
                self.e("(");
                self.real_expr(d - 1);
                self.e(op);
                self.real_expr(d - 1);
                self.e(")");
            }
            4 => {
                self.e("real (");
                self.int_expr(d - 1);
                self.e(")");
            }
            _ => {
                self.e("(");
                self.real_expr(d - 1);
                self.e("** 2 )");
            }
        }
    }
    fn bool_expr(&mut self, d: usize) {
        let k = if d == 0 { self.rng.below(3) } else { self.rng.below(10) };
        match k {
            0 => { let w_ = ["true", "false"][self.rng.below(2)]; self.kw(w_) }
            1 => {
                let n = self.pick(&self.bools.clone(), "true");
                self.t(&n)
            }
            2 | 3 | 4 => {
                let op = ["=", "/=", "<", "<=", ">", ">="][self.rng.below(6)];
                self.e("(");
                self.int_expr(d.saturating_sub(1));
                self.e(op);
                self.int_expr(d.saturating_sub(1));
                self.e(")");
            }
            5 => {
                let op = ["and", "or", "xor", "nand", "nor", "xnor"][self.rng.below(6)];
                self.e("(");
                self.bool_expr(d - 1);
                self.kw(op);
                self.bool_expr(d - 1);
                self.e(")");
            }
            6 => {
                self.e("(");
                self.kw("not");
                self.bool_expr(d - 1);
                self.e(")");
            }
            7 => {
                self.e("(");
                self.bit_expr(d - 1);
                self.e("=");
                self.bit_expr(d - 1);
                self.e(")");
            }
            8 => {
                self.e("( ??");
                self.bit_expr(d - 1);
                self.e(")");
            }
            _ => {
                self.e("(");
                self.vec_expr(d - 1);
                self.e("=");
                self.vec_expr(d - 1);
                self.e(")");
            }
        }
    }
    fn bit_expr(&mut self, d: usize) {
        let k = if d == 0 { self.rng.below(3) } else { self.rng.below(9) };
        match k {
            0 => self.bit_lit(),
            1 | 2 => {
                let n = self.pick(&self.bits.clone(), "'0'");
                self.t(&n)
            }
            3 => {
                let op = ["and", "or", "xor", "nand", "nor", "xnor"][self.rng.below(6)];
                self.e("(");
                self.bit_expr(d - 1);
                self.kw(op);
                self.bit_expr(d - 1);
                self.e(")");
            }
            4 => {
                self.e("(");
                self.kw("not");
                self.bit_expr(d - 1);
                self.e(")");
            }
            5 => {
                let op = ["?=", "?/=", "?<", "?<=", "?>", "?>="][self.rng.below(6)];
                self.e("(");
                self.bit_expr(d - 1);
                self.e(op);
                self.bit_expr(d - 1);
                self.e(")");
            }
            6 => {
                let v = self.pick(&self.vecs.clone(), "x\"0F\"");
                if v.starts_with('x') && v.contains('"') {
                    self.bit_lit()
                } else {
                    self.t(&v);
                    self.e("(");
                    self.int_expr(d - 1);
                    self.e(")");
                }
            }
            7 => {
                self.e("bit ' (");
                self.bit_expr(d - 1);
                self.e(")");
            }
            _ => {
                // reduction operator (VHDL-2008 unary and/or/xor)
                let op = ["and", "or", "xor"][self.rng.below(3)];
                self.e("(");
                self.kw(op);
                self.vec_expr(d - 1);
                self.e(")");
            }
        }
    }
    fn vec_expr(&mut self, d: usize) {
        let k = if d == 0 { self.rng.below(3) } else { self.rng.below(12) };
        match k {
            0 => self.vec_lit(),
            1 | 2 => {
                let n = self.pick(&self.vecs.clone(), "x\"00\"");
                self.t(&n)
            }
            3 => {
                self.e("(");
                self.vec_expr(d - 1);
                self.e("&");
                self.vec_expr(d - 1);
                self.e(")");
            }
            4 => {
                let op = ["sll", "srl", "sla", "sra", "rol", "ror"][self.rng.below(6)];
                self.e("(");
                self.vec_expr(d - 1);
                self.kw(op);
                self.int_expr(d - 1);
                self.e(")");
            }
            5 => {
                self.e("(");
                self.kw("not");
                self.vec_expr(d - 1);
                self.e(")");
            }
            6 => {
                self.e("(");
                self.kw("others");
                self.e("=>");
                self.bit_expr(d - 1);
                self.e(")");
            }
            7 => {
                self.e("( 7");
                self.kw("downto");
                self.e("4 =>");
                self.bit_expr(d - 1);
                self.e(",");
                self.kw("others");
                self.e("=>");
                self.bit_lit();
                self.e(")");
            }
            8 => {
                self.e("( 0 =>");
                self.bit_lit();
                self.e(", 1 | 2 =>");
                self.bit_expr(d - 1);
                self.e(",");
                self.kw("others");
                self.e("=> '0' )");
            }
            9 => {
                let v = self.pick(&self.vecs.clone(), "");
                if v.is_empty() {
                    self.vec_lit()
                } else {
                    self.t(&v);
                    self.e("( 3");
                    self.kw("downto");
                    self.e("0 )");
                }
            }
            10 => {
                self.e("bit_vector ' (");
                self.vec_expr(d - 1);
                self.e(")");
            }
            _ => {
                let op = ["and", "or", "xor"][self.rng.below(3)];
                self.e("(");
                self.vec_expr(d - 1);
                self.kw(op);
                self.vec_expr(d - 1);
                self.e(")");
            }
        }
    }

    // ----- declarations -----
    fn subtype_ind(&mut self, which: usize) {
        match which {
            0 => {
                if self.rng.chance(1, 3) {
                    self.e("integer");
                    self.kw("range");
                    self.e("0");
                    self.kw("to");
                    self.int_lit();
                } else {
                    { let w_ = ["integer", "natural", "positive", "INTEGER"][self.rng.below(4)]; self.t(w_); }
                }
            }
            1 => { let w_ = ["bit", "BIT"][self.rng.below(2)]; self.t(w_) }
            2 => {
                self.e("bit_vector ( 7");
                self.kw("downto");
                self.e("0 )");
            }
            3 => self.e("boolean"),
            _ => self.e("real"),
        }
    }
    fn init_expr(&mut self, which: usize) {
        match which {
            0 => self.int_expr(2),
            1 => self.bit_expr(2),
            2 => self.vec_expr(2),
            3 => self.bool_expr(2),
            _ => self.real_expr(2),
        }
    }
    fn register(&mut self, which: usize, name: &str) {
        match which {
            0 => self.ints.push(name.to_string()),
            1 => self.bits.push(name.to_string()),
            2 => self.vecs.push(name.to_string()),
            3 => self.bools.push(name.to_string()),
            _ => self.reals.push(name.to_string()),
        }
    }
    fn object_decl(&mut self, class: &str) {
        let which = self.rng.below(5);
        let w_ = ["c", "v", "s", "obj"][self.rng.below(4)];
        let name = self.fresh(w_);
        self.kw(class);
        self.t(&name);
        if self.rng.chance(1, 5) && class != "constant" {
            let n2 = self.fresh("w");
            self.e(",");
            self.t(&n2);
            self.register(which, &n2);
        }
        self.e(":");
        self.subtype_ind(which);
        if class == "constant" || self.rng.chance(1, 2) {
            self.e(":=");
            self.init_expr(which);
        }
        self.e(";");
        self.register(which, &name);
    }
    fn type_decl(&mut self) {
        let name = self.fresh("t");
        match self.rng.below(8) {
            0 => {
                self.kw("type");
                self.t(&name);
                self.kw("is");
                self.e("(");
                let a = self.fresh("lit");
                let b = self.fresh("lit");
                self.t(&a);
                self.e(",");
                self.t(&b);
                if self.rng.chance(1, 2) {
                    self.e(",");
                    { let w_ = ["'x'", "'0'", "'''", "' '", "'\"'"][self.rng.below(5)]; self.t(w_); }
                }
                self.e(") ;");
            }
            1 => {
                self.kw("type");
                self.t(&name);
                self.kw("is array");
                self.e("( 0");
                self.kw("to");
                self.e("3 )");
                self.kw("of");
                { let w_ = self.rng.below(2); self.subtype_ind(w_); }
                self.e(";");
            }
            2 => {
                self.kw("type");
                self.t(&name);
                self.kw("is array");
                self.e("( natural");
                self.kw("range");
                self.e("<> )");
                self.kw("of");
                self.e("bit ;");
            }
            3 => {
                self.kw("type");
                self.t(&name);
                self.kw("is record");
                let f1 = self.fresh("f");
                self.t(&f1);
                self.e(":");
                { let w_ = self.rng.below(5); self.subtype_ind(w_); }
                self.e(";");
                let f2 = self.fresh("f");
                self.t(&f2);
                self.e(":");
                { let w_ = self.rng.below(5); self.subtype_ind(w_); }
                self.e(";");
                self.kw("end record");
                if self.rng.chance(1, 2) {
                    self.t(&name);
                }
                self.e(";");
            }
            4 => {
                self.kw("subtype");
                self.t(&name);
                self.kw("is");
                self.e("integer");
                self.kw("range");
                self.e("0");
                self.kw("to");
                self.e("1");
                self.e(";");
            }
            5 => {
                self.kw("type");
                self.t(&name);
                self.kw("is range");
                self.e("0");
                self.kw("to");
                self.int_lit();
                self.e(";");
            }
            6 => {
                self.kw("type");
                self.t(&name);
                self.kw("is access");
                self.e("integer ;");
            }
            _ => {
                self.kw("type");
                self.t(&name);
                self.kw("is range");
                self.e("0");
                self.kw("to");
                self.e("1000");
                self.kw("units");
                let u = self.fresh("u");
                self.t(&u);
                self.e(";");
                let u2 = self.fresh("ku");
                self.t(&u2);
                self.e("= 10");
                self.t(&u);
                self.e(";");
                self.kw("end units");
                self.e(";");
            }
        }
    }
    fn misc_decl(&mut self) {
        match self.rng.below(14) {
            0 => {
                let a = self.fresh("attr");
                self.kw("attribute");
                self.t(&a);
                self.e(": string ;");
                if let Some(c) = self.ints.first().cloned() {
                    self.kw("attribute");
                    self.t(&a);
                    self.kw("of");
                    self.t(&c);
                    self.e(":");
                    self.kw("constant is");
                    self.str_lit();
                    self.e(";");
                }
            }
            1 => {
                if let Some(c) = self.ints.last().cloned() {
                    let a = self.fresh("al");
                    self.kw("alias");
                    self.t(&a);
                    if self.rng.chance(1, 2) {
                        self.e(": integer");
                    }
                    self.kw("is");
                    self.t(&c);
                    self.e(";");
                    self.ints.push(a);
                }
            }
            2 => {
                self.kw("use");
                self.e("std . textio .");
                self.kw("all");
                self.e(";");
            }
            3 => {
                let a = self.fresh("fl");
                self.kw("file");
                self.t(&a);
                self.e(": std . textio . text");
                if self.rng.chance(1, 2) {
                    self.kw("open");
                    self.e("read_mode");
                    self.kw("is");
                    self.t("\"in.txt\"");
                }
                self.e(";");
            }
            5 => {
                let a = self.fresh("at");
                self.kw("attribute");
                self.t(&a);
                self.e(": integer ;");
                self.kw("attribute");
                self.t(&a);
                self.kw("of");
                match self.rng.below(4) {
                    0 => {
                        self.kw("all");
                        self.e(":");
                        self.kw("signal");
                    }
                    1 => {
                        self.kw("others");
                        self.e(":");
                        self.kw("label");
                    }
                    2 => {
                        self.e("fx [ integer");
                        self.kw("return");
                        self.e("bit ] :");
                        self.kw("function");
                    }
                    _ => {
                        self.t("\"+\"");
                        self.e("[ integer , integer");
                        self.kw("return");
                        self.e("integer ] :");
                        self.kw("function");
                    }
                }
                self.kw("is");
                self.int_expr(1);
                self.e(";");
            }
            6 => {
                let a = self.fresh("als");
                self.kw("alias");
                match self.rng.below(3) {
                    0 => {
                        self.t(&a);
                        self.kw("is");
                        self.e("fx [ integer , bit");
                        self.kw("return");
                        self.e("bit ] ;");
                    }
                    1 => {
                        self.t("\"+\"");
                        self.kw("is");
                        self.e("work . pkg0 .");
                        self.t("\"+\"");
                        self.e("[ t0 , t0");
                        self.kw("return");
                        self.e("t0 ] ;");
                    }
                    _ => {
                        self.t(&a);
                        self.e(": bit_vector ( 3");
                        self.kw("downto");
                        self.e("0 )");
                        self.kw("is");
                        self.e("sx ( 3");
                        self.kw("downto");
                        self.e("0 ) ;");
                    }
                }
            }
            7 => {
                let t = self.fresh("ty");
                self.kw("type");
                self.t(&t);
                match self.rng.below(6) {
                    0 => {
                        self.kw("is array");
                        self.e("( natural");
                        self.kw("range");
                        self.e("<> , natural");
                        self.kw("range");
                        self.e("<> )");
                        self.kw("of");
                        self.e("bit ;");
                    }
                    1 => {
                        self.kw("is file of");
                        self.e("integer ;");
                    }
                    2 => {
                        self.kw("is access");
                        self.e("bit_vector ;");
                    }
                    3 => self.e(";"),
                    4 => {
                        self.kw("is range");
                        self.e("0.0");
                        self.kw("to");
                        self.e("1.0 ;");
                    }
                    _ => {
                        self.kw("is array");
                        self.e("( 0");
                        self.kw("to");
                        self.e("1 )");
                        self.kw("of");
                        self.e("bit_vector (");
                        self.kw("open");
                        self.e(") ;");
                    }
                }
            }
            8 => {
                let t = self.fresh("sty");
                self.kw("subtype");
                self.t(&t);
                self.kw("is");
                match self.rng.below(3) {
                    0 => self.e("resolved std_ulogic ;"),
                    1 => self.e("( resolved ) std_ulogic_vector ( 7 downto 0 ) ;"),
                    _ => {
                        self.e("arr_t (");
                        self.kw("open");
                        self.e(") ( 7");
                        self.kw("downto");
                        self.e("0 ) ;");
                    }
                }
            }
            9 => {
                // subprogram instantiation
                if self.rng.chance(1, 2) {
                    self.kw("function");
                    let f = self.fresh("fi");
                    self.t(&f);
                    self.kw("is new");
                    self.e("gf");
                    self.kw("generic map");
                    self.e("( t => integer ) ;");
                } else {
                    self.kw("procedure");
                    let f = self.fresh("pi");
                    self.t(&f);
                    self.kw("is new");
                    self.e("gp [ integer ]");
                    self.kw("generic map");
                    self.e("( bit ) ;");
                }
            }
            10 => {
                // subprogram declarations with operator symbols and parameter classes
                match self.rng.below(3) {
                    0 => {
                        self.kw("function");
                        self.t("\"+\"");
                        self.e("( l , r : integer )");
                        self.kw("return");
                        self.e("integer ;");
                    }
                    1 => {
                        self.kw("procedure");
                        let f = self.fresh("pd");
                        self.t(&f);
                        self.e("(");
                        self.kw("variable");
                        self.e("v :");
                        self.kw("inout");
                        self.e("integer ;");
                        self.kw("file");
                        self.e("f : text ;");
                        self.kw("signal");
                        self.e("s :");
                        self.kw("in");
                        self.e("bit ;");
                        self.kw("constant");
                        self.e("c : integer := 1 ) ;");
                    }
                    _ => {
                        self.kw("function");
                        let f = self.fresh("gfn");
                        self.t(&f);
                        self.kw("generic");
                        self.e("(");
                        self.kw("type");
                        self.e("t )");
                        self.kw("parameter");
                        self.e("( x : t )");
                        self.kw("return");
                        self.e("t ;");
                    }
                }
            }
            11 => {
                // package instantiation
                let pn = self.fresh("ipk");
                self.kw("package");
                self.t(&pn);
                self.kw("is new");
                self.e("work . gpk");
                self.kw("generic map");
                self.e("( t => integer , n => 8 ) ;");
            }
            12 => {
                // shared variable of a protected type
                let v = self.fresh("shv");
                self.kw("shared variable");
                self.t(&v);
                self.e(": prot_t ;");
            }
            13 if self.in_arch => {
                // component declaration and configuration specification
                let c = self.fresh("cd");
                self.kw("component");
                self.t(&c);
                self.kw("is generic");
                self.e("( g : integer ) ;");
                self.kw("port");
                self.e("( p :");
                self.kw("in");
                self.e("bit ) ;");
                self.kw("end component");
                self.e(";");
                self.kw("for");
                match self.rng.below(3) {
                    0 => self.kw("all"),
                    1 => self.kw("others"),
                    _ => self.e("u1 , u2"),
                }
                self.e(":");
                self.t(&c);
                self.kw("use");
                match self.rng.below(3) {
                    0 => {
                        self.kw("entity");
                        self.e("work . ex ( ax )");
                        self.kw("generic map");
                        self.e("( g => 1 )");
                        self.kw("port map");
                        self.e("( p => p ) ;");
                    }
                    1 => {
                        self.kw("open");
                        self.e(";");
                    }
                    _ => {
                        self.kw("configuration");
                        self.e("work . cfx ;");
                    }
                }
                if self.rng.chance(1, 2) {
                    self.kw("end for");
                    self.e(";");
                } else {
                    // the simple form; a use clause directly after it is the open finding F49
                    self.object_decl("constant");
                }
            }
            _ => self.type_decl(),
        }
    }
    fn interface_list(&mut self, class: Option<&str>, modes: bool, n: usize) -> Vec<(String, usize)> {
        let mut out = Vec::new();
        self.e("(");
        for i in 0..n {
            if i > 0 {
                self.e(";");
            }
            let which = self.rng.below(3);
            let name = self.fresh("p");
            if let Some(c) = class {
                if self.rng.chance(1, 2) {
                    self.kw(c);
                }
            }
            self.t(&name);
            self.e(":");
            if modes {
                let w_ = ["in", "in", "out", "inout", "buffer"][self.rng.below(if class == Some("signal") || class.is_none() { 5 } else { 1 })];
                self.kw(w_);
            }
            self.subtype_ind(which);
            if self.rng.chance(1, 3) {
                self.e(":=");
                self.init_expr(which);
            }
            out.push((name, which));
        }
        self.e(")");
        out
    }
    fn function_spec(&mut self, name: &str) {
        if self.rng.chance(1, 4) {
            { let w_ = ["pure", "impure"][self.rng.below(2)]; self.kw(w_); }
        }
        self.kw("function");
        self.t(name);
        self.e("(");
        self.e("a : integer ; b :");
        if self.rng.chance(1, 2) {
            self.kw("in");
        }
        self.e("integer := 2 )");
        self.kw("return");
        self.e("integer");
    }
    fn function_body(&mut self, name: &str) {
        self.function_spec(name);
        self.kw("is");
        let saved = (self.ints.clone(), self.bits.clone(), self.vecs.clone(), self.bools.clone(), self.reals.clone());
        self.ints.push("a".into());
        self.ints.push("b".into());
        for _ in 0..self.rng.below(3) {
            self.object_decl("variable");
        }
        if self.rng.chance(1, 4) {
            self.object_decl("constant");
        }
        self.kw("begin");
        self.in_function = true;
        let ivars: Vec<String> = self.ints.iter().filter(|x| x.starts_with('v') || x.starts_with("obj") || x.starts_with('w')).cloned().collect();
        for _ in 0..self.rng.below(4) {
            self.seq_stmt(2, &ivars, &[], &[]);
        }
        self.kw("return");
        self.int_expr(2);
        self.e(";");
        self.in_function = false;
        self.kw("end");
        if self.rng.chance(1, 2) {
            self.kw("function");
        }
        if self.rng.chance(1, 2) {
            self.t(name);
        }
        self.e(";");
        self.ints = saved.0;
        self.bits = saved.1;
        self.vecs = saved.2;
        self.bools = saved.3;
        self.reals = saved.4;
    }

    // ----- sequential statements -----
    /// ivars / bsigs / vsigs: assignable integer variables, bit signals, vector signals
    fn seq_stmt(&mut self, d: usize, ivars: &[String], bsigs: &[String], vsigs: &[String]) {
        let k = self.rng.below(if d == 0 { 7 } else { 19 });
        match k {
            0 | 1 if !ivars.is_empty() => {
                let v = ivars[self.rng.below(ivars.len())].clone();
                self.t(&v);
                self.e(":=");
                self.int_expr(2);
                self.e(";");
            }
            2 | 3 if !bsigs.is_empty() => {
                let s = bsigs[self.rng.below(bsigs.len())].clone();
                self.t(&s);
                self.e("<=");
                match self.rng.below(5) {
                    0 => {
                        self.kw("transport");
                        self.bit_expr(1);
                        self.kw("after");
                        self.time_lit();
                    }
                    1 => {
                        self.bit_expr(1);
                        self.kw("after");
                        self.time_lit();
                        self.e(",");
                        self.bit_expr(1);
                        self.kw("after");
                        self.e("20 ns");
                    }
                    2 => {
                        self.kw("reject");
                        self.e("1 ns");
                        self.kw("inertial");
                        self.bit_expr(1);
                        self.kw("after");
                        self.e("5 ns");
                    }
                    _ => self.bit_expr(2),
                }
                self.e(";");
            }
            4 if !vsigs.is_empty() => {
                let s = vsigs[self.rng.below(vsigs.len())].clone();
                self.t(&s);
                if self.rng.chance(1, 4) {
                    self.e("( 0 )");
                    self.e("<=");
                    self.bit_expr(1);
                } else {
                    self.e("<=");
                    self.vec_expr(2);
                }
                self.e(";");
            }
            5 => {
                self.kw("assert");
                self.bool_expr(1);
                if self.rng.chance(2, 3) {
                    self.kw("report");
                    self.str_lit();
                    if self.rng.chance(1, 2) {
                        self.e("&");
                        self.e("integer ' image (");
                        self.int_expr(1);
                        self.e(")");
                    }
                }
                if self.rng.chance(1, 2) {
                    self.kw("severity");
                    { let w_ = ["note", "warning", "error", "failure"][self.rng.below(4)]; self.t(w_); }
                }
                self.e(";");
            }
            6 => {
                if self.rng.chance(1, 2) {
                    self.kw("null");
                    self.e(";");
                } else {
                    self.kw("report");
                    self.str_lit();
                    self.e(";");
                }
            }
            7 => {
                self.kw("if");
                self.bool_expr(2);
                self.kw("then");
                for _ in 0..1 + self.rng.below(2) {
                    self.seq_stmt(d - 1, ivars, bsigs, vsigs);
                }
                if self.rng.chance(1, 3) {
                    self.kw("elsif");
                    self.bool_expr(1);
                    self.kw("then");
                    self.seq_stmt(d - 1, ivars, bsigs, vsigs);
                }
                if self.rng.chance(1, 2) {
                    self.kw("else");
                    self.seq_stmt(d - 1, ivars, bsigs, vsigs);
                }
                self.kw("end if");
                self.e(";");
            }
            8 => {
                self.kw("case");
                self.int_expr(1);
                self.kw("is");
                self.kw("when");
                self.e("0 =>");
                self.seq_stmt(d - 1, ivars, bsigs, vsigs);
                self.kw("when");
                self.e("1 | 2 =>");
                self.seq_stmt(d - 1, ivars, bsigs, vsigs);
                if self.rng.chance(1, 2) {
                    self.kw("when");
                    self.e("3");
                    self.kw("to");
                    self.e("5 =>");
                    self.kw("null");
                    self.e(";");
                }
                self.kw("when others");
                self.e("=>");
                self.kw("null");
                self.e(";");
                self.kw("end case");
                self.e(";");
            }
            9 => {
                let i = self.fresh("i");
                let lbl = if self.rng.chance(1, 3) { Some(self.fresh("lp")) } else { None };
                if let Some(l) = &lbl {
                    self.t(l);
                    self.e(":");
                }
                self.kw("for");
                self.t(&i);
                self.kw("in");
                if self.rng.chance(1, 3) && !self.vecs.is_empty() {
                    let v = self.pick(&self.vecs.clone(), "x");
                    self.t(&v);
                    self.e("'");
                    self.kw("range");
                } else {
                    self.e("0");
                    self.kw("to");
                    self.int_lit();
                }
                self.kw("loop");
                self.ints.push(i.clone());
                self.seq_stmt(d - 1, ivars, bsigs, vsigs);
                if self.rng.chance(1, 3) {
                    { let w_ = ["next", "exit"][self.rng.below(2)]; self.kw(w_); }
                    if let Some(l) = &lbl {
                        self.t(l);
                    }
                    self.kw("when");
                    self.bool_expr(1);
                    self.e(";");
                }
                self.ints.retain(|x| x != &i);
                self.kw("end loop");
                if let Some(l) = &lbl {
                    self.t(l);
                }
                self.e(";");
            }
            10 => {
                self.kw("while");
                self.bool_expr(1);
                self.kw("loop");
                self.seq_stmt(d - 1, ivars, bsigs, vsigs);
                self.kw("exit");
                self.e(";");
                self.kw("end loop");
                self.e(";");
            }
            11 if !self.in_function && !self.sens => {
                match self.rng.below(4) {
                    0 => {
                        self.kw("wait for");
                        self.time_lit();
                    }
                    1 if !self.bits.is_empty() => {
                        let s = self.pick(&self.bits.clone(), "clk");
                        self.kw("wait until");
                        self.t(&s);
                        self.e("= '1'");
                    }
                    2 if !self.bits.is_empty() => {
                        let s = self.pick(&self.bits.clone(), "clk");
                        self.kw("wait on");
                        self.t(&s);
                    }
                    _ => {
                        self.kw("wait for");
                        self.e("1 ns");
                    }
                }
                self.e(";");
            }
            12 if !ivars.is_empty() => {
                // VHDL-2008 conditional variable assignment
                let v = ivars[self.rng.below(ivars.len())].clone();
                self.t(&v);
                self.e(":=");
                self.int_expr(1);
                self.kw("when");
                self.bool_expr(1);
                self.kw("else");
                self.int_expr(1);
                self.e(";");
            }
            13 if !bsigs.is_empty() => {
                // VHDL-2008 matching case statement
                let s = bsigs[self.rng.below(bsigs.len())].clone();
                self.kw("case");
                self.e("?");
                self.vec_expr(1);
                self.kw("is when");
                self.t("\"1-------\"");
                self.e("=>");
                self.t(&s);
                self.e("<= '1' ;");
                self.kw("when others");
                self.e("=>");
                self.t(&s);
                self.e("<= '0' ;");
                self.kw("end case");
                self.e("? ;");
            }
            14 if !bsigs.is_empty() => {
                // sequential selected signal assignment
                let s = bsigs[self.rng.below(bsigs.len())].clone();
                self.kw("with");
                self.int_expr(1);
                self.kw("select");
                self.t(&s);
                self.e("<=");
                self.bit_expr(1);
                self.kw("when");
                self.e("0 ,");
                self.bit_expr(1);
                self.kw("when others");
                self.e(";");
            }
            15 if !bsigs.is_empty() => {
                let s = bsigs[self.rng.below(bsigs.len())].clone();
                self.t(&s);
                self.e("<=");
                match self.rng.below(4) {
                    0 => {
                        self.kw("force");
                        self.bit_expr(1);
                    }
                    1 => {
                        self.kw("force in");
                        self.bit_expr(1);
                    }
                    2 => self.kw("release"),
                    _ => self.kw("release out"),
                }
                self.e(";");
            }
            16 if !ivars.is_empty() => {
                // external names
                let v = ivars[self.rng.below(ivars.len())].clone();
                self.t(&v);
                self.e(":= <<");
                match self.rng.below(3) {
                    0 => {
                        self.kw("variable");
                        self.e("^ . ^ . v1 : integer >> ;");
                    }
                    1 => {
                        self.kw("constant");
                        self.e("@ work . pkg0 . c0 : integer >> ;");
                    }
                    _ => {
                        self.kw("signal");
                        self.e(". tb . dut ( 1 ) . x : integer >> ;");
                    }
                }
            }
            17 => {
                // procedure call statements
                match self.rng.below(3) {
                    0 => self.e("proc_a ;"),
                    1 => {
                        self.e("work . pkg0 . proc_b (");
                        self.int_expr(1);
                        self.e(",");
                        self.kw("open");
                        self.e(") ;");
                    }
                    _ => {
                        let l = self.fresh("cl");
                        self.t(&l);
                        self.e(": proc_c ( a =>");
                        self.int_expr(1);
                        self.e(", b ( 0 ) =>");
                        self.bit_expr(1);
                        self.e(") ;");
                    }
                }
            }
            18 if !self.in_function && !self.sens => {
                self.kw("wait on");
                let s = self.pick(&self.bits.clone(), "clk");
                self.t(&s);
                self.kw("until");
                self.bool_expr(1);
                self.kw("for");
                self.time_lit();
                self.e(";");
            }
            _ => {
                self.kw("null");
                self.e(";");
            }
        }
    }

    // ----- concurrent statements -----
    fn process(&mut self, bsigs: &[String], vsigs: &[String]) {
        let lbl = if self.rng.chance(1, 2) { Some(self.fresh("proc")) } else { None };
        if let Some(l) = &lbl {
            self.t(l);
            self.e(":");
        }
        let postponed = self.rng.chance(1, 8);
        if postponed {
            self.kw("postponed");
        }
        self.kw("process");
        self.sens = self.rng.chance(2, 3);
        if self.sens {
            self.e("(");
            if self.rng.chance(1, 4) {
                self.kw("all");
            } else {
                let s = self.pick(&self.bits.clone(), "clk");
                self.t(&s);
                if self.rng.chance(1, 3) {
                    let s2 = self.pick(&self.bits.clone(), "clk");
                    self.e(",");
                    self.t(&s2);
                }
            }
            self.e(")");
        }
        if self.rng.chance(1, 2) {
            self.kw("is");
        }
        let saved = (self.ints.clone(), self.bits.clone(), self.vecs.clone(), self.bools.clone(), self.reals.clone());
        let mut ivars = Vec::new();
        for _ in 0..self.rng.below(3) {
            let before = self.ints.len();
            self.object_decl("variable");
            for x in self.ints[before..].iter() {
                ivars.push(x.clone());
            }
        }
        self.kw("begin");
        for _ in 0..1 + self.rng.below(4) {
            self.seq_stmt(2, &ivars, bsigs, vsigs);
        }
        if !self.sens {
            self.kw("wait");
            self.e(";");
        }
        self.sens = false;
        self.kw("end");
        if postponed && self.rng.chance(1, 2) {
            self.kw("postponed");
        }
        self.kw("process");
        if let Some(l) = &lbl {
            if self.rng.chance(1, 2) {
                self.t(l);
            }
        }
        self.e(";");
        self.ints = saved.0;
        self.bits = saved.1;
        self.vecs = saved.2;
        self.bools = saved.3;
        self.reals = saved.4;
    }
    fn conc_stmt(&mut self, d: usize, bsigs: &[String], vsigs: &[String], ent: &(String, Vec<(String, usize)>, Vec<(String, usize)>)) {
        match self.rng.below(if d == 0 { 6 } else { 15 }) {
            0 | 1 => self.process(bsigs, vsigs),
            2 if !bsigs.is_empty() => {
                let s = bsigs[self.rng.below(bsigs.len())].clone();
                if self.rng.chance(1, 3) {
                    let l = self.fresh("ca");
                    self.t(&l);
                    self.e(":");
                }
                self.t(&s);
                self.e("<=");
                match self.rng.below(3) {
                    0 => self.bit_expr(2),
                    1 => {
                        self.bit_expr(1);
                        self.kw("when");
                        self.bool_expr(1);
                        self.kw("else");
                        self.bit_expr(1);
                    }
                    _ => {
                        self.bit_expr(1);
                        self.kw("after");
                        self.time_lit();
                    }
                }
                self.e(";");
            }
            3 if !vsigs.is_empty() => {
                let s = vsigs[self.rng.below(vsigs.len())].clone();
                self.kw("with");
                self.int_expr(1);
                self.kw("select");
                self.t(&s);
                self.e("<=");
                self.vec_expr(1);
                self.kw("when");
                self.e("0 ,");
                self.vec_expr(1);
                self.kw("when");
                self.e("1 | 2 ,");
                self.vec_expr(1);
                self.kw("when others");
                self.e(";");
            }
            4 => {
                if self.rng.chance(1, 3) {
                    let l = self.fresh("as");
                    self.t(&l);
                    self.e(":");
                }
                self.kw("assert");
                self.bool_expr(1);
                self.kw("report");
                self.str_lit();
                self.kw("severity");
                self.e("error ;");
            }
            5 => {
                // instantiation of the entity of this file
                let l = self.fresh("inst");
                self.t(&l);
                self.e(":");
                self.kw("entity");
                self.e("work .");
                self.t(&ent.0.clone());
                if self.rng.chance(1, 3) {
                    self.e("( rtl )");
                }
                if !ent.1.is_empty() && self.rng.chance(2, 3) {
                    self.kw("generic map");
                    self.e("(");
                    for (i, (g, w)) in ent.1.clone().iter().enumerate() {
                        if i > 0 {
                            self.e(",");
                        }
                        if self.rng.chance(2, 3) {
                            self.t(g);
                            self.e("=>");
                        }
                        self.init_expr(*w);
                    }
                    self.e(")");
                }
                self.kw("port map");
                self.e("(");
                for (i, (p, w)) in ent.2.clone().iter().enumerate() {
                    if i > 0 {
                        self.e(",");
                    }
                    self.t(p);
                    self.e("=>");
                    if self.rng.chance(1, 5) {
                        self.kw("open");
                    } else {
                        let n = match w {
                            0 => self.pick(&self.ints.clone(), "0"),
                            1 => self.pick(&bsigs.to_vec(), "'0'"),
                            _ => self.pick(&vsigs.to_vec(), "x\"00\""),
                        };
                        self.t(&n);
                    }
                }
                self.e(") ;");
            }
            6 => {
                let l = self.fresh("gen");
                let i = self.fresh("gi");
                self.t(&l);
                self.e(":");
                self.kw("for");
                self.t(&i);
                self.kw("in");
                self.e("0");
                self.kw("to");
                self.e("3");
                self.kw("generate");
                self.ints.push(i.clone());
                self.gen_body(d - 1, bsigs, vsigs, ent, None);
                self.ints.retain(|x| x != &i);
                self.kw("end generate");
                if self.rng.chance(1, 2) {
                    self.t(&l);
                }
                self.e(";");
            }
            7 => {
                let l = self.fresh("gif");
                self.t(&l);
                self.e(":");
                self.kw("if");
                let a1 = if self.rng.chance(1, 3) { Some(self.fresh("ia")) } else { None };
                if let Some(a) = &a1 {
                    self.t(a);
                    self.e(":");
                }
                self.bool_expr(1);
                self.kw("generate");
                self.gen_body(d - 1, bsigs, vsigs, ent, a1.as_deref());
                if self.rng.chance(1, 3) {
                    self.kw("elsif");
                    let a2 = if self.rng.chance(1, 3) { Some(self.fresh("ia")) } else { None };
                    if let Some(a) = &a2 {
                        self.t(a);
                        self.e(":");
                    }
                    self.bool_expr(1);
                    self.kw("generate");
                    self.gen_body(d - 1, bsigs, vsigs, ent, a2.as_deref());
                }
                if self.rng.chance(1, 3) {
                    self.kw("else");
                    let a3 = if self.rng.chance(1, 3) { Some(self.fresh("ia")) } else { None };
                    if let Some(a) = &a3 {
                        self.t(a);
                        self.e(":");
                    }
                    self.kw("generate");
                    self.gen_body(d - 1, bsigs, vsigs, ent, a3.as_deref());
                }
                self.kw("end generate");
                self.e(";");
            }
            8 => {
                let l = self.fresh("blk");
                self.t(&l);
                self.e(":");
                self.kw("block");
                if self.rng.chance(1, 3) {
                    self.kw("is");
                }
                if self.rng.chance(2, 3) {
                    self.decl_part(true);
                }
                self.kw("begin");
                self.conc_stmt(d - 1, bsigs, vsigs, ent);
                self.kw("end block");
                if self.rng.chance(1, 2) {
                    self.t(&l);
                }
                self.e(";");
            }
            9 => {
                // case generate with alternative labels
                let l = self.fresh("cg");
                self.t(&l);
                self.e(":");
                self.kw("case");
                self.int_expr(1);
                self.kw("generate when");
                self.e("0 =>");
                self.gen_body(d - 1, bsigs, vsigs, ent, None);
                self.kw("when");
                let a = self.fresh("alt");
                self.t(&a);
                self.e(": 1 | 2 =>");
                self.gen_body(d - 1, bsigs, vsigs, ent, Some(&a));
                self.kw("when others");
                self.e("=>");
                self.kw("end generate");
                self.t(&l);
                self.e(";");
            }
            10 => {
                // component instantiations
                let l = self.fresh("ci");
                self.t(&l);
                self.e(":");
                match self.rng.below(3) {
                    0 => {
                        self.kw("component");
                        self.e("comp_x");
                        self.kw("generic map");
                        self.e("( 4 )");
                        self.kw("port map");
                        self.e("( a , b =>");
                        self.kw("open");
                        self.e(", c ( 0 ) => d ) ;");
                    }
                    1 => {
                        self.kw("configuration");
                        self.e("work . cfg_x");
                        self.kw("port map");
                        self.e("( a => b ) ;");
                    }
                    _ => {
                        self.e("comp_y");
                        self.kw("port map");
                        self.e("( to_bit ( a ) => b , c => f ( d ) ) ;");
                    }
                }
            }
            11 if !bsigs.is_empty() => {
                // conditional / selected assignments with delay mechanisms
                let s = bsigs[self.rng.below(bsigs.len())].clone();
                match self.rng.below(3) {
                    0 => {
                        self.t(&s);
                        self.e("<=");
                        self.kw("transport");
                        self.bit_expr(1);
                        self.kw("after");
                        self.time_lit();
                        self.kw("when");
                        self.bool_expr(1);
                        self.kw("else");
                        self.bit_expr(1);
                        self.kw("when");
                        self.bool_expr(1);
                        self.kw("else unaffected");
                        self.e(";");
                    }
                    1 => {
                        self.kw("with");
                        self.vec_expr(1);
                        self.kw("select");
                        self.e("?");
                        self.t(&s);
                        self.e("<=");
                        self.kw("reject");
                        self.e("1 ns");
                        self.kw("inertial");
                        self.bit_expr(1);
                        self.kw("after");
                        self.e("2 ns");
                        self.kw("when");
                        self.t("\"1-------\"");
                        self.e(",");
                        self.bit_expr(1);
                        self.kw("when others");
                        self.e(";");
                    }
                    _ => {
                        let l = self.fresh("pa");
                        self.t(&l);
                        self.e(":");
                        self.kw("postponed assert");
                        self.bool_expr(1);
                        self.kw("severity");
                        self.e("note ;");
                    }
                }
            }
            12 => {
                // concurrent procedure calls
                if self.rng.chance(1, 2) {
                    let l = self.fresh("pc");
                    self.t(&l);
                    self.e(":");
                }
                if self.rng.chance(1, 3) {
                    self.kw("postponed");
                }
                self.e("proc_d (");
                self.bit_expr(1);
                self.e(") ;");
            }
            13 => {
                // block with header
                let l = self.fresh("bh");
                self.t(&l);
                self.e(":");
                self.kw("block is generic");
                self.e("( n : integer := 1 ) ;");
                self.kw("generic map");
                self.e("( n => 2 ) ;");
                self.kw("port");
                self.e("( p :");
                self.kw("in");
                self.e("bit ) ;");
                self.kw("port map");
                self.e("( p =>");
                self.bit_expr(1);
                self.e(") ;");
                self.kw("begin end block");
                self.t(&l);
                self.e(";");
            }
            _ => self.process(bsigs, vsigs),
        }
    }
    /// one declarative item of an explicitly chosen kind (so that every kind occurs as the FIRST item of a
    /// declarative part); `block` = block declarative part (architecture, block, generate body), else entity
    /// declarative part (no component declaration, no configuration specification)
    fn decl_kind(&mut self, k: usize, block: bool) {
        match k {
            0 => self.object_decl("constant"),
            1 => self.object_decl("signal"),
            2 => {
                let t = self.fresh("gt");
                self.kw("type");
                self.t(&t);
                self.kw("is");
                self.e("( ");
                let a = self.fresh("el");
                self.t(&a);
                self.e(", 'x' ) ;");
            }
            3 => {
                let t = self.fresh("gst");
                self.kw("subtype");
                self.t(&t);
                self.kw("is");
                self.e("integer");
                self.kw("range");
                self.e("0");
                self.kw("to");
                self.e("7 ;");
            }
            4 if block => {
                let c = self.fresh("gc");
                self.kw("component");
                self.t(&c);
                if self.rng.chance(1, 2) {
                    self.kw("is");
                }
                self.kw("port");
                self.e("( p :");
                self.kw("in");
                self.e("bit ) ;");
                self.kw("end component");
                self.e(";");
            }
            5 => {
                let a = self.fresh("ga");
                self.kw("attribute");
                self.t(&a);
                self.e(": string ;");
            }
            6 => {
                self.kw("attribute");
                self.e("keep");
                self.kw("of");
                match self.rng.below(3) {
                    0 => {
                        self.kw("all");
                        self.e(":");
                        self.kw("signal");
                    }
                    1 => {
                        self.t("'a'");
                        self.e(":");
                        self.kw("literal");
                    }
                    _ => {
                        self.e("sx :");
                        self.kw("signal");
                    }
                }
                self.kw("is");
                self.e("true ;");
            }
            7 => {
                self.kw("use");
                if self.rng.chance(1, 2) {
                    self.e("std . textio .");
                } else {
                    self.e("work . pkg0 .");
                }
                self.kw("all");
                self.e(";");
            }
            8 => {
                let a = self.fresh("gal");
                self.kw("alias");
                self.t(&a);
                self.kw("is");
                self.e("work . pkg0 . c0 ;");
            }
            9 => {
                let f = self.fresh("gf");
                self.kw("function");
                self.t(&f);
                self.e("( a : integer )");
                self.kw("return");
                self.e("integer ;");
            }
            10 => {
                let f = self.fresh("gfb");
                self.function_body(&f);
            }
            11 => {
                let f = self.fresh("gp");
                self.kw("procedure");
                self.t(&f);
                self.e("(");
                self.kw("signal");
                self.e("s :");
                self.kw("out");
                self.e("bit ) ;");
            }
            12 | 13 => {
                let f = self.fresh("gpf");
                self.kw(if k == 12 { "pure" } else { "impure" });
                self.kw("function");
                self.t(&f);
                self.kw("return");
                self.e("bit ;");
            }
            14 => {
                let a = self.fresh("gfl");
                self.kw("file");
                self.t(&a);
                self.e(": std . textio . text ;");
            }
            15 => {
                let v = self.fresh("gsv");
                self.kw("shared variable");
                self.t(&v);
                self.e(": prot_t ;");
            }
            16 => {
                let pn = self.fresh("gip");
                self.kw("package");
                self.t(&pn);
                self.kw("is new");
                self.e("work . gpk");
                self.kw("generic map");
                self.e("( t => integer ) ;");
            }
            17 if block => {
                // configuration specification; the simple form may be followed by any declaration
                self.kw("for");
                match self.rng.below(3) {
                    0 => self.kw("all"),
                    1 => self.kw("others"),
                    _ => self.e("u1 , u2"),
                }
                self.e(": cell");
                self.kw("use");
                match self.rng.below(3) {
                    0 => {
                        self.kw("entity");
                        self.e("work . leaf ( rtl )");
                        if self.rng.chance(1, 2) {
                            self.kw("port map");
                            self.e("( p => p )");
                        }
                        self.e(";");
                    }
                    1 => {
                        self.kw("open");
                        self.e(";");
                    }
                    _ => {
                        self.kw("configuration");
                        self.e("work . cfx ;");
                    }
                }
                if self.rng.chance(1, 3) {
                    self.kw("end for");
                    self.e(";");
                }
            }
            18 => {
                let f = self.fresh("gpb");
                self.kw("procedure");
                self.t(&f);
                self.kw("is begin null");
                self.e(";");
                self.kw("end");
                if self.rng.chance(1, 2) {
                    self.kw("procedure");
                }
                self.e(";");
            }
            19 => {
                let f = self.fresh("gfi");
                self.kw("function");
                self.t(&f);
                self.kw("is new");
                self.e("gf0");
                self.kw("generic map");
                self.e("( t => integer ) ;");
            }
            _ => self.object_decl("constant"),
        }
    }
    /// a declarative part whose FIRST item is of a uniformly chosen kind
    fn decl_part(&mut self, block: bool) {
        let k = self.rng.below(20);
        self.decl_kind(k, block);
        for _ in 0..self.rng.below(3) {
            let k = self.rng.below(20);
            self.decl_kind(k, block);
        }
    }
    /// generate_statement_body ::= [ block_declarative_part begin ] { concurrent_statement } [ end [ alternative_label ] ; ]
    fn gen_body(
        &mut self,
        d: usize,
        bsigs: &[String],
        vsigs: &[String],
        ent: &(String, Vec<(String, usize)>, Vec<(String, usize)>),
        alt: Option<&str>,
    ) {
        let with_decl = self.rng.chance(1, 2);
        if with_decl {
            self.decl_part(true);
            self.kw("begin");
        }
        for _ in 0..self.rng.below(3) {
            self.conc_stmt(d, bsigs, vsigs, ent);
        }
        if with_decl && self.rng.chance(1, 3) {
            self.kw("end");
            if let Some(a) = alt {
                if self.rng.chance(1, 2) {
                    self.t(a);
                }
            }
            self.e(";");
        }
    }
    /// a declaration whose name must not leak into outer scopes (names stay registered: the
    /// programs only need to be syntactically valid, and names are unique per file)
    fn object_decl_scoped(&mut self, class: &str) {
        self.object_decl(class)
    }

    // ----- design units -----
    fn context_clause(&mut self) {
        if self.rng.chance(1, 2) {
            self.kw("library");
            self.e("ieee ;");
            self.kw("use");
            self.e("ieee . std_logic_1164 .");
            self.kw("all");
            self.e(";");
        }
        if self.rng.chance(1, 4) {
            self.kw("library");
            self.e("work , std ;");
        }
    }
    fn package(&mut self) -> String {
        let name = self.fresh("pkg");
        self.context_clause();
        self.kw("package");
        self.t(&name);
        self.kw("is");
        let nf = self.rng.below(3);
        let mut fnames = Vec::new();
        for _ in 0..1 + self.rng.below(5) {
            match self.rng.below(4) {
                0 | 1 => self.object_decl("constant"),
                2 => self.misc_decl(),
                _ => self.type_decl(),
            }
        }
        for _ in 0..nf {
            let f = self.fresh("fn");
            self.function_spec(&f);
            self.e(";");
            fnames.push(f);
        }
        if self.rng.chance(1, 3) {
            let c = self.fresh("comp");
            self.kw("component");
            self.t(&c);
            if self.rng.chance(1, 2) {
                self.kw("is");
            }
            self.kw("port");
            self.interface_list(None, true, 2);
            self.e(";");
            self.kw("end component");
            if self.rng.chance(1, 2) {
                self.t(&c);
            }
            self.e(";");
        }
        if self.rng.chance(1, 3) {
            let p = self.fresh("prc");
            self.kw("procedure");
            self.t(&p);
            self.e("(");
            self.kw("signal");
            self.e("s :");
            self.kw("out");
            self.e("bit ;");
            self.kw("variable");
            self.e("v :");
            self.kw("inout");
            self.e("integer ; c :");
            self.kw("in");
            self.e("integer := 1 ) ;");
        }
        self.kw("end");
        if self.rng.chance(1, 2) {
            self.kw("package");
        }
        if self.rng.chance(1, 2) {
            self.t(&name);
        }
        self.e(";");
        if !fnames.is_empty() {
            self.kw("package body");
            self.t(&name);
            self.kw("is");
            for f in &fnames {
                self.function_body(f);
                self.funcs.push(f.clone());
            }
            self.kw("end");
            if self.rng.chance(1, 2) {
                self.kw("package body");
            }
            if self.rng.chance(1, 2) {
                self.t(&name);
            }
            self.e(";");
        }
        name
    }
    fn entity_and_architecture(&mut self, pkg: &str) {
        let name = self.fresh("ent");
        self.context_clause();
        self.kw("use");
        self.e("work .");
        self.t(pkg);
        self.e(".");
        self.kw("all");
        self.e(";");
        self.kw("entity");
        self.t(&name);
        self.kw("is");
        let mut generics = Vec::new();
        if self.rng.chance(2, 3) {
            self.kw("generic");
            let n = 1 + self.rng.below(2);
            generics = self.interface_list(Some("constant"), false, n);
            self.e(";");
            for (g, w) in &generics {
                self.register(*w, g);
            }
        }
        self.kw("port");
        let n = 1 + self.rng.below(4);
        let ports = self.interface_list(Some("signal"), true, n);
        self.e(";");
        for (p, w) in &ports {
            self.register(*w, p);
        }
        if self.rng.chance(1, 2) {
            self.decl_part(false);
        }
        if self.rng.chance(1, 4) {
            self.kw("begin");
            self.kw("assert");
            self.bool_expr(1);
            self.kw("report");
            self.str_lit();
            self.e(";");
        }
        self.kw("end");
        if self.rng.chance(1, 2) {
            self.kw("entity");
        }
        if self.rng.chance(1, 2) {
            self.t(&name);
        }
        self.e(";");

        self.kw("architecture");
        self.e("rtl");
        self.kw("of");
        self.t(&name);
        self.kw("is");
        self.in_arch = true;
        if self.rng.chance(1, 3) {
            self.decl_part(true);
        }
        let mut bsigs = Vec::new();
        let mut vsigs = Vec::new();
        for _ in 0..2 + self.rng.below(4) {
            let (b0, v0) = (self.bits.len(), self.vecs.len());
            match self.rng.below(6) {
                0..=2 => self.object_decl("signal"),
                3 => self.object_decl("constant"),
                4 => self.misc_decl(),
                _ => {
                    let f = self.fresh("lf");
                    self.function_body(&f);
                    self.funcs.push(f);
                }
            }
            for x in self.bits[b0..].iter() {
                bsigs.push(x.clone());
            }
            for x in self.vecs[v0..].iter() {
                vsigs.push(x.clone());
            }
        }
        // constants are not assignable: keep only names declared with `signal`
        let sigs: std::collections::HashSet<String> = declared_signals(&self.out);
        bsigs.retain(|x| sigs.contains(x));
        vsigs.retain(|x| sigs.contains(x));
        self.in_arch = false;
        self.kw("begin");
        let ent = (name.clone(), generics, ports);
        for _ in 0..1 + self.rng.below(4) {
            self.conc_stmt(2, &bsigs, &vsigs, &ent);
        }
        self.kw("end");
        if self.rng.chance(1, 2) {
            self.kw("architecture");
        }
        if self.rng.chance(1, 2) {
            self.e("rtl");
        }
        self.e(";");
    }
}

fn declared_signals(out: &[String]) -> std::collections::HashSet<String> {
    let mut s = std::collections::HashSet::new();
    let mut i = 0;
    while i < out.len() {
        if out[i].eq_ignore_ascii_case("signal") {
            let mut j = i + 1;
            while j < out.len() && out[j] != ":" {
                if out[j] != "," {
                    s.insert(out[j].clone());
                }
                j += 1;
            }
        }
        i += 1;
    }
    s
}

impl<'a> G<'a> {
    fn extra_units(&mut self) {
        if self.rng.chance(1, 3) {
            let c = self.fresh("ctx");
            self.kw("context");
            self.t(&c);
            self.kw("is library");
            self.e("ieee ;");
            self.kw("use");
            self.e("ieee . std_logic_1164 .");
            self.kw("all");
            self.e(";");
            self.kw("end context");
            if self.rng.chance(1, 2) {
                self.t(&c);
            }
            self.e(";");
            self.kw("context");
            self.e("work .");
            self.t(&c);
            self.e(";");
            let e = self.fresh("ectx");
            self.kw("entity");
            self.t(&e);
            self.kw("is end");
            self.e(";");
        }
        if self.rng.chance(1, 3) {
            // protected type: declaration and body
            let p = self.fresh("ppk");
            self.kw("package");
            self.t(&p);
            self.kw("is type");
            self.e("prot_t");
            self.kw("is protected procedure");
            self.e("inc ;");
            self.kw("impure function");
            self.e("get");
            self.kw("return");
            self.e("integer ;");
            self.kw("end protected");
            if self.rng.chance(1, 2) {
                self.e("prot_t");
            }
            self.e(";");
            self.kw("end package");
            self.e(";");
            self.kw("package body");
            self.t(&p);
            self.kw("is type");
            self.e("prot_t");
            self.kw("is protected body variable");
            self.e("v : integer := 0 ;");
            self.kw("procedure");
            self.e("inc");
            self.kw("is begin");
            self.e("v := v + 1 ;");
            self.kw("end procedure");
            self.e(";");
            self.kw("impure function");
            self.e("get");
            self.kw("return");
            self.e("integer");
            self.kw("is begin return");
            self.e("v ;");
            self.kw("end function");
            self.e(";");
            self.kw("end protected body");
            self.e(";");
            self.kw("end package body");
            self.e(";");
        }
        if self.rng.chance(1, 3) {
            // generic package and its instantiation as a design unit
            let p = self.fresh("gpk");
            self.kw("package");
            self.t(&p);
            self.kw("is generic");
            self.e("(");
            self.kw("type");
            self.e("t ;");
            self.kw("constant");
            self.e("n : natural := 4 ;");
            self.kw("function");
            self.e("f ( x : t )");
            self.kw("return");
            self.e("t");
            if self.rng.chance(1, 2) {
                self.kw("is");
                self.e("<>");
            }
            self.e(") ;");
            self.kw("constant");
            self.e("c : natural := n ;");
            self.kw("end package");
            self.e(";");
            let i = self.fresh("ipk");
            self.kw("package");
            self.t(&i);
            self.kw("is new");
            self.e("work .");
            self.t(&p);
            self.kw("generic map");
            self.e("( t => integer , n => 8 , f => fi ) ;");
        }
        if self.rng.chance(1, 3) {
            let c = self.fresh("cfg");
            self.kw("configuration");
            self.t(&c);
            self.kw("of");
            self.e("ex");
            self.kw("is for");
            self.e("rtl");
            if self.rng.chance(1, 2) {
                self.kw("for");
                self.e("u1 : comp_x");
                self.kw("use entity");
                self.e("work . e2 ( a ) ;");
                self.kw("end for");
                self.e(";");
            }
            if self.rng.chance(1, 3) {
                self.kw("for");
                self.e("gen1 ( 0");
                self.kw("to");
                self.e("3 )");
                self.kw("end for");
                self.e(";");
            }
            self.kw("end for");
            self.e(";");
            self.kw("end");
            if self.rng.chance(1, 2) {
                self.kw("configuration");
            }
            if self.rng.chance(1, 2) {
                self.t(&c);
            }
            self.e(";");
        }
    }
}

/// one design file: package (+ body), entity, architecture
pub fn program(rng: &mut Rng) -> Vec<String> {
    let mut g = G {
        rng,
        out: Vec::new(),
        n: 0,
        ints: Vec::new(),
        bits: Vec::new(),
        vecs: Vec::new(),
        bools: Vec::new(),
        reals: Vec::new(),
        funcs: Vec::new(),
        in_function: false,
        sens: false,
        in_arch: false,
    };
    let p = g.package();
    g.entity_and_architecture(&p);
    g.extra_units();
    g.out
}

fn is_base_spec(a: &str) -> bool {
    matches!(a.to_ascii_lowercase().as_str(), "b" | "o" | "x" | "d" | "ub" | "uo" | "ux" | "sb" | "so" | "sx")
}

/// does the LRM require a separator between the adjacent lexemes a and b (would they fuse)?
pub fn need_space(a: &str, b: &str) -> bool {
    let (x, y) = (a.as_bytes()[a.len() - 1], b.as_bytes()[0]);
    let word = |c: u8| c.is_ascii_alphanumeric() || c == b'_';
    // identifier / keyword / abstract literal next to one another (LRM 15.3); a based literal ends with '#'
    if (word(x) || x == b'#') && word(y) {
        return true;
    }
    // a string after a string reads as a doubled quote; the same for extended identifiers
    if (x == b'"' && y == b'"') || (x == b'\\' && y == b'\\') {
        return true;
    }
    // a base specifier or an integer directly before a string would form a bit string literal
    if y == b'"' && (is_base_spec(a) || a.as_bytes()[0].is_ascii_digit()) {
        return true;
    }
    // a basic identifier directly before an extended identifier: `a\b\` is fine lexically (no fusion)
    // compound delimiters and comment openers
    if a == "'" && y == b'\'' {
        return true;
    }
    matches!(
        (x, y),
        (b':', b'=')
            | (b'=', b'>')
            | (b'<', b'=')
            | (b'<', b'>')
            | (b'<', b'<')
            | (b'>', b'=')
            | (b'>', b'>')
            | (b'/', b'=')
            | (b'*', b'*')
            | (b'-', b'-')
            | (b'/', b'*')
            | (b'?', b'?')
            | (b'?', b'=')
            | (b'?', b'/')
            | (b'?', b'<')
            | (b'?', b'>')
    )
}

pub fn print_minimal(toks: &[String]) -> String {
    let mut s = String::new();
    for (i, t) in toks.iter().enumerate() {
        if i > 0 && need_space(&toks[i - 1], t) {
            s.push(' ');
        }
        s.push_str(t);
    }
    s.push('\n');
    s
}

pub fn print_generous(rng: &mut Rng, toks: &[String]) -> String {
    let mut s = String::new();
    if rng.chance(1, 2) {
        s.push_str("-- generated program\n");
    }
    for (i, t) in toks.iter().enumerate() {
        if i > 0 {
            match rng.below(14) {
                0 => s.push_str("  "),
                1 => s.push('\t'),
                2 | 3 => s.push('\n'),
                4 => s.push_str(" -- a comment ' \" : # \n"),
                5 => s.push_str(" /* block ' \" \n comment */ "),
                6 => s.push_str("\r\n"),
                7 => s.push_str("\n\n    "),
                _ => s.push(' '),
            }
        }
        s.push_str(t);
    }
    s.push('\n');
    s
}
