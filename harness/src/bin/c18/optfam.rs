//! The 'optional parts' family of the acceptance stream: for every compound construct of VHDL-2008 a
//! template with its optional parts — [label :] ... end <kw> [?] [label] ; optional keywords, optional
//! clauses — expanded into the FULL cross product of the LRM-valid combinations (deterministic, no
//! random choice).  Dependencies between optional parts are expressed by groups:
//!   G(id, text)  text present iff group `id` is on (all G of one id go together: `case ?` ... `end case ?`)
//!   E(id, text)  optional text that is only legal when group `id` is on (an end label needs the label,
//!                `generic map` needs the generic clause, `end postponed process` needs `postponed`)
//! Every combination is an LRM-valid design file after wrapping; both parsers must accept each.
//! (The template list started from the `opt` family of the C12 harness, with the invalid combinations
//! ruled out by the groups.)
#[derive(Clone, Copy)]
pub enum Seg {
    F(&'static str),
    O(&'static str),
    A(&'static [&'static str]),
    G(u8, &'static str),
    E(u8, &'static str),
}
#[derive(Clone, Copy)]
pub enum Wrap {
    Unit,
    Seq,
    SeqLoop,
    SeqFun,
    Conc,
    Decl,
    PkgDecl,
    BodyDecl,
    Iface,
    Port,
}
use Seg::{A, E, F, G, O};

pub const TEMPLATES: &[(Wrap, &[Seg])] = &[
    // ---- sequential statements
    (Wrap::Seq, &[G(0, "lbl :"), F("case"), G(1, "?"), F("x is when a => null ; when others => null ; end case"), G(1, "?"), E(0, "lbl"), F(";")]),
    (Wrap::SeqFun, &[G(0, "lbl :"), F("case"), G(1, "?"), F("x is when \"1-\" => return x ; when others => null ; end case"), G(1, "?"), E(0, "lbl"), F("; return x ;")]),
    (Wrap::SeqLoop, &[G(0, "l2 :"), F("case"), G(1, "?"), F("x is when 1 | 2 => exit lbl ; when 3 to 4 => next ; when others => null ; end case"), G(1, "?"), E(0, "l2"), F(";")]),
    (Wrap::Seq, &[G(0, "lbl :"), F("if c then null ;"), O("elsif d then null ;"), O("else null ;"), F("end if"), E(0, "lbl"), F(";")]),
    (Wrap::Seq, &[G(0, "lbl :"), A(&["", "for i in 0 to 3", "while c"]), F("loop null ;"), O("next ;"), O("exit when c ;"), F("end loop"), E(0, "lbl"), F(";")]),
    (Wrap::SeqLoop, &[O("l2 :"), A(&["next", "exit"]), O("lbl"), O("when c"), F(";")]),
    (Wrap::Seq, &[O("lbl :"), F("s <="), A(&["", "transport", "inertial", "reject 1 ns inertial"]), F("a"), O("after 1 ns"), O(", b after 2 ns"), F(";")]),
    (Wrap::Seq, &[O("lbl :"), F("s <="), A(&["force", "force in", "force out"]), F("a ;")]),
    (Wrap::Seq, &[O("lbl :"), F("s <="), A(&["release", "release in", "release out"]), F(";")]),
    // (a label on a sequential conditional assignment is the open finding F64: corpus)
    (Wrap::Seq, &[F("s <="), O("transport"), F("a when c"), O("else b when d"), O("else e"), F(";")]),
    (Wrap::Seq, &[O("lbl :"), F("v := a ;")]),
    (Wrap::Seq, &[F("v := a when c else b ;")]),
    (Wrap::Seq, &[O("lbl :"), F("with x select"), O("?"), F("s <="), A(&["", "transport", "force", "force in"]), F("a when 1 , b when others ;")]),
    (Wrap::Seq, &[O("lbl :"), F("with x select"), O("?"), F("v := a when 1 | 2 , b when others ;")]),
    (Wrap::Seq, &[O("lbl :"), F("assert c"), O("report \"m\""), O("severity error"), F(";")]),
    (Wrap::Seq, &[O("lbl :"), F("report \"m\""), O("severity note"), F(";")]),
    (Wrap::Seq, &[O("lbl :"), F("wait"), O("on a , b"), O("until c"), O("for 1 ns"), F(";")]),
    (Wrap::Seq, &[O("lbl :"), A(&["null", "p", "p ( a , b )", "p ( x => a )", "lib . pkg . p ( 1 )"]), F(";")]),
    (Wrap::SeqFun, &[O("lbl :"), F("return x + 1 ;")]),
    // ---- concurrent statements
    (Wrap::Conc, &[G(0, "lbl :"), G(1, "postponed"), F("process"), A(&["", "( a , b )", "( all )"]), O("is"), O("variable v : t ;"), F("begin null ; end"), E(1, "postponed"), F("process"), E(0, "lbl"), F(";")]),
    (Wrap::Conc, &[F("lbl : block"), O("( g )"), O("is"), G(1, "generic ( n : natural ) ;"), E(1, "generic map ( n => 1 ) ;"), G(2, "port ( p : in bit ) ;"), E(2, "port map ( p => s ) ;"), O("signal x : bit ;"), F("begin"), O("x <= '1' ;"), F("end block"), O("lbl"), F(";")]),
    (Wrap::Conc, &[F("g : for i in 0 to 1 generate"), O("s <= a ;"), F("end generate"), O("g"), F(";")]),
    (Wrap::Conc, &[F("g : for i in 0 to 1 generate"), A(&["begin", "signal x : bit ; begin", "for all : c use open ; begin", "attribute k of all : signal is 1 ; begin", "use work . p . all ; begin"]), O("s <= a ;"), O("end ;"), F("end generate"), O("g"), F(";")]),
    (Wrap::Conc, &[F("g : if"), G(1, "a1 :"), F("c generate begin s <= a ; end"), E(1, "a1"), F(";"), O("elsif d generate s <= b ;"), A(&["", "else generate s <= c ;", "else a3 : generate s <= c ;", "else a3 : generate begin s <= c ; end a3 ;", "else generate begin s <= c ; end ;"]), F("end generate"), O("g"), F(";")]),
    (Wrap::Conc, &[F("g : if"), O("a1 :"), F("c generate"), O("signal x : bit ; begin"), F("s <= a ;"), A(&["", "elsif d generate s <= b ;", "elsif a2 : d generate begin s <= b ; end a2 ;", "elsif a2 : d generate constant k : t := 1 ; begin end ;"]), F("end generate"), O("g"), F(";")]),
    (Wrap::Conc, &[F("g : case x generate when"), G(1, "a1 :"), F("1 | 2 => begin s <= a ; end"), E(1, "a1"), F("; when"), O("a2 :"), F("others =>"), O("s <= b ;"), F("end generate"), O("g"), F(";")]),
    (Wrap::Conc, &[F("g : case x generate when"), O("a1 :"), F("1 =>"), O("signal y : bit ; begin"), F("s <= a ; when others =>"), A(&["", "begin end ;", "component c2 is end component ; begin end ;"]), F("end generate"), O("g"), F(";")]),
    (Wrap::Conc, &[F("u1 :"), A(&["c", "component c", "entity work . e", "entity work . e ( a )", "configuration work . cfg"]), O("generic map ( n => 1 )"), O("port map ( p => s , q => open )"), F(";")]),
    (Wrap::Conc, &[O("lbl :"), O("postponed"), F("s <="), O("guarded"), A(&["", "transport", "inertial", "reject 1 ns inertial"]), F("a"), O("after 1 ns"), O("when c else b"), F(";")]),
    (Wrap::Conc, &[O("l :"), O("postponed"), F("with x select"), O("?"), A(&["s", "( a , b )"]), F("<="), O("guarded"), A(&["", "transport", "reject 2 ns inertial"]), F("a after 1 ns when 1 | 2 , b when others ;")]),
    (Wrap::Conc, &[O("lbl :"), O("postponed"), F("assert c"), O("report \"m\""), O("severity error"), F(";")]),
    (Wrap::Conc, &[O("lbl :"), O("postponed"), A(&["p", "p ( a , b )", "work . pkg . p ( x => a )"]), F(";")]),
    // ---- declarations
    (Wrap::Decl, &[A(&["", "pure", "impure"]), F("function f"), O("generic ( type t )"), A(&["", "( x : t )", "parameter ( x : t ; y : in t := 1 )"]), F("return t ;")]),
    (Wrap::Decl, &[A(&["", "pure", "impure"]), F("function f"), A(&["", "( x : t )", "parameter ( x : t )"]), F("return t is"), O("variable v : t ;"), F("begin return x ; end"), O("function"), O("f"), F(";")]),
    (Wrap::Decl, &[F("function \"+\" ( l , r : t ) return t is begin return l ; end"), O("function"), O("\"+\""), F(";")]),
    (Wrap::Decl, &[F("procedure p"), O("generic ( n : natural )"), A(&["", "( x : in t ; signal s : out t )", "parameter ( x : in t )"]), F(";")]),
    (Wrap::Decl, &[F("procedure p"), A(&["", "( x : in t )", "parameter ( x : in t )"]), F("is"), O("variable v : t ;"), F("begin null ; end"), O("procedure"), O("p"), F(";")]),
    // (a package declaration / body nested in a declarative part is the open finding F63: corpus)
    (Wrap::Decl, &[F("package p is new work . gp"), O("generic map ( t => bit , n => 4 )"), F(";")]),
    (Wrap::Decl, &[A(&["function f", "procedure q"]), F("is new g"), O("[ bit ]"), O("generic map ( t => bit )"), F(";")]),
    (Wrap::PkgDecl, &[F("type r is record a : t ;"), O("b , c : t ;"), F("end record"), O("r"), F(";")]),
    (Wrap::PkgDecl, &[F("type pt is protected"), O("procedure q ;"), O("impure function f return t ;"), F("end protected"), O("pt"), F(";")]),
    (Wrap::BodyDecl, &[F("type pt is protected body"), O("variable v : t ;"), O("procedure q is begin null ; end ;"), F("end protected body"), O("pt"), F(";")]),
    (Wrap::PkgDecl, &[F("type ph is range 0 to 10 units fs ;"), O("ps = 1000 fs ;"), O("ns = 1000 ps ;"), F("end units"), O("ph"), F(";")]),
    (Wrap::Decl, &[F("component c"), O("is"), O("generic ( n : natural ) ;"), O("port ( p : in bit ) ;"), F("end component"), O("c"), F(";")]),
    (Wrap::Decl, &[O("shared"), F("variable v : t"), O(":= 1"), F(";")]),
    (Wrap::Decl, &[F("file f : text"), A(&["", "is \"x\"", "open read_mode is \"x\""]), F(";")]),
    (Wrap::Decl, &[F("alias"), A(&["a", "\"+\"", "'c'"]), O(": t"), F("is b"), O("[ integer , bit return bit ]"), F(";")]),
    (Wrap::Decl, &[F("attribute a of"), A(&["x", "x , y", "all", "others", "f [ t return t ]", "'a'", "\"+\""]), F(":"), A(&["signal", "function", "label", "literal"]), F("is 1 ;")]),
    (Wrap::Decl, &[F("for"), A(&["all", "others", "u1", "u1 , u2"]), F(": c"), A(&["use open", "use entity work . e", "use entity work . e ( a )", "use configuration work . cfg"]), O("generic map ( n => 1 )"), O("port map ( p => s )"), F(";"), O("end for ;"), O("use std . textio . all ;")]),
    (Wrap::Decl, &[F("subtype st is"), O("resolved"), F("t"), A(&["", "( 0 to 3 )", "range 0 to 3", "( open ) ( 0 to 1 )"]), F(";")]),
    (Wrap::Decl, &[F("type at is array ("), A(&["natural range <>", "0 to 3", "t", "t range 0 to 1 , bit"]), F(") of"), O("resolved"), F("t ;")]),
    (Wrap::Decl, &[F("use"), A(&["work . p . all", "work . p . \"+\"", "work . p . 'a' , ieee . q . x"]), F(";")]),
    (Wrap::Decl, &[F("constant k : t :="), A(&["16:FF:", "2:1:E3", "16:F.8:", "16#FF#", "2#1#E3", "1.5e-3", "x\"0F\"", "8sx\"F\""]), O("+ 8:7:"), O("- 1"), F(";")]),
    (Wrap::Iface, &[A(&["", "signal", "variable", "constant"]), F("x"), O(", y"), F(": t"), O(":= 1")]),
    (Wrap::Iface, &[A(&["signal", "variable"]), F("x"), O(", y"), F(":"), A(&["in", "out", "inout"]), F("t"), O("bus")]),
    (Wrap::Port, &[O("signal"), F("x"), O(", y"), F(":"), A(&["", "in", "out", "inout", "buffer", "linkage"]), F("t"), O("( 0 to 1 )"), O("bus"), O(":= '0'")]),
    // ---- design units
    (Wrap::Unit, &[O("library ieee , work ;"), O("use ieee . std_logic_1164 . all ;"), O("context work . ctx ;"), F("entity e is"), O("generic ( n : natural := 1 ) ;"), O("port ( p : in bit ) ;"), O("constant c : t := 1 ;"), G(1, "begin"), E(1, "assert true ;"), F("end"), O("entity"), O("e"), F(";")]),
    (Wrap::Unit, &[O("library l ;"), F("architecture a of e is"), O("signal s : bit ;"), F("begin"), O("s <= '1' ;"), F("end"), O("architecture"), O("a"), F(";")]),
    (Wrap::Unit, &[F("package p is"), O("generic ( n : natural ) ;"), O("constant c : t ;"), F("end"), O("package"), O("p"), F(";")]),
    (Wrap::Unit, &[F("package body p is"), O("constant c : t := 1 ;"), F("end"), O("package body"), O("p"), F(";")]),
    (Wrap::Unit, &[F("package p is new work . gp"), O("generic map ( n => 1 )"), F(";")]),
    (Wrap::Unit, &[F("configuration c of"), A(&["e", "work . e"]), F("is"), O("use work . all ;"), F("for a"), O("for u1 : comp use entity work . e ; end for ;"), O("for all : c2 end for ;"), O("for g ( 0 to 1 ) end for ;"), F("end for ; end"), O("configuration"), O("c"), F(";")]),
    (Wrap::Unit, &[F("context c is"), O("library l ;"), O("use l . p . all ;"), O("context l . c2 ;"), F("end"), O("context"), O("c"), F(";")]),
];

pub fn wrap(w: Wrap, frag: &str) -> String {
    match w {
        Wrap::Unit => frag.to_string(),
        Wrap::Seq => format!("architecture a of e is begin process begin {} wait ; end process ; end ;", frag),
        Wrap::SeqLoop => format!("architecture a of e is begin process begin lbl : loop {} end loop lbl ; wait ; end process ; end ;", frag),
        Wrap::SeqFun => format!("package body p is function f ( x : t ) return t is begin {} end ; end ;", frag),
        Wrap::Conc => format!("architecture a of e is begin {} end ;", frag),
        Wrap::Decl => format!("architecture a of e is {} begin end ;", frag),
        Wrap::PkgDecl => format!("package p is {} end ;", frag),
        Wrap::BodyDecl => format!("package body p is {} end ;", frag),
        Wrap::Iface => format!("package p is procedure q ( {} ) ; end ;", frag),
        Wrap::Port => format!("entity e is port ( {} ) ; end ;", frag),
    }
}

/// every LRM-valid combination of the optional parts of a template
pub fn expand(segs: &[Seg]) -> Vec<String> {
    // (text so far, state of the groups: None = undecided)
    let mut out: Vec<(String, [Option<bool>; 4])> = vec![(String::new(), [None; 4])];
    let push = |t: &mut String, a: &str| {
        if !a.is_empty() {
            if !t.is_empty() {
                t.push(' ');
            }
            t.push_str(a);
        }
    };
    for s in segs {
        let mut next = Vec::new();
        for (pre, gs) in &out {
            match s {
                F(t) => {
                    let mut x = pre.clone();
                    push(&mut x, t);
                    next.push((x, *gs));
                }
                O(t) => {
                    next.push((pre.clone(), *gs));
                    let mut x = pre.clone();
                    push(&mut x, t);
                    next.push((x, *gs));
                }
                A(ts) => {
                    for a in ts.iter() {
                        let mut x = pre.clone();
                        push(&mut x, a);
                        next.push((x, *gs));
                    }
                }
                G(id, t) => {
                    let choices: Vec<bool> = match gs[*id as usize] {
                        Some(b) => vec![b],
                        None => vec![false, true],
                    };
                    for b in choices {
                        let mut g2 = *gs;
                        g2[*id as usize] = Some(b);
                        let mut x = pre.clone();
                        if b {
                            push(&mut x, t);
                        }
                        next.push((x, g2));
                    }
                }
                E(id, t) => {
                    next.push((pre.clone(), *gs));
                    if gs[*id as usize] == Some(true) {
                        let mut x = pre.clone();
                        push(&mut x, t);
                        next.push((x, *gs));
                    }
                }
            }
        }
        out = next;
    }
    out.into_iter().map(|(t, _)| t).collect()
}

/// all design files of the family (single blanks between lexemes)
pub fn all() -> Vec<String> {
    let mut v = Vec::new();
    for (w, segs) in TEMPLATES.iter() {
        for frag in expand(segs) {
            v.push(wrap(*w, &frag));
        }
    }
    v
}
