//! Replays of early findings (F2 F3 F4 F5) against the current tree. usage: probe <name>
use std::path::Path;
use vhdl_lang::{Config, MessagePrinter, Project, Source};

fn mk(dir: &str, toml: &str) -> Project {
    let mut msgs = MessagePrinter::default();
    let mut cfg = Config::default();
    cfg.load_external_config(&mut msgs, Some("/repo/vhdl_libraries".to_string()));
    let c2 = Config::from_str(toml, Path::new(dir)).unwrap();
    cfg.append(&c2, &mut msgs);
    let mut p = Project::from_config(cfg, &mut msgs);
    p.enable_all_linters();
    p
}
fn show(tag: &str, p: &mut Project) -> Vec<String> {
    let d = p.analyse();
    let mut v: Vec<String> = d
        .iter()
        .map(|x| format!("{} {:?} {:?} {}", x.pos.source.file_name().display(), x.pos.range.start, x.code, x.message))
        .collect();
    v.sort();
    println!("--{tag}: {v:?}");
    v
}
fn main() {
    let which = std::env::args().nth(1).unwrap();
    let dir = "/verif/.cache/proj/probe";
    std::fs::create_dir_all(dir).unwrap();
    match which.as_str() {
        "f3" => {
            std::fs::write(format!("{dir}/e.vhd"), "entity e is\nend entity;\n").unwrap();
            let arch = "architecture a of e is\n  signal s : bit;\nbegin\nend architecture;\n";
            std::fs::write(format!("{dir}/a.vhd"), arch).unwrap();
            let toml = "[libraries]\nlib.files=['e.vhd','a.vhd']\n";
            let mut p = mk(dir, toml);
            show("step1", &mut p);
            let a = p.get_source(Path::new(&format!("{dir}/a.vhd"))).unwrap();
            a.change(None, "");
            p.update_source(&a);
            let inc = show("step2 emptied", &mut p);
            std::fs::write(format!("{dir}/a.vhd"), "").unwrap();
            let mut q = mk(dir, toml);
            let fresh = show("fresh", &mut q);
            println!("{}", if inc == fresh { "SAME" } else { "DIFFERENT" });
        }
        "f2" => {
            let toml = "[libraries]\nlib.files=['a.vhd','b.vhd']\n";
            std::fs::write(format!("{dir}/a.vhd"), "use work.pkg_b;\npackage pkg_a is\nend package;\n").unwrap();
            std::fs::write(format!("{dir}/b.vhd"), "package pkg_b is\nend package;\n").unwrap();
            let mut p = mk(dir, toml);
            show("step1", &mut p);
            let a = p.get_source(Path::new(&format!("{dir}/a.vhd"))).unwrap();
            a.change(None, "package pkg_a is\nend package;\n");
            p.update_source(&a);
            show("step2", &mut p);
            let b = p.get_source(Path::new(&format!("{dir}/b.vhd"))).unwrap();
            b.change(None, "use work.pkg_a;\npackage pkg_b is\nend package;\n");
            p.update_source(&b);
            let inc = show("step3", &mut p);
            println!("{}", if inc.is_empty() { "SAME" } else { "DIFFERENT" });
        }
        "f4" => {
            let mut msgs = MessagePrinter::default();
            let mut cfg = Config::default();
            cfg.load_external_config(&mut msgs, Some("/repo/vhdl_libraries".to_string()));
            let mut p = Project::from_config(cfg, &mut msgs);
            let a = Source::inline(Path::new("/virt/a.vhd"), "use work.b.x(0);\nuse work.b.all;\npackage a is\nend package;\n");
            let b = Source::inline(Path::new("/virt/b.vhd"), "use work.a.all;\npackage b is\n  constant x : bit_vector(0 to 1) := \"00\";\nend package;\n");
            p.update_source(&a);
            p.update_source(&b);
            show("f4", &mut p);
            println!("finished");
        }
        "f5" => {
            let mut msgs = MessagePrinter::default();
            let mut p = Project::from_config(Config::default(), &mut msgs);
            p.update_source(&Source::inline(Path::new("/virt/x.vhd"), "x€"));
            show("f5", &mut p);
            println!("finished");
        }
        _ => {}
    }
}
