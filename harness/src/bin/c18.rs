//! C18 harness: the two front ends agree on lexing and accept the same valid code.
//!
//! usage: c18 keywords
//!        c18 lex    <mode> <seed> <n> <cases_out> <impl_out>
//!              mode = random | exhaustive<k> | slices | file:<path>
//!        c18 accept <mode> <seed> <n> <cases_out> <impl_out>
//!              mode = libs | gen | opt | file:<path>
//!
//! LEX.  A case is a byte string (Latin-1 text), written as decimal numbers.  The line is flushed
//! before the implementation runs.  impl_out: per case `lc|ll|sc|sl|flags|verdict`
//!   lc      1 when vhdl_lang's TokenStream::new pushed no diagnostic, else 0
//!   ll      vhdl_lang's lexemes: the TEXT between each kept token's start and end position (cut by
//!           the slicer of this file from the bytes; lines split at LF, CR, CRLF; a line break inside a
//!           lexeme reads as LF), hex, comma separated
//!   sc      1 when no token of `TokenStream::from(bytes)` (tokenizer + merge_bit_string_literals)
//!           carries a LexErr, else 0
//!   sl      vhdl_syntax's lexemes: the text of every token but Eof (CR / CRLF inside a token read
//!           as LF), hex, comma separated
//!   flags   `d` the input holds a grave accent (tool directive), `p` it holds `vhdl_ls` (pragma)
//!   verdict ORACLE of the property: `OK` (clean for both, no flags, identical lexeme sequences),
//!           `SKIP` (outside the quantifier), `BAD:<index>:<lang lexeme>:<syntax lexeme>`, `PANIC:<msg>`
//!
//! ACCEPT.  A case is `F <path>` (a file, read as Latin-1 by vhdl_lang and as bytes by vhdl_syntax) or
//! `G <style> <hex of the source>` (a generated program; style g = generous, m = minimal spacing).
//! impl_out: per case `nl|ns|nv|detail`: number of diagnostics of `VHDLParser::parse_design_source`,
//! number of errors of `vhdl_syntax::parser::parse`, number of findings of `SyntaxNode::validate`
//! (-1 = panic), and the first message of each.
use std::fmt::Write as _;
use std::io::Write as _;
use std::panic::{catch_unwind, AssertUnwindSafe};
use std::path::Path;
use verif_harness::rng::Rng;
use vhdl_lang::verif::data::{ContentReader, Diagnostic, DiagnosticHandler};
use vhdl_lang::verif::syntax::{kind_str, Symbols, Token, TokenStream, Tokenizer};
use vhdl_lang::{Source, VHDLParser, VHDLStandard};
use vhdl_syntax::syntax::AstNode;

#[path = "c18/progen.rs"]
mod progen;
#[path = "c18/optfam.rs"]
mod optfam;

fn hex(bs: &[u8]) -> String {
    let mut s = String::with_capacity(bs.len() * 2);
    for b in bs {
        write!(s, "{:02x}", b).unwrap();
    }
    s
}
fn unhex(s: &str) -> Vec<u8> {
    (0..s.len() / 2).map(|i| u8::from_str_radix(&s[2 * i..2 * i + 2], 16).unwrap()).collect()
}
fn dec(bs: &[u8]) -> String {
    let mut s = String::with_capacity(bs.len() * 4);
    for (i, b) in bs.iter().enumerate() {
        if i > 0 {
            s.push(' ');
        }
        write!(s, "{}", b).unwrap();
    }
    s
}
fn latin1_to_string(bs: &[u8]) -> String {
    bs.iter().map(|b| *b as char).collect()
}

// ---------------------------------------------------------------------------------------------
// the two lexers
// ---------------------------------------------------------------------------------------------
struct Collect {
    v: Vec<Diagnostic>,
    limit: usize,
}
impl DiagnosticHandler for Collect {
    fn push(&mut self, d: Diagnostic) {
        if self.v.len() >= self.limit {
            panic!("DIAG-FLOOD");
        }
        self.v.push(d)
    }
}

/// Lines of a Latin-1 text (terminators LF, CR, CRLF removed); one column per byte.
fn lines_of(bytes: &[u8]) -> Vec<Vec<u8>> {
    let mut out = Vec::new();
    let mut cur = Vec::new();
    let mut i = 0;
    while i < bytes.len() {
        let c = bytes[i];
        if c == b'\n' {
            out.push(std::mem::take(&mut cur));
        } else if c == b'\r' {
            out.push(std::mem::take(&mut cur));
            if i + 1 < bytes.len() && bytes[i + 1] == b'\n' {
                i += 1;
            }
        } else {
            cur.push(c);
        }
        i += 1;
    }
    out.push(cur);
    out
}
fn slice_pos(ls: &[Vec<u8>], a: vhdl_lang::Position, b: vhdl_lang::Position) -> Option<Vec<u8>> {
    let mut s = Vec::new();
    if a.line == b.line {
        let l = ls.get(a.line as usize)?;
        if a.character > b.character {
            return None;
        }
        s.extend_from_slice(l.get(a.character as usize..b.character as usize)?);
    } else {
        if a.line > b.line {
            return None;
        }
        s.extend_from_slice(ls.get(a.line as usize)?.get(a.character as usize..)?);
        s.push(10);
        for k in a.line + 1..b.line {
            s.extend_from_slice(ls.get(k as usize)?);
            s.push(10);
        }
        s.extend_from_slice(ls.get(b.line as usize)?.get(..b.character as usize)?);
    }
    Some(s)
}

/// vhdl_lang: (clean, lexemes)
fn lex_lang(symbols: &Symbols, bytes: &[u8]) -> (bool, Vec<Vec<u8>>) {
    let text = latin1_to_string(bytes);
    let src = Source::inline(Path::new("/verif_c18.vhd"), &text);
    let contents = src.contents();
    let tokenizer = Tokenizer::new(symbols, &src, ContentReader::new(&contents));
    let mut h = Collect { v: Vec::new(), limit: 4 * bytes.len() + 64 };
    let stream = TokenStream::new(tokenizer, &mut h);
    let mut toks: Vec<Token> = Vec::new();
    while let Some(t) = stream.peek() {
        toks.push(t.clone());
        stream.skip();
    }
    let ls = lines_of(bytes);
    let mut out = Vec::new();
    for t in &toks {
        let r = t.pos.range;
        match slice_pos(&ls, r.start, r.end) {
            Some(s) => out.push(s),
            None => panic!("token range {:?} is not a slice of the text", r),
        }
    }
    (h.v.is_empty(), out)
}

fn norm_eol(bs: &[u8]) -> Vec<u8> {
    let mut out = Vec::with_capacity(bs.len());
    let mut i = 0;
    while i < bs.len() {
        if bs[i] == b'\r' {
            out.push(b'\n');
            if i + 1 < bs.len() && bs[i + 1] == b'\n' {
                i += 1;
            }
        } else {
            out.push(bs[i]);
        }
        i += 1;
    }
    out
}

/// vhdl_syntax: (clean, lexemes) of the merged token stream
fn lex_syn(bytes: &[u8]) -> (bool, Vec<Vec<u8>>) {
    let stream = vhdl_syntax::tokens::TokenStream::from(bytes);
    let mut clean = true;
    let mut out = Vec::new();
    for (tok, err) in stream {
        if err.is_some() {
            clean = false;
        }
        if tok.kind() != vhdl_syntax::tokens::TokenKind::Eof {
            out.push(norm_eol(tok.text().as_bytes()));
        }
    }
    (clean, out)
}

fn contains(hay: &[u8], needle: &[u8]) -> bool {
    hay.windows(needle.len()).any(|w| w == needle)
}

fn panic_msg(p: Box<dyn std::any::Any + Send>) -> String {
    let m = if let Some(s) = p.downcast_ref::<&str>() {
        s.to_string()
    } else if let Some(s) = p.downcast_ref::<String>() {
        s.clone()
    } else {
        "?".to_string()
    };
    m.replace(['|', '\n'], " ")
}

fn run_lex_case(symbols: &Symbols, bytes: &[u8]) -> String {
    let l = catch_unwind(AssertUnwindSafe(|| lex_lang(symbols, bytes)));
    let s = catch_unwind(AssertUnwindSafe(|| lex_syn(bytes)));
    let mut flags = String::new();
    if bytes.contains(&b'`') {
        flags.push('d');
    }
    if contains(bytes, b"vhdl_ls") {
        flags.push('p');
    }
    match (l, s) {
        (Ok((lc, ll)), Ok((sc, sl))) => {
            let verdict = if !lc || !sc || !flags.is_empty() {
                "SKIP".to_string()
            } else if ll == sl {
                "OK".to_string()
            } else {
                let mut i = 0;
                while i < ll.len() && i < sl.len() && ll[i] == sl[i] {
                    i += 1;
                }
                format!(
                    "BAD:{}:{}:{}",
                    i,
                    ll.get(i).map(|x| hex(x)).unwrap_or_else(|| "-".into()),
                    sl.get(i).map(|x| hex(x)).unwrap_or_else(|| "-".into())
                )
            };
            format!(
                "{}|{}|{}|{}|{}|{}",
                lc as u8,
                ll.iter().map(|x| hex(x)).collect::<Vec<_>>().join(","),
                sc as u8,
                sl.iter().map(|x| hex(x)).collect::<Vec<_>>().join(","),
                flags,
                verdict
            )
        }
        (Err(p), _) => format!("||||{}|PANIC:vhdl_lang: {}", flags, panic_msg(p)),
        (_, Err(p)) => format!("||||{}|PANIC:vhdl_syntax: {}", flags, panic_msg(p)),
    }
}

// ---------------------------------------------------------------------------------------------
// lexeme soups
// ---------------------------------------------------------------------------------------------
const DELIMS: [&str; 37] = [
    ":", ":=", "'", "-", ";", "(", ")", "+", ".", "&", ",", "=", "=>", "<", "<=", "<>", "<<", ">", ">=", ">>", "/",
    "/=", "*", "**", "?", "??", "?=", "?/=", "?<", "?<=", "?>", "?>=", "^", "@", "|", "[", "]",
];
const IDENTS: [&str; 26] = [
    "a", "x", "b", "o", "d", "ub", "sx", "u", "s", "e", "E1", "xyz", "bit", "Foo_Bar1", "x1", "sb", "A_B_C", "zz9", "uo", "SO",
    "UX", "f", "g1", "range", "length", "B",
];
const DECIMALS: [&str; 26] = [
    "0", "7", "12_000", "1e3", "1E+3", "2e0", "1E2", "18446744073709551615", "0e25", "1.5", "1.5e-3", "1_0.2_5E+10", "1.0E3",
    "0.0", "3.14159", "1e+0", "1e", "1.", "1.e3", "1_", "1.5e", "1e1_0", "00", "9.9e-0", "2.5E+3", "1e-0",
];
const BASED: [&str; 22] = [
    "16#FF#", "2#1010_1010#", "8#77#E1", "16#F.F#", "16#F.F#e-1", "2#1#e63", "16#ff#", "10#1.0#e-2", "16#a_b#", "2#1#E2",
    "16:FF:", "2:1010:", "16:F.F:e1", "8:7:", "1:= 1", "0 to 1:=", "1: ", "1:x", "16##", "16#f#e", "3#2#", "16#F#E+1",
];
const BITS: [&str; 30] = [
    "x\"AB\"", "B\"1_0\"", "12sb\"01\"", "ux\"f\"", "d\"12\"", "o\"7\"", "uo\"7\"", "so\"7\"", "ub\"1\"", "sb\"1\"", "sx\"F\"", "UX\"f\"",
    "X\"00\"", "b\"\"", "8x\"FF\"", "12D\"99\"", "1b\"1\"", "SX\"F\"\"F\"", "x\"é\"", "0d\"9\"", "x \"AB\"", "12 sb\"01\"", "12sb \"01\"",
    "1.5x\"0\"", "16#f#x\"0\"", "1e3b\"0\"", "1_0b\"0\"", "xx\"0\"", "bb\"1\"", "12uX\"f\"",
];
const TICKS: [&str; 22] = [
    "a'('b')", "x'range", "t'('a')", "a'b'", "('a','b')", "''''", "'''", "'\"'", "c'('''')", ")'a'", "]'a'", "all'a'", "is'a'",
    "1'a'", "\"s\"'a'", "x\"0\"'a'", "'a", "a''b'", "\\e\\'a'", "assume_guarantee'a'", "'''a'", "others=>'0'",
];
const LATIN: [u8; 16] = [b'a', b'Z', b'0', b' ', b'_', 0xE9, 0xFF, 0xC0, 0xD7, 0xF7, 0xDF, 0xDE, b'~', b'%', b'!', b'#'];
const JUNK: [&[u8]; 14] = [b"$", b"~", b"{", b"}", b"%", b"!", b"\xa0", b"\x0c", b"\x0b", b"\x00", b"\x7f", b"\xe9", b"_", b"_a"];
const NL: [&str; 3] = ["\n", "\r\n", "\r"];

fn rand_case_mix(rng: &mut Rng, s: &str) -> String {
    s.chars().map(|c| if rng.chance(1, 2) { c.to_ascii_uppercase() } else { c.to_ascii_lowercase() }).collect()
}

fn gen_quoted(rng: &mut Rng, q: u8, dirty: bool) -> Vec<u8> {
    let mut s = vec![q];
    for _ in 0..rng.below(7) {
        match rng.below(12) {
            0 | 1 => {
                s.push(q);
                s.push(q);
            }
            2 if dirty && rng.chance(1, 3) => s.push(b'\n'),
            3 => s.push(*rng.pick(&[b'"', b'\\', b'\'', b'-', b'/', b'*'])),
            _ => s.push(*rng.pick(&LATIN)),
        }
    }
    if s.len() > 1 && s[s.len() - 1] == q && (s.len() < 3 || s[s.len() - 2] != q) {
        // a lone quote character inside would end the literal early: double it
        s.push(q);
    }
    if !(dirty && rng.chance(1, 10)) {
        s.push(q);
    }
    s
}

fn gen_lexeme(rng: &mut Rng, kws: &[String], dirty: bool) -> Vec<u8> {
    let pick = |rng: &mut Rng, xs: &[&str]| xs[rng.below(xs.len())].as_bytes().to_vec();
    match rng.below(if dirty { 14 } else { 12 }) {
        0 => {
            if rng.chance(1, 2) {
                pick(rng, &IDENTS)
            } else {
                let n = 1 + rng.below(6);
                let mut s = Vec::new();
                for i in 0..n {
                    let c = if i == 0 {
                        b'a' + rng.below(26) as u8
                    } else {
                        *rng.pick(&[b'a', b'b', b'x', b'z', b'Q', b'0', b'9', b'_', b'e', b's', b'u', b'o', b'd'])
                    };
                    if c == b'_' && (i + 1 == n || s.last() == Some(&b'_')) && !dirty {
                        s.push(b'q');
                    } else {
                        s.push(c);
                    }
                }
                s
            }
        }
        1 => {
            let k = rng.below(kws.len());
            rand_case_mix(rng, &kws[k]).into_bytes()
        }
        2 | 3 => pick(rng, &DELIMS),
        4 => pick(rng, &DECIMALS),
        5 => pick(rng, &BASED),
        6 => pick(rng, &BITS),
        7 => gen_quoted(rng, b'"', dirty),
        8 => gen_quoted(rng, b'\\', dirty),
        9 => {
            let c = *rng.pick(&LATIN);
            match rng.below(6) {
                0 => b"'''".to_vec(),
                1 => b"'\"'".to_vec(),
                _ => vec![b'\'', c, b'\''],
            }
        }
        10 | 11 => pick(rng, &TICKS),
        12 => rng.pick(&JUNK).to_vec(),
        _ => {
            // an arbitrary printable byte glued to a lexeme start
            let mut s = pick(rng, &["x", "b", "ub", "1", "1.5", "16#f#", "\"a\"", "'", ")", "1e", "?", "?/", "<", "12s", "10ub"]);
            s.push(32 + rng.below(95) as u8);
            s
        }
    }
}

fn gen_gap(rng: &mut Rng, may_be_empty: bool) -> Vec<u8> {
    let mut gap: Vec<u8> = Vec::new();
    let pieces = if may_be_empty { rng.below(3) } else { 1 + rng.below(3) };
    for _ in 0..pieces {
        match rng.below(9) {
            0 | 1 | 2 => gap.push(b' '),
            3 => gap.push(b'\t'),
            4 => gap.extend_from_slice(NL[rng.below(3)].as_bytes()),
            5 => {
                gap.extend_from_slice(b" --");
                for _ in 0..rng.below(6) {
                    gap.push(*rng.pick(&LATIN));
                }
                gap.extend_from_slice(NL[rng.below(3)].as_bytes());
            }
            6 => {
                gap.extend_from_slice(b"/*");
                for _ in 0..rng.below(6) {
                    gap.push(*rng.pick(&[b'a', b' ', b'*', b'/', b'-', 0xE9, b'\n', b'"']));
                }
                if gap.last() == Some(&b'/') && gap[gap.len() - 2] == b'*' {
                    gap.push(b' ');
                }
                if !rng.chance(1, 40) {
                    gap.extend_from_slice(b"*/");
                }
            }
            _ => gap.push(b' '),
        }
    }
    if !may_be_empty && !gap.iter().any(|c| matches!(c, b' ' | b'\t' | b'\n' | b'\r')) && !gap.ends_with(b"*/") {
        gap.push(b' ');
    }
    gap
}

/// spacing: 0 generous (a gap between any two lexemes), 1 minimal (no gap at all: the lexemes are glued),
/// 2 mixed
fn gen_soup(rng: &mut Rng, kws: &[String], dirty: bool, spacing: usize) -> Vec<u8> {
    let n = 1 + rng.below(9);
    let mut text = Vec::new();
    if rng.chance(1, 4) {
        text.extend(gen_gap(rng, true));
    }
    for i in 0..n {
        if i > 0 {
            let glue = match spacing {
                0 => false,
                1 => true,
                _ => rng.chance(1, 2),
            };
            if !glue {
                text.extend(gen_gap(rng, false));
            }
        }
        text.extend(gen_lexeme(rng, kws, dirty));
    }
    if rng.chance(1, 3) {
        text.extend(gen_gap(rng, true));
    }
    text
}

fn gen_random(rng: &mut Rng, kws: &[String]) -> Vec<u8> {
    match rng.below(10) {
        0..=2 => gen_soup(rng, kws, false, 0),
        3..=4 => gen_soup(rng, kws, false, 1),
        5..=6 => gen_soup(rng, kws, false, 2),
        7 => gen_soup(rng, kws, true, 2),
        8 => {
            const A: [u8; 44] = [
                b'a', b'x', b'b', b'u', b's', b'o', b'd', b'e', b'E', b'g', b'0', b'1', b'9', b'_', b'"', b'\'', b'\\', b'#', b'.',
                b'-', b'/', b'*', b' ', b'\t', b'\n', b'\r', 0xE9, b'?', b'=', b'<', b'>', b':', b'(', b')', b';', b'+', 0xA0, b'%',
                b'!', b'&', b']', b'[', b',', b'|',
            ];
            let n = rng.below(14);
            (0..n).map(|_| *rng.pick(&A)).collect()
        }
        _ => {
            let n = rng.below(12);
            (0..n)
                .map(|_| match rng.below(4) {
                    0 => rng.below(256) as u8,
                    1 => *rng.pick(&[b'\n', b'\r', b' ', b'"', b'\'', b'-', b'\\', b':', b'#']),
                    _ => 32 + rng.below(95) as u8,
                })
                .collect()
        }
    }
}

/// the alphabet of the exhaustive enumeration: one representative of every arm's leading characters
const EXH_ALPHA: [u8; 24] = [
    b'a', b'b', b'x', b'e', b'1', b'_', b'"', b'\'', b'\\', b'#', b':', b'.', b'-', b'/', b'*', b' ', b'\n', b'=', b'<', b'>',
    b'?', b'(', b')', b'\r',
];

fn library_files() -> Vec<std::path::PathBuf> {
    let mut out = Vec::new();
    fn walk(d: &Path, out: &mut Vec<std::path::PathBuf>) {
        if let Ok(rd) = std::fs::read_dir(d) {
            let mut es: Vec<_> = rd.filter_map(|e| e.ok()).map(|e| e.path()).collect();
            es.sort();
            for p in es {
                if p.is_dir() {
                    walk(&p, out);
                } else if let Some(ext) = p.extension().and_then(|e| e.to_str()) {
                    if ext == "vhd" || ext == "vhdl" {
                        out.push(p);
                    }
                }
            }
        }
    }
    walk(Path::new("/repo/vhdl_libraries"), &mut out);
    walk(Path::new("/repo/example_project"), &mut out);
    out
}

/// a window of a library file with a few byte-level mutations
fn gen_slice(rng: &mut Rng, files: &[Vec<u8>]) -> Vec<u8> {
    let f = &files[rng.below(files.len())];
    if f.is_empty() {
        return Vec::new();
    }
    let len = 1 + rng.below(160);
    let start = rng.below(f.len());
    let end = (start + len).min(f.len());
    let mut s = f[start..end].to_vec();
    for _ in 0..rng.below(4) {
        if s.is_empty() {
            break;
        }
        let at = rng.below(s.len());
        match rng.below(4) {
            0 => {
                s.remove(at);
            }
            1 => s.insert(at, *rng.pick(&[b'\'', b'"', b':', b'#', b'1', b'x', b'.', b'e', b'_', b' ', b'\\', b'?', b'/'])),
            2 => s[at] = *rng.pick(&[b'\'', b'"', b':', b'#', b'1', b'x', b'.', b'e', b'_', b' ', b'\\', b'?', b'/']),
            _ => {
                // delete the blanks of a stretch: minimal spacing
                let e = (at + 12).min(s.len());
                let kept: Vec<u8> = s[at..e].iter().copied().filter(|c| *c != b' ').collect();
                s.splice(at..e, kept);
            }
        }
    }
    s
}

fn keyword_names() -> Vec<String> {
    VHDLStandard::default().keywords().iter().map(|k| kind_str(*k).to_string()).collect()
}

fn parse_bytes(line: &str) -> Vec<u8> {
    line.split_whitespace().map(|x| x.parse::<u16>().unwrap() as u8).collect()
}

fn main_lex(args: &[String]) {
    let mode = args[0].clone();
    let seed: u64 = args[1].parse().unwrap();
    let n: usize = args[2].parse().unwrap();
    let mut cases_out = std::io::BufWriter::new(std::fs::File::create(&args[3]).unwrap());
    let mut impl_out = std::io::BufWriter::new(std::fs::File::create(&args[4]).unwrap());
    // The symbol table of vhdl_lang only grows; a fresh one every few thousand cases keeps the run linear.
    let mut symbols = Symbols::default();
    let mut since_fresh = 0usize;
    let kws = keyword_names();
    let mut emit = |bytes: Vec<u8>| {
        writeln!(cases_out, "{}", dec(&bytes)).unwrap();
        cases_out.flush().unwrap();
        since_fresh += 1;
        if since_fresh >= 5000 {
            symbols = Symbols::default();
            since_fresh = 0;
        }
        let r = run_lex_case(&symbols, &bytes);
        writeln!(impl_out, "{}", r).unwrap();
    };
    if let Some(k) = mode.strip_prefix("exhaustive") {
        let k: usize = k.parse().unwrap();
        let mut frontier: Vec<Vec<u8>> = vec![vec![]];
        emit(vec![]);
        for _ in 0..k {
            let mut next = Vec::with_capacity(frontier.len() * EXH_ALPHA.len());
            for s in &frontier {
                for c in EXH_ALPHA.iter() {
                    let mut t = s.clone();
                    t.push(*c);
                    emit(t.clone());
                    next.push(t);
                }
            }
            frontier = next;
        }
    } else if mode == "random" {
        let mut rng = Rng::new(seed).fork();
        for _ in 0..n {
            let c = gen_random(&mut rng, &kws);
            emit(c);
        }
    } else if mode == "slices" {
        let mut rng = Rng::new(seed ^ 0x51CE).fork();
        let files: Vec<Vec<u8>> = library_files().iter().map(|p| std::fs::read(p).unwrap_or_default()).collect();
        for _ in 0..n {
            let c = gen_slice(&mut rng, &files);
            emit(c);
        }
    } else if let Some(path) = mode.strip_prefix("file:") {
        for line in String::from_utf8_lossy(&std::fs::read(path).unwrap()).lines() {
            let line = line.trim();
            if line.starts_with('#') {
                continue;
            }
            if let Some(rest) = line.strip_prefix("L ") {
                emit(parse_bytes(rest));
            } else if line == "L" {
                emit(Vec::new());
            }
        }
    }
    impl_out.flush().unwrap();
}

// ---------------------------------------------------------------------------------------------
// acceptance
// ---------------------------------------------------------------------------------------------
fn first_line(s: &str) -> String {
    s.replace(['|', '\n', '\r'], " ").chars().take(160).collect()
}

fn accept_case(parser: &VHDLParser, bytes: &[u8]) -> String {
    let lang = catch_unwind(AssertUnwindSafe(|| {
        let text = latin1_to_string(bytes);
        let src = Source::inline(Path::new("/verif_c18_accept.vhd"), &text);
        let mut diags: Vec<Diagnostic> = Vec::new();
        let _ = parser.parse_design_source(&src, &mut diags);
        diags
    }));
    let syn = catch_unwind(AssertUnwindSafe(|| {
        let (file, errs) = vhdl_syntax::parser::parse(bytes);
        let v = file.raw().validate();
        (errs, v)
    }));
    let mut detail = String::new();
    let nl: i64 = match &lang {
        Ok(d) => {
            if let Some(x) = d.first() {
                let _ = write!(
                    detail,
                    "lang[{}:{}]: {}; ",
                    x.pos.range.start.line,
                    x.pos.range.start.character,
                    first_line(&x.message)
                );
            }
            d.len() as i64
        }
        Err(_) => {
            detail.push_str("lang: PANIC; ");
            -1
        }
    };
    let (ns, nv): (i64, i64) = match syn {
        Ok((errs, v)) => {
            if let Some(e) = errs.first() {
                let _ = write!(detail, "syntax[{}..{}]: {:?}; ", e.span().start, e.span().end, e.err());
            }
            let nv = match v {
                Ok(()) => 0,
                Err(ve) => {
                    let _ = write!(detail, "validate: {}; ", first_line(&format!("{:?}", ve)));
                    ve.len() as i64
                }
            };
            (errs.len() as i64, nv)
        }
        Err(p) => {
            let _ = write!(detail, "syntax: PANIC {}; ", panic_msg(p));
            (-1, -1)
        }
    };
    format!("{}|{}|{}|{}", nl, ns, nv, first_line(&detail))
}

fn main_accept(args: &[String]) {
    let mode = args[0].clone();
    let seed: u64 = args[1].parse().unwrap();
    let n: usize = args[2].parse().unwrap();
    let mut cases_out = std::io::BufWriter::new(std::fs::File::create(&args[3]).unwrap());
    let mut impl_out = std::io::BufWriter::new(std::fs::File::create(&args[4]).unwrap());
    let parser = VHDLParser::new(VHDLStandard::default());
    let mut emit = |case: String, bytes: Vec<u8>| {
        writeln!(cases_out, "{}", case).unwrap();
        cases_out.flush().unwrap();
        let r = accept_case(&parser, &bytes);
        writeln!(impl_out, "{}", r).unwrap();
    };
    if mode == "libs" {
        for p in library_files() {
            let bytes = std::fs::read(&p).unwrap_or_default();
            emit(format!("F {}", p.display()), bytes);
        }
    } else if mode == "gen" {
        let mut rng = Rng::new(seed ^ 0xACCE).fork();
        for i in 0..n {
            let toks = progen::program(&mut rng);
            // every program is printed twice: generous and minimal spacing
            let style = if i % 2 == 0 { 'g' } else { 'm' };
            let text = if style == 'g' { progen::print_generous(&mut rng, &toks) } else { progen::print_minimal(&toks) };
            emit(format!("G {} {}", style, hex(text.as_bytes())), text.into_bytes());
        }
    } else if mode == "opt" {
        // the 'optional parts' family: every LRM-valid combination, with single blanks and with minimal spacing
        for text in optfam::all() {
            let toks: Vec<String> = text.split_whitespace().map(|t| t.to_string()).collect();
            let min = progen::print_minimal(&toks);
            emit(format!("O {}", text), text.clone().into_bytes());
            let min = min.trim_end().to_string();
            emit(format!("O {}", min), min.into_bytes());
        }
    } else if let Some(path) = mode.strip_prefix("file:") {
        for line in String::from_utf8_lossy(&std::fs::read(path).unwrap()).lines() {
            let line = line.trim();
            if let Some(rest) = line.strip_prefix("O ") {
                emit(line.to_string(), rest.as_bytes().to_vec());
                continue;
            }
            if let Some(rest) = line.strip_prefix("G ") {
                let mut it = rest.splitn(2, ' ');
                let _style = it.next().unwrap_or("g");
                let h = it.next().unwrap_or("");
                emit(line.to_string(), unhex(h));
            } else if let Some(rest) = line.strip_prefix("F ") {
                emit(line.to_string(), std::fs::read(rest).unwrap_or_default());
            } else if let Some(rest) = line.strip_prefix("T ") {
                // plain text case of the corpus (one line of VHDL)
                emit(line.to_string(), rest.as_bytes().to_vec());
            }
        }
    }
    impl_out.flush().unwrap();
}

fn main() {
    let args: Vec<String> = std::env::args().collect();
    std::panic::set_hook(Box::new(|_| {}));
    let run = move || {
        if args.len() >= 2 && args[1] == "keywords" {
            for n in keyword_names() {
                println!("{}", n);
            }
        } else if args.len() >= 7 && args[1] == "lex" {
            main_lex(&args[2..]);
        } else if args.len() >= 7 && args[1] == "accept" {
            main_accept(&args[2..]);
        } else {
            eprintln!("usage: c18 keywords | c18 lex <mode> <seed> <n> <cases> <impl> | c18 accept <mode> <seed> <n> <cases> <impl>");
            std::process::exit(2);
        }
    };
    // deep recursion of the parsers on generated programs: a generous stack
    std::thread::Builder::new().stack_size(256 << 20).spawn(run).unwrap().join().unwrap();
}
