// ---------------------------------------------------------------- running the implementation on a batch of cases
const PROCS_PER_ARCH: usize = 20;
const ARCHS_PER_PROJECT: usize = 100;

struct Placed {
    /// file name, first line of the process in the file
    fname: String,
    line0: u32,
    nlines: u32,
    toks: Vec<(u32, u32, u32)>,
}

struct TextBuf {
    text: String,
    line: u32,
}
impl TextBuf {
    fn new() -> TextBuf {
        TextBuf { text: String::new(), line: 0 }
    }
    fn push(&mut self, s: &str) {
        self.text.push_str(s);
        self.text.push('\n');
        self.line += 1;
    }
    /// the lines of one process; returns its first line
    fn process(&mut self, text: &str) -> u32 {
        let l0 = self.line;
        for l in text.split('~') {
            self.push(l);
        }
        l0
    }
}
const ENTITY_PORTS: &str = "  port ( p0 : in bit ; p1 : in integer range 0 to 3 ; p2 : in bit_vector ( 3 downto 0 ) ; q0 : out bit ; q1 : out bit_vector ( 3 downto 0 ) ; q2 : out integer range 0 to 3 ; io0 : inout bit ; bf0 : buffer bit ; pr0 : in rec_t ; qr0 : out rec_t ; qa0 : out arr_t ; lk0 : linkage bit ) ;";

/// every place a process can occur in an architecture: directly in the statement part, in a block, in an
/// if / for / case generate statement, nested; `k` selects the place; returns the first line of the process
fn emit_placed(tb: &mut TextBuf, k: usize, tag: &str, text: &str) -> u32 {
    match k % 6 {
        0 => tb.process(text),
        1 => {
            tb.push(&format!("{}b : block begin", tag));
            let l = tb.process(text);
            tb.push("end block ;");
            l
        }
        2 => {
            tb.push(&format!("{}g : if true generate begin", tag));
            let l = tb.process(text);
            tb.push("end generate ;");
            l
        }
        3 => {
            tb.push(&format!("{}g : for gi in 0 to 1 generate begin", tag));
            let l = tb.process(text);
            tb.push("end generate ;");
            l
        }
        4 => {
            tb.push(&format!("{}g : case kc generate", tag));
            tb.push("when 2 => begin");
            let l = tb.process(text);
            tb.push("end ;");
            tb.push("when others =>");
            tb.push("end generate ;");
            l
        }
        _ => {
            tb.push(&format!("{}g : if true generate begin", tag));
            tb.push(&format!("{}b : block begin", tag));
            tb.push(&format!("{}h : for gj in 0 to 0 generate begin", tag));
            let l = tb.process(text);
            tb.push("end generate ;");
            tb.push("end block ;");
            tb.push("end generate ;");
            l
        }
    }
}
/// an entity whose statement part holds the passive processes
fn emit_passive_entity(tb: &mut TextBuf, name: &str, procs: &[&str]) -> Vec<u32> {
    tb.push("use work.c20_pkg.all ;");
    tb.push(&format!("entity {} is", name));
    tb.push(ENTITY_PORTS);
    tb.push("begin");
    let lines = procs.iter().map(|t| tb.process(t)).collect();
    tb.push("end entity ;");
    lines
}
fn is_passive_flags(flags: &str) -> bool {
    flags.contains('P')
}

/// cases: (flags, text)
fn write_project(dir: &Path, cases: &[(&str, &str)]) -> Vec<Placed> {
    let _ = std::fs::remove_dir_all(dir);
    std::fs::create_dir_all(dir).unwrap();
    std::fs::write(dir.join("pkg.vhd"), PRELUDE_PKG).unwrap();
    let mut placed = Vec::new();
    for (fi, chunk) in cases.chunks(PROCS_PER_ARCH).enumerate() {
        let fname = format!("a{}.vhd", fi);
        let mut tb = TextBuf::new();
        let mut line0: Vec<u32> = vec![0; chunk.len()];
        let passive: Vec<usize> = (0..chunk.len()).filter(|i| is_passive_flags(chunk[*i].0)).collect();
        if !passive.is_empty() {
            let texts: Vec<&str> = passive.iter().map(|i| chunk[*i].1).collect();
            let ls = emit_passive_entity(&mut tb, &format!("c20_p{}", fi), &texts);
            for (i, l) in passive.iter().zip(ls) {
                line0[*i] = l;
            }
        }
        tb.push("use work.c20_pkg.all ;");
        tb.push(&format!("architecture a{} of c20_e is", fi));
        for l in ARCH_DECLS.lines() {
            tb.push(l);
        }
        tb.push("begin");
        for (i, (flags, text)) in chunk.iter().enumerate() {
            if !is_passive_flags(flags) {
                line0[i] = emit_placed(&mut tb, i, &format!("w{}", i), text);
            }
        }
        tb.push("end architecture ;");
        for (i, (_, text)) in chunk.iter().enumerate() {
            let lines: Vec<&str> = text.split('~').collect();
            placed.push(Placed { fname: fname.clone(), line0: line0[i], nlines: lines.len() as u32, toks: token_table(&lines) });
        }
        std::fs::write(dir.join(fname), tb.text).unwrap();
    }
    placed
}

/// library names in the project configuration: the emission filter of the lint looks the library up by name
const LIB_NAMES: [&str; 4] = ["MyLib", "lib", "DSP_Core2", "WORKLIB"];

fn analyse_dir(dir: &Path, libname: &str) -> Result<Vec<Diagnostic>, String> {
    let mut msgs = NullMessages;
    let mut cfg = Config::default();
    cfg.load_external_config(&mut msgs, Some("/repo/vhdl_libraries".to_string()));
    let toml = format!("[libraries]\n{}.files=['*.vhd']\n", libname);
    let c2 = Config::from_str(&toml, dir).map_err(|e| format!("config: {}", e))?;
    cfg.append(&c2, &mut msgs);
    let res = std::panic::catch_unwind(std::panic::AssertUnwindSafe(|| {
        let mut p = Project::from_config(cfg, &mut msgs);
        p.enable_sensitivity_list_linting();
        p.analyse()
    }));
    res.map_err(|_| "panic in Project::analyse".to_string())
}

/// names in the message of a missing diagnostic: `... 'a', 'b' ...`
fn quoted_names(msg: &str) -> Vec<String> {
    let mut v = Vec::new();
    let mut rest = msg;
    while let Some(i) = rest.find('\'') {
        let r = &rest[i + 1..];
        match r.find('\'') {
            Some(j) => {
                v.push(r[..j].to_string());
                rest = &r[j + 1..];
            }
            None => break,
        }
    }
    v
}

/// runs the implementation on the processes (text fields); one result line per process
fn run_impl(dir: &Path, texts: &[(&str, &str)], libname: &str) -> (Vec<String>, Vec<String>) {
    let placed = write_project(dir, texts);
    let mut errors = Vec::new();
    let diags = match analyse_dir(dir, libname) {
        Ok(d) => d,
        Err(e) => {
            return (texts.iter().map(|_| format!("E:{}", e)).collect(), vec![e]);
        }
    };
    let (out, errs) = map_diags(&diags, &placed);
    errors.extend(errs);
    (out, errors)
}

/// maps the diagnostics back to the placed processes: one result line per process + the diagnostics that lie
/// outside every process
fn map_diags(diags: &[Diagnostic], placed: &[Placed]) -> (Vec<String>, Vec<String>) {
    let mut errors = Vec::new();
    let mut line_map: HashMap<(String, u32), usize> = HashMap::new();
    for (pi, p) in placed.iter().enumerate() {
        for l in 0..p.nlines {
            line_map.insert((p.fname.clone(), p.line0 + l), pi);
        }
    }
    let find = |d_file: &Path, line: u32| -> Option<usize> {
        let name = d_file.file_name()?.to_str()?;
        line_map.get(&(name.to_string(), line)).cloned()
    };
    let span_of = |p: &Placed, r: &vhdl_lang::Range| -> Option<Sp> {
        let (sl, sc) = (r.start.line.checked_sub(p.line0)?, r.start.character);
        let (el, ec) = (r.end.line.checked_sub(p.line0)?, r.end.character);
        let a = p.toks.iter().position(|t| t.0 == sl && t.1 == sc)?;
        let b = p.toks.iter().position(|t| t.0 == el && t.2 == ec)?;
        Some((a as u32, b as u32))
    };
    let mut missing: Vec<Vec<String>> = vec![Vec::new(); placed.len()];
    let mut sup: Vec<Vec<Sp>> = vec![Vec::new(); placed.len()];
    let mut errs: Vec<Vec<String>> = vec![Vec::new(); placed.len()];
    for d in diags {
        let code = format!("{:?}", d.code);
        let pi = find(d.pos.source.file_name(), d.pos.range.start.line);
        let Some(pi) = pi else {
            errors.push(format!(
                "{}:{}:{} {} {}",
                d.pos.source.file_name().display(),
                d.pos.range.start.line + 1,
                d.pos.range.start.character,
                code,
                d.message
            ));
            continue;
        };
        let p = &placed[pi];
        match code.as_str() {
            "MissingInSensitivityList" => {
                let Some(at) = span_of(p, &d.pos.range) else {
                    errs[pi].push("E:missing-diagnostic-position".into());
                    continue;
                };
                let names = quoted_names(&d.message);
                let mut items = Vec::new();
                let mut rel_names = Vec::new();
                for (rp, rm) in d.related.iter() {
                    let n = quoted_names(rm);
                    let name = n.first().cloned().unwrap_or_default();
                    rel_names.push(name.clone());
                    let same_file = rp.source.file_name() == d.pos.source.file_name();
                    match (sig_id(&name), span_of(p, &rp.range)) {
                        (Some(id), Some(sp)) if same_file && rm.ends_with("first read here") => {
                            items.push(format!("{}@{}", id, sp_s(sp)))
                        }
                        _ => items.push(format!(
                            "E<{}@{}:{}>",
                            name, rp.range.start.line as i64 - p.line0 as i64, rp.range.start.character
                        )),
                    }
                }
                if names != rel_names {
                    errs[pi].push(format!("E:message-names-differ-from-related<{}>", d.message));
                }
                let plural_ok = if names.len() > 1 {
                    d.message.starts_with("Signals ") && d.message.ends_with(" are not read in the sensitivity list")
                } else {
                    d.message.starts_with("The signal ") && d.message.ends_with(" is not read in the sensitivity list")
                };
                if !plural_ok {
                    errs[pi].push(format!("E:message-text<{}>", d.message));
                }
                missing[pi].push(format!("M{}:{}", sp_s(at), items.join(",")));
            }
            "SuperfluousInSensitivityList" => match span_of(p, &d.pos.range) {
                Some(sp) => sup[pi].push(sp),
                None => errs[pi].push("E:superfluous-diagnostic-position".into()),
            },
            _ => errs[pi].push(format!("E:{}<{}>", code, d.message.replace(['\n', '\t', '|', ';'], " "))),
        }
    }
    let mut out = Vec::new();
    for pi in 0..placed.len() {
        let mut items = missing[pi].clone();
        sup[pi].sort();
        items.extend(sup[pi].iter().map(|s| format!("S{}", sp_s(*s))));
        items.extend(errs[pi].iter().cloned());
        out.push(items.join(";"));
    }
    (out, errors)
}

// ---------------------------------------------------------------- hand-made corpus
/// builds a case from explicit pieces with the same emitter the generator uses
struct B {
    g: G,
}
impl B {
    fn new() -> B {
        B {
            g: G {
                rng: Rng::new(0),
                em: Em::new(),
                ws: Vec::new(),
                reads: Vec::new(),
                soft: HashSet::new(),
                outs: Vec::new(),
                outside: false,
                outact: false,
                heur: false,
                allow_outside: false,
                allow_outact: false,
                allow_heur: false,
                passive: false,
                loopd: 0,
                lvars: Vec::new(),
                label: String::new(),
                max_depth: 2,
            },
        }
    }
    /// `process ( <names> )` + declarations + `begin`; returns (kw, listed, names)
    fn header(&mut self, list: &[&str]) -> (Sp, Vec<(u32, Sp)>, Vec<E>) {
        let g = &mut self.g;
        let k = g.em.tok("process");
        g.em.tok("(");
        let mut listed = Vec::new();
        let mut names = Vec::new();
        for (i, n) in list.iter().enumerate() {
            if i > 0 {
                g.em.tok(",");
            }
            let id = sig_id(n).unwrap();
            let e = g.name(n, id);
            listed.push((id, e.sp()));
            names.push(e);
        }
        g.em.tok(")");
        g.em.nl(0);
        g.em.lines.last_mut().unwrap().push_str(PROC_DECLS);
        g.em.ntok += PROC_DECLS.split_whitespace().count() as u32;
        g.em.nl(2);
        g.em.tok("begin");
        ((k, k), listed, names)
    }
    fn sig(&mut self, n: &str) -> E {
        self.g.read(sig_id(n).unwrap())
    }
    fn tgt(&mut self, n: &str) -> E {
        self.g.name(n, sig_id(n).unwrap())
    }
    /// `t <= v ;`
    fn assign(&mut self, t: &str, v: &str) -> S {
        self.g.em.nl(4);
        let te = self.tgt(t);
        self.g.em.tok("<=");
        let ve = self.sig(v);
        self.g.em.tok(";");
        S::SigAssign(te, Rhs::Simple(Some(vec![(ve, None)])))
    }
    /// `s = '1'` / `s = 1`
    fn cmp(&mut self, s: &str, lit: &str) -> E {
        let l = self.sig(s);
        self.g.em.tok("=");
        let r = self.g.lit(lit);
        E::Binary((l.sp().0, r.sp().1), Box::new(l), Box::new(r))
    }
    /// `clk ' event`
    fn event(&mut self) -> E {
        let p = self.g.name("clk", CLK);
        self.g.em.tok("'");
        let ev = self.g.em.tok("event");
        E::Attr((p.sp().0, ev), Box::new(p), 1, None)
    }
    /// `rising_edge ( clk )` / `falling_edge ( clk )`
    fn edge(&mut self, n: &str, id: u32) -> E {
        let f = self.g.name(n, id);
        self.g.em.tok("(");
        let a = self.g.read(CLK);
        let b = self.g.em.tok(")");
        E::Call((f.sp().0, b), Box::new(f), vec![a])
    }
    fn bin(l: E, r: E) -> E {
        E::Binary((l.sp().0, r.sp().1), Box::new(l), Box::new(r))
    }
    /// `( <f> )`
    fn paren(&mut self, f: &dyn Fn(&mut B) -> E) -> E {
        let a = self.g.em.tok("(");
        let e = f(self);
        let b = self.g.em.tok(")");
        E::Paren((a, b), Box::new(e))
    }
    /// `not <f>`
    fn not(&mut self, f: &dyn Fn(&mut B) -> E) -> E {
        let a = self.g.em.tok("not");
        let e = f(self);
        E::Unary((a, e.sp().1), Box::new(e))
    }
    /// clocked corpus case: list ( clk , b1 ), one if statement `if <cond> then ob0 <= b0 ; end if ;` or, with
    /// `reset`, `if b1 = '1' then ob0 <= b2 ; elsif <cond> then ob0 <= b0 ; end if ;` — a wrongly combinational
    /// classification reports b0 (and b2) missing and b1 superfluous
    fn clocked_case(id: &str, reset: bool, cond: &dyn Fn(&mut B) -> E) -> Case {
        let mut b = B::new();
        let (kw, listed, names) = b.header(&["clk", "b1"]);
        b.g.em.nl(4);
        b.g.em.tok("if");
        let mut bs = Vec::new();
        if reset {
            let c0 = b.cmp("b3", "'1'");
            b.g.em.tok("then");
            let s0 = b.assign("ob0", "b2");
            bs.push((c0, vec![s0]));
            b.g.em.nl(4);
            b.g.em.tok("elsif");
        }
        let c = cond(&mut b);
        b.g.em.tok("then");
        let s = b.assign("ob0", "b0");
        bs.push((c, vec![s]));
        b.g.em.nl(4);
        b.g.em.toks("end if ;");
        b.finish(id, "Fk", kw, listed, names, vec![S::If(bs, Vec::new())])
    }
    fn finish(mut self, id: &str, flags: &str, kw: Sp, listed: Vec<(u32, Sp)>, names: Vec<E>, body: Vec<S>) -> Case {
        self.g.em.nl(2);
        self.g.em.toks("end process ;");
        let p = Proc { kw, sens: Sens::Names(names), body };
        let oracle = oracle_pair(kw, &listed, &self.g.reads, &self.g.soft, &self.g.outs);
        Case {
            id: id.to_string(),
            flags: flags.to_string(),
            text: self.g.em.lines.join("~"),
            oracle,
            ast: ser_proc(&p),
            coq: cproc(&p),
        }
    }
}

fn corpus_cases() -> Vec<Case> {
    let mut v = Vec::new();
    {
        // F14: if i0 = 1 then ob0 <= b0 ; ob1 <= b2 ; elsif b0 = '1' then ob0 <= b1 ; end if ;   list (ob0)
        let mut b = B::new();
        let (kw, listed, names) = b.header(&["ob0"]);
        b.g.em.nl(4);
        b.g.em.tok("if");
        let c0 = b.cmp("i0", "1");
        b.g.em.tok("then");
        let s1 = b.assign("ob0", "b0");
        let s2 = b.assign("ob1", "b2");
        b.g.em.nl(4);
        b.g.em.tok("elsif");
        let c1 = b.cmp("b0", "'1'");
        b.g.em.tok("then");
        let s3 = b.assign("ob0", "b1");
        b.g.em.nl(4);
        b.g.em.toks("end if ;");
        let body = vec![S::If(vec![(c0, vec![s1, s2]), (c1, vec![s3])], Vec::new())];
        v.push(b.finish("corpus.F14", "Fc", kw, listed, names, body));
    }
    {
        // F15: pb ( b3 , b1 , b2 , b0 ) ;   list (ob0)
        let mut b = B::new();
        let (kw, listed, names) = b.header(&["ob0"]);
        b.g.em.nl(4);
        let p = b.g.name("pb", ID_PB);
        b.g.em.tok("(");
        let mut args = Vec::new();
        for (i, n) in ["b3", "b1", "b2", "b0"].iter().enumerate() {
            if i > 0 {
                b.g.em.tok(",");
            }
            args.push(('i', None, b.sig(n)));
        }
        let e = b.g.em.tok(")");
        b.g.em.tok(";");
        let body = vec![S::Call((p.sp().0, e), p, args)];
        v.push(b.finish("corpus.F15", "Fc", kw, listed, names, body));
    }
    {
        // F15 with eight actuals, the input of DESIGN.md section 5 (two calls of four)
        let mut b = B::new();
        let (kw, listed, names) = b.header(&["ob1"]);
        let mut body = Vec::new();
        for group in [["b5", "b3", "b4", "b1"], ["b0", "b2", "p0", "gs"]] {
            b.g.em.nl(4);
            let p = b.g.name("pb", ID_PB);
            b.g.em.tok("(");
            let mut args = Vec::new();
            for (i, n) in group.iter().enumerate() {
                if i > 0 {
                    b.g.em.tok(",");
                }
                args.push(('i', None, b.sig(n)));
            }
            let e = b.g.em.tok(")");
            b.g.em.tok(";");
            body.push(S::Call((p.sp().0, e), p, args));
        }
        v.push(b.finish("corpus.F15b", "Fc", kw, listed, names, body));
    }
    for (id, list) in [("corpus.F20a", vec!["b0"]), ("corpus.F20b", vec!["b0", "ob1"])] {
        // F20 (open): po ( b0 , ob1 ) ;  ob1 is the actual of an out-mode formal
        let mut b = B::new();
        let (kw, listed, names) = b.header(&list);
        b.g.em.nl(4);
        let p = b.g.name("po", ID_PO);
        b.g.em.tok("(");
        let a0 = b.sig("b0");
        b.g.em.tok(",");
        let a1 = b.tgt("ob1");
        let n_reads = b.g.reads.len();
        b.g.outs.push((sig_id("ob1").unwrap(), a1.sp(), n_reads));
        let e = b.g.em.tok(")");
        b.g.em.tok(";");
        let body = vec![S::Call((p.sp().0, e), p, vec![('i', None, a0), ('o', None, a1)])];
        v.push(b.finish(id, "FOc", kw, listed, names, body));
    }
    {
        // observation (outside the family): assert .. report bit ' image ( b1 ) ;  ov0 ( i0 ) <= b0 ;
        let mut b = B::new();
        let (kw, listed, names) = b.header(&["b0", "b2"]);
        b.g.em.nl(4);
        b.g.em.tok("assert");
        let c = b.cmp("b0", "'1'");
        b.g.em.tok("report");
        let t = b.g.name("bit", ID_BIT);
        b.g.em.tok("'");
        b.g.em.tok("image");
        b.g.em.tok("(");
        let x = b.sig("b1");
        let e = b.g.em.tok(")");
        b.g.em.tok(";");
        let rep = E::Attr((t.sp().0, e), Box::new(t), 0, Some(Box::new(x)));
        let s1 = S::Assert(c, Some(rep), None);
        b.g.em.nl(4);
        let p = b.tgt("ov0");
        b.g.em.tok("(");
        let i = b.sig("i0");
        let e2 = b.g.em.tok(")");
        b.g.em.tok("<=");
        let val = b.sig("b0");
        b.g.em.tok(";");
        let s2 = S::SigAssign(E::Call((p.sp().0, e2), Box::new(p), vec![i]), Rhs::Simple(Some(vec![(val, None)])));
        v.push(b.finish("corpus.outside", "Xc", kw, listed, names, vec![s1, s2]));
    }
    {
        // observation (heuristic): if is_one ( b2 ) then ob0 <= b0 ; end if ;  => classified as clocked
        let mut b = B::new();
        let (kw, listed, names) = b.header(&["b1"]);
        b.g.em.nl(4);
        b.g.em.tok("if");
        let f = b.g.name("is_one", ID_IS_ONE);
        b.g.em.tok("(");
        let a = b.sig("b2");
        let e = b.g.em.tok(")");
        b.g.em.tok("then");
        let s = b.assign("ob0", "b0");
        b.g.em.nl(4);
        b.g.em.toks("end if ;");
        let c = E::Call((f.sp().0, e), Box::new(f), vec![a]);
        v.push(b.finish("corpus.heuristic", "FHc", kw, listed, names, vec![S::If(vec![(c, vec![s])], Vec::new())]));
    }
    {
        // F20 with named association in reversed order and an indexed out actual:
        //   po ( o => ov0 ( i0 ) , a => b0 ) ;   ov0 is written, i0 and b0 are read
        let mut b = B::new();
        let (kw, listed, names) = b.header(&["b1", "ov0"]);
        b.g.em.nl(4);
        let p = b.g.name("po", ID_PO);
        b.g.em.tok("(");
        let ft = b.g.em.tok("o");
        b.g.em.tok("=>");
        let w = b.g.written("ov0");
        b.g.em.tok("(");
        let i = b.sig("i0");
        let e1 = b.g.em.tok(")");
        let a_o = E::Call((w.sp().0, e1), Box::new(w), vec![i]);
        b.g.em.tok(",");
        let fa = b.g.em.tok("a");
        b.g.em.tok("=>");
        let a_a = b.sig("b0");
        let e = b.g.em.tok(")");
        b.g.em.tok(";");
        let body = vec![S::Call(
            (p.sp().0, e),
            p,
            vec![('o', Some(E::Desig((ft, ft), Some(417))), a_o), ('i', Some(E::Desig((fa, fa), Some(416))), a_a)],
        )];
        v.push(b.finish("corpus.F20c", "FOc", kw, listed, names, body));
    }
    {
        // out-mode actual that is a slice of an element: pov ( b0 , om0 ( i0 ) ( i1 downto 0 ) ) ;
        // the slice range of a WRITTEN name is read (analyze_written_name), om0 is not
        let mut b = B::new();
        let (kw, listed, names) = b.header(&["b0", "om0"]);
        b.g.em.nl(4);
        let p = b.g.name("pov", ID_POV);
        b.g.em.tok("(");
        let a0 = b.sig("b0");
        b.g.em.tok(",");
        let w = b.g.written("om0");
        b.g.em.tok("(");
        let i = b.sig("i0");
        let e1 = b.g.em.tok(")");
        let inner = E::Call((w.sp().0, e1), Box::new(w), vec![i]);
        b.g.em.tok("(");
        let hi = b.sig("i1");
        b.g.em.tok("downto");
        let lo = b.g.lit("0");
        let e2 = b.g.em.tok(")");
        let a1 = E::Slice((inner.sp().0, e2), Box::new(inner), vec![hi, lo]);
        let e = b.g.em.tok(")");
        b.g.em.tok(";");
        let body = vec![S::Call((p.sp().0, e), p, vec![('i', None, a0), ('o', None, a1)])];
        v.push(b.finish("corpus.F20d", "FOc", kw, listed, names, body));
    }
    // sensitivity-list entries with two and three levels of indexing / slicing (seeded change C20-m6)
    for (id, entry, read_it) in [("corpus.M1", 0, true), ("corpus.M2", 1, false), ("corpus.M3", 2, true), ("corpus.M4", 3, false)] {
        let mut b = B::new();
        let g = &mut b.g;
        let k = g.em.tok("process");
        g.em.tok("(");
        let sig = if entry == 2 { "v0" } else { "m0" };
        let sid = sig_id(sig).unwrap();
        let p = g.name(sig, sid);
        let mut e = p;
        let levels: &[&str] = match entry {
            0 => &["i", "i"],      // m0 ( 0 ) ( 1 )
            1 => &["i", "s"],      // m0 ( 1 ) ( 3 downto 0 )
            2 => &["s", "i"],      // v0 ( 3 downto 0 ) ( 2 )
            _ => &["i", "s", "i"], // m0 ( 2 ) ( 3 downto 0 ) ( 1 )
        };
        for l in levels {
            g.em.tok("(");
            if *l == "i" {
                let i = g.lit("1");
                let bb = g.em.tok(")");
                e = E::Call((e.sp().0, bb), Box::new(e), vec![i]);
            } else {
                let a = g.lit("3");
                g.em.tok("downto");
                let c = g.lit("0");
                let bb = g.em.tok(")");
                e = E::Slice((e.sp().0, bb), Box::new(e), vec![a, c]);
            }
        }
        g.em.tok(",");
        let e2 = g.name("b1", sig_id("b1").unwrap());
        g.em.tok(")");
        let listed = vec![(sid, e.sp()), (sig_id("b1").unwrap(), e2.sp())];
        let names = vec![e, e2];
        g.em.nl(0);
        g.em.lines.last_mut().unwrap().push_str(PROC_DECLS);
        g.em.ntok += PROC_DECLS.split_whitespace().count() as u32;
        g.em.nl(2);
        g.em.tok("begin");
        let mut body = vec![b.assign("ob0", "b0")];
        if read_it {
            // ob1 <= <sig> ( i0 ) [( 2 )] ;
            b.g.em.nl(4);
            let t = b.tgt("ob1");
            b.g.em.tok("<=");
            let r = b.sig(sig);
            b.g.em.tok("(");
            let i = b.sig("i0");
            let bb = b.g.em.tok(")");
            let mut val = E::Call((r.sp().0, bb), Box::new(r), vec![i]);
            if sig == "m0" {
                b.g.em.tok("(");
                let j = b.g.lit("2");
                let bb2 = b.g.em.tok(")");
                val = E::Call((val.sp().0, bb2), Box::new(val), vec![j]);
            }
            b.g.em.tok(";");
            body.push(S::SigAssign(t, Rhs::Simple(Some(vec![(val, None)]))));
        }
        v.push(b.finish(id, "Fc", (k, k), listed, names, body));
    }
    {
        // ports of every mode are read signals (seeded change C20-m8: out ports dropped):
        //   ob0 <= q0 ; ob1 <= io0 ; ob2 <= bf0 ; ob0 <= p0 ;   list ( b1 , q1 )
        let mut b = B::new();
        let (kw, listed, names) = b.header(&["b1", "q1"]);
        let body = vec![b.assign("ob0", "q0"), b.assign("ob1", "io0"), b.assign("ob2", "bf0"), b.assign("ob0", "p0")];
        v.push(b.finish("corpus.P1", "Fc", kw, listed, names, body));
    }
    {
        // out ports as prefix of an indexed name, in a condition and as call argument; listed out port read / not read
        //   if q2 = 1 then ob1 <= q1 ( i0 ) ; end if ; pb ( q0 , b0 , b0 , b0 ) ;   list ( q0 , qa0 )
        let mut b = B::new();
        let (kw, listed, names) = b.header(&["q0", "qa0"]);
        b.g.em.nl(4);
        b.g.em.tok("if");
        let c = b.cmp("q2", "1");
        b.g.em.tok("then");
        b.g.em.nl(4);
        let t = b.tgt("ob1");
        b.g.em.tok("<=");
        let r = b.sig("q1");
        b.g.em.tok("(");
        let i = b.sig("i0");
        let bb = b.g.em.tok(")");
        b.g.em.tok(";");
        let s1 = S::SigAssign(t, Rhs::Simple(Some(vec![(E::Call((r.sp().0, bb), Box::new(r), vec![i]), None)])));
        b.g.em.nl(4);
        b.g.em.toks("end if ;");
        b.g.em.nl(4);
        let p = b.g.name("pb", ID_PB);
        b.g.em.tok("(");
        let mut args = Vec::new();
        for (k, n) in ["q0", "b0", "b0", "b0"].iter().enumerate() {
            if k > 0 {
                b.g.em.tok(",");
            }
            args.push(('i', None, b.sig(n)));
        }
        let e = b.g.em.tok(")");
        b.g.em.tok(";");
        let body = vec![S::If(vec![(c, vec![s1])], Vec::new()), S::Call((p.sp().0, e), p, args)];
        v.push(b.finish("corpus.P2", "Fc", kw, listed, names, body));
    }
    {
        // a passive process in the statement part of an ENTITY (seeded change C20-m10): only ports are visible
        //   assert q0 = '1' ; assert io0 = '1' ;   list ( p0 , bf0 )
        let mut b = B::new();
        let (kw, listed, names) = b.header(&["p0", "bf0"]);
        b.g.em.nl(4);
        b.g.em.tok("assert");
        let c1 = b.cmp("q0", "'1'");
        b.g.em.tok(";");
        b.g.em.nl(4);
        b.g.em.tok("assert");
        let c2 = b.cmp("io0", "'1'");
        b.g.em.tok(";");
        let body = vec![S::Assert(c1, None, None), S::Assert(c2, None, None)];
        v.push(b.finish("corpus.E1", "FPc", kw, listed, names, body));
    }
    // clocked shapes: the edge test in every operand position `is_likely_clocked` descends into
    v.push(B::clocked_case("corpus.K1", false, &|b| {
        // clk = '1' and clk ' event
        let l = b.cmp("clk", "'1'");
        b.g.em.tok("and");
        let r = b.event();
        B::bin(l, r)
    }));
    v.push(B::clocked_case("corpus.K2", false, &|b| {
        // b2 = '1' and rising_edge ( clk )
        let l = b.cmp("b2", "'1'");
        b.g.em.tok("and");
        let r = b.edge("rising_edge", ID_RISING);
        B::bin(l, r)
    }));
    v.push(B::clocked_case("corpus.K3", true, &|b| {
        // elsif b2 = '1' and falling_edge ( clk )
        let l = b.cmp("b2", "'1'");
        b.g.em.tok("and");
        let r = b.edge("falling_edge", ID_FALLING);
        B::bin(l, r)
    }));
    v.push(B::clocked_case("corpus.K4", false, &|b| {
        // ( b2 = '1' ) and ( clk ' event and clk = '0' )
        let l = b.paren(&|b| b.cmp("b2", "'1'"));
        b.g.em.tok("and");
        let r = b.paren(&|b| {
            let l = b.event();
            b.g.em.tok("and");
            let r = b.cmp("clk", "'0'");
            B::bin(l, r)
        });
        B::bin(l, r)
    }));
    v.push(B::clocked_case("corpus.K5", false, &|b| {
        // not ( not rising_edge ( clk ) )
        b.not(&|b| b.paren(&|b| b.not(&|b| b.edge("rising_edge", ID_RISING))))
    }));
    v.push(B::clocked_case("corpus.K6", true, &|b| {
        // elsif ( b2 = '1' ) and ( ( clk = '1' ) and ( not ( not clk ' event ) ) )
        let l = b.paren(&|b| b.cmp("b2", "'1'"));
        b.g.em.tok("and");
        let r = b.paren(&|b| {
            let l = b.paren(&|b| b.cmp("clk", "'1'"));
            b.g.em.tok("and");
            let r = b.paren(&|b| b.not(&|b| b.paren(&|b| b.not(&|b| b.event()))));
            B::bin(l, r)
        });
        B::bin(l, r)
    }));
    v.push(B::clocked_case("corpus.K7", false, &|b| {
        // rising_edge ( clk ) and b2 = '1'   (edge test on the left)
        let l = b.edge("rising_edge", ID_RISING);
        b.g.em.tok("and");
        let r = b.cmp("b2", "'1'");
        B::bin(l, r)
    }));
    v
}

fn case_line(c: &Case) -> String {
    format!("{}\t{}\t{}\t{}\t{}\t{}", c.id, c.flags, c.text, c.oracle, ROOT, c.ast)
}

fn main() {
    std::panic::set_hook(Box::new(|_| {}));
    let args: Vec<String> = std::env::args().collect();
    if args.len() < 7 {
        eprintln!("usage: c20 <mode> <seed> <n> <workdir> <cases_out> <impl_out>");
        std::process::exit(2);
    }
    let mode = args[1].as_str();
    let seed: u64 = args[2].parse().unwrap_or(1);
    let n: usize = args[3].parse().unwrap_or(0);
    let workdir = Path::new(&args[4]);
    if let Some(d) = mode.strip_prefix("dump:") {
        // debugging aid: all diagnostics of the project in directory d
        for x in analyse_dir(Path::new(d), "lib").unwrap_or_default() {
            println!("{}:{}:{} {:?} {}", x.pos.source.file_name().display(), x.pos.range.start.line + 1, x.pos.range.start.character, x.code, x.message);
        }
        return;
    }
    // incremental stage (linter cache): histories instead of single processes; <cases_out> is the base name of the outputs
    if mode == "hist" || mode == "histcorpus" || mode.starts_with("histfile:") {
        let hists: Vec<Hist> = if mode == "hist" {
            let mut rng = Rng::new(seed.wrapping_mul(7919).wrapping_add(20));
            (0..n).map(|i| gen_hist(&mut rng, format!("h{}.{}", seed, i))).collect()
        } else if mode == "histcorpus" {
            corpus_hists()
        } else {
            let path = mode.strip_prefix("histfile:").unwrap();
            std::fs::read_to_string(path)
                .unwrap()
                .lines()
                .filter(|l| !l.trim().is_empty() && !l.starts_with('#'))
                .map(|l| hist_of_json(&serde_json::from_str(l).expect("history json")))
                .collect()
        };
        hist_main(hists, workdir, &args[5]);
        return;
    }
    let mut lines: Vec<String> = Vec::new();
    let mut coq: Vec<String> = Vec::new();
    if let Some(path) = mode.strip_prefix("file:") {
        for l in std::fs::read_to_string(path).unwrap().lines() {
            if !l.trim().is_empty() && !l.starts_with('#') {
                lines.push(l.to_string());
            }
        }
    } else if mode == "corpus" {
        for c in corpus_cases() {
            lines.push(case_line(&c));
            coq.push(format!("{}\t{}", c.id, c.coq));
        }
    } else {
        let depth: u32 = mode.strip_prefix("random:").and_then(|d| d.parse().ok()).unwrap_or(3);
        let allow_outact = !mode.starts_with("random-noout");
        let mut rng = Rng::new(seed);
        for i in 0..n {
            let c = gen_case(&mut rng, format!("s{}.{}", seed, i), format!("lbl{}", i), depth, allow_outact);
            lines.push(case_line(&c));
            if i % 97 == 0 {
                coq.push(format!("{}\t{}", c.id, c.coq));
            }
        }
    }
    let mut fc = std::io::BufWriter::new(std::fs::File::create(&args[5]).unwrap());
    for l in &lines {
        writeln!(fc, "{}", l).unwrap();
    }
    fc.flush().unwrap();
    if !coq.is_empty() {
        std::fs::write(format!("{}.coq", args[5]), coq.join("\n") + "\n").unwrap();
    }
    let mut fi = std::io::BufWriter::new(std::fs::File::create(&args[6]).unwrap());
    let per_project = PROCS_PER_ARCH * ARCHS_PER_PROJECT;
    let mut all_errors: Vec<String> = Vec::new();
    for (bi, chunk) in lines.chunks(per_project).enumerate() {
        let texts: Vec<(&str, &str)> = chunk
            .iter()
            .map(|l| {
                let mut f = l.split('\t');
                let flags = f.nth(1).unwrap_or("");
                (flags, f.next().unwrap_or(""))
            })
            .collect();
        let (out, errors) = run_impl(&workdir.join(format!("p{}", bi % 2)), &texts, LIB_NAMES[bi % LIB_NAMES.len()]);
        for o in out {
            writeln!(fi, "{}", o).unwrap();
        }
        for e in errors {
            if all_errors.len() < 50 {
                all_errors.push(e.replace('\n', " "));
            }
        }
    }
    fi.flush().unwrap();
    std::fs::write(format!("{}.err", args[6]), all_errors.join("\n")).unwrap();
}
