// ---------------------------------------------------------------- incremental stage: the linter's per-unit cache
// One Project with the lint enabled is taken through edits (`update_source` + `analyse`); after every step its
// sensitivity-list diagnostics are compared with a freshly built Project on the same contents, and (process by
// process) with the extracted model.  Libraries lib1, lib2 (same-named units in two libraries) and lib3
// (third party: never reported); entities c20_e and c20_f per library (same-named architectures of different
// entities); architectures live in their own files, several per entity.
use serde_json::{json, Value};

const ENTITY_F: &str = "\
use work.c20_pkg.all ;
entity c20_f is
  port ( p0 : in bit ; p1 : in integer range 0 to 3 ; p2 : in bit_vector ( 3 downto 0 ) ; q0 : out bit ; q1 : out bit_vector ( 3 downto 0 ) ; q2 : out integer range 0 to 3 ; io0 : inout bit ; bf0 : buffer bit ; pr0 : in rec_t ; qr0 : out rec_t ; qa0 : out arr_t ; lk0 : linkage bit ) ;
end entity ;
";
const HLIB1: [&str; 3] = ["lib1", "MyLib", "DSP_Core"];
const HLIB2: [&str; 3] = ["Lib_2b", "lib2", "WORKLIB"];
const HLIB3: [&str; 3] = ["VENDOR", "Third_P", "lib3"];
const ARCH_FILES: [&str; 6] = ["l1_f0.vhd", "l1_f1.vhd", "l1_f2.vhd", "l2_f0.vhd", "l2_f1.vhd", "l3_f0.vhd"];

#[derive(Clone)]
struct ArchSpec {
    name: String,
    entity: String,
    /// case lines of the processes
    procs: Vec<String>,
}
#[derive(Clone)]
struct FileState {
    file: String,
    text: String,
    /// (first line, case line) of every process
    procs: Vec<(u32, String)>,
}

fn file_state(file: &str, archs: &[ArchSpec]) -> FileState {
    let mut tb = TextBuf::new();
    let mut procs = Vec::new();
    for (ai, a) in archs.iter().enumerate() {
        let field = |c: &str, i: usize| c.split('\t').nth(i).unwrap_or("").to_string();
        // passive processes live in the statement part of an entity of their own (a primary unit in this file)
        let passive: Vec<&String> = a.procs.iter().filter(|c| is_passive_flags(&field(c, 1))).collect();
        if !passive.is_empty() {
            let texts: Vec<String> = passive.iter().map(|c| field(c, 2)).collect();
            let refs: Vec<&str> = texts.iter().map(|t| t.as_str()).collect();
            let name = format!("c20_p_{}_{}_{}", file.trim_end_matches(".vhd"), a.name, a.entity);
            let ls = emit_passive_entity(&mut tb, &name, &refs);
            for (c, l) in passive.iter().zip(ls) {
                procs.push((l, (*c).clone()));
            }
        }
        tb.push("use work.c20_pkg.all ;");
        tb.push(&format!("architecture {} of {} is", a.name, a.entity));
        for l in ARCH_DECLS.lines() {
            tb.push(l);
        }
        tb.push("begin");
        for (k, c) in a.procs.iter().enumerate() {
            if !is_passive_flags(&field(c, 1)) {
                let l = emit_placed(&mut tb, k + ai, &format!("w{}", k), &field(c, 2));
                procs.push((l, c.clone()));
            }
        }
        tb.push("end architecture ;");
    }
    FileState { file: file.to_string(), text: tb.text, procs }
}

fn gen_arch(rng: &mut Rng, id: &str, name: &str, entity: &str) -> ArchSpec {
    let n = 1 + rng.below(3);
    let procs = (0..n)
        .map(|k| case_line(&gen_case(rng, format!("{}.{}", id, k), format!("lbl{}", k), 2, true)))
        .collect();
    ArchSpec { name: name.to_string(), entity: entity.to_string(), procs }
}

fn lib_of(file: &str) -> &str {
    &file[..2]
}

/// a history: initial file states + steps (each a list of new file states)
struct Hist {
    id: String,
    /// names of the three libraries in the project configuration (the third one is third party)
    libs: [String; 3],
    init: Vec<FileState>,
    steps: Vec<Vec<FileState>>,
}

fn gen_hist(rng: &mut Rng, id: String) -> Hist {
    let mut r = rng.fork();
    let names = ["a0", "a1", "a2"];
    let ents = ["c20_e", "c20_f"];
    // current contents: file -> architectures
    let mut cur: Vec<(String, Vec<ArchSpec>)> = ARCH_FILES.iter().map(|f| (f.to_string(), Vec::new())).collect();
    let mut serial = 0;
    let used = |cur: &Vec<(String, Vec<ArchSpec>)>, lib: &str, n: &str, e: &str| {
        cur.iter().any(|(f, archs)| lib_of(f) == lib && archs.iter().any(|a| a.name == n && a.entity == e))
    };
    let mut fresh_arch = |cur: &Vec<(String, Vec<ArchSpec>)>, r: &mut Rng, file: &str, serial: &mut u32| -> Option<ArchSpec> {
        for _ in 0..8 {
            let n = names[r.below(3)];
            let e = ents[r.below(2)];
            if !used(cur, lib_of(file), n, e) {
                *serial += 1;
                return Some(gen_arch(r, &format!("{}.u{}", id, serial), n, e));
            }
        }
        None
    };
    for i in 0..cur.len() {
        let file = cur[i].0.clone();
        for _ in 0..1 + r.below(2) {
            if let Some(a) = fresh_arch(&cur, &mut r, &file, &mut serial) {
                cur[i].1.push(a);
            }
        }
    }
    let init: Vec<FileState> = cur.iter().map(|(f, a)| file_state(f, a)).collect();
    let mut steps = Vec::new();
    for _ in 0..2 + r.below(3) {
        let mut touched: Vec<usize> = Vec::new();
        let i = r.below(cur.len());
        let file = cur[i].0.clone();
        match r.below(7) {
            0 | 1 => {
                // rename one architecture (same processes): the old unit disappears, its entity stays
                if !cur[i].1.is_empty() {
                    let k = r.below(cur[i].1.len());
                    let e = cur[i].1[k].entity.clone();
                    let free: Vec<&str> = names.iter().cloned().filter(|n| !used(&cur, lib_of(&file), n, &e)).collect();
                    if !free.is_empty() {
                        cur[i].1[k].name = free[r.below(free.len())].to_string();
                    }
                }
                touched.push(i);
            }
            2 => {
                // empty the file
                cur[i].1.clear();
                touched.push(i);
            }
            3 => {
                // replace all architectures of the file by new ones
                cur[i].1.clear();
                for _ in 0..1 + r.below(2) {
                    if let Some(a) = fresh_arch(&cur, &mut r, &file, &mut serial) {
                        cur[i].1.push(a);
                    }
                }
                touched.push(i);
            }
            4 => {
                // new processes inside an existing architecture
                if !cur[i].1.is_empty() {
                    let k = r.below(cur[i].1.len());
                    serial += 1;
                    let (n, e) = (cur[i].1[k].name.clone(), cur[i].1[k].entity.clone());
                    cur[i].1[k] = gen_arch(&mut r, &format!("{}.u{}", id, serial), &n, &e);
                }
                touched.push(i);
            }
            5 => {
                // drop one architecture, keep the others
                if !cur[i].1.is_empty() {
                    let k = r.below(cur[i].1.len());
                    cur[i].1.remove(k);
                }
                touched.push(i);
            }
            _ => {
                // move one architecture to another file of the same library (two files change in one step)
                let others: Vec<usize> =
                    (0..cur.len()).filter(|j| *j != i && lib_of(&cur[*j].0) == lib_of(&file)).collect();
                if !cur[i].1.is_empty() && !others.is_empty() {
                    let j = others[r.below(others.len())];
                    let k = r.below(cur[i].1.len());
                    let a = cur[i].1.remove(k);
                    cur[j].1.push(a);
                    touched.push(j);
                }
                touched.push(i);
            }
        }
        steps.push(touched.iter().map(|t| file_state(&cur[*t].0, &cur[*t].1)).collect());
    }
    let v = r.below(3);
    let libs = [HLIB1[v].to_string(), HLIB2[(v + 1) % 3].to_string(), HLIB3[(v + 2) % 3].to_string()];
    Hist { id, libs, init, steps }
}

fn fs_json(f: &FileState) -> Value {
    json!({"file": f.file, "text": f.text,
           "procs": f.procs.iter().map(|(l, c)| json!({"line0": l, "case": c})).collect::<Vec<_>>()})
}
fn hist_json(h: &Hist) -> Value {
    json!({"id": h.id, "libs": h.libs.to_vec(),
           "init": h.init.iter().map(fs_json).collect::<Vec<_>>(),
           "steps": h.steps.iter().map(|s| s.iter().map(fs_json).collect::<Vec<_>>()).collect::<Vec<_>>()})
}
fn fs_of_json(v: &Value) -> FileState {
    FileState {
        file: v["file"].as_str().unwrap_or("").to_string(),
        text: v["text"].as_str().unwrap_or("").to_string(),
        procs: v["procs"]
            .as_array()
            .map(|a| {
                a.iter()
                    .map(|p| (p["line0"].as_u64().unwrap_or(0) as u32, p["case"].as_str().unwrap_or("").to_string()))
                    .collect()
            })
            .unwrap_or_default(),
    }
}
fn hist_of_json(v: &Value) -> Hist {
    let arr = |x: &Value| x.as_array().cloned().unwrap_or_default();
    Hist {
        id: v["id"].as_str().unwrap_or("hist").to_string(),
        libs: {
            let l = arr(&v["libs"]);
            let g = |i: usize, d: &str| l.get(i).and_then(|x| x.as_str()).unwrap_or(d).to_string();
            [g(0, "lib1"), g(1, "lib2"), g(2, "lib3")]
        },
        init: arr(&v["init"]).iter().map(fs_of_json).collect(),
        steps: arr(&v["steps"]).iter().map(|s| arr(s).iter().map(fs_of_json).collect()).collect(),
    }
}

fn hist_config(dir: &Path, libs: &[String; 3]) -> Config {
    let toml = format!(
        "[libraries]\nstd.files=['/repo/vhdl_libraries/std/*.vhd']\nstd.is_third_party=true\n\
         {}.files=['l1_*.vhd']\n{}.files=['l2_*.vhd']\n{}.files=['l3_*.vhd']\n{}.is_third_party=true\n",
        libs[0], libs[1], libs[2], libs[2]
    );
    let mut msgs = NullMessages;
    let mut cfg = Config::default();
    cfg.append(&Config::from_str(&toml, dir).unwrap(), &mut msgs);
    cfg
}
fn canon_diag(d: &Diagnostic) -> String {
    let mut s = format!(
        "{} {}:{}-{}:{} {:?} {}",
        d.pos.source.file_name().file_name().and_then(|x| x.to_str()).unwrap_or("?"),
        d.pos.range.start.line,
        d.pos.range.start.character,
        d.pos.range.end.line,
        d.pos.range.end.character,
        d.code,
        d.message
    );
    for (p, m) in d.related.iter() {
        write!(s, " [{}:{} {}]", p.range.start.line, p.range.start.character, m).unwrap();
    }
    s.replace(['\n', '\t'], " ")
}

struct HistOut {
    /// `id step SAME|DIFF|PANIC detail`
    verdicts: Vec<String>,
    pcases: Vec<String>,
    pimpl: Vec<String>,
}

fn run_hist(dir: &Path, h: &Hist) -> HistOut {
    let mut out = HistOut { verdicts: Vec::new(), pcases: Vec::new(), pimpl: Vec::new() };
    let _ = std::fs::remove_dir_all(dir);
    std::fs::create_dir_all(dir).unwrap();
    for l in ["l1", "l2", "l3"] {
        std::fs::write(dir.join(format!("{}_pkg.vhd", l)), format!("{}{}", PRELUDE_PKG, ENTITY_F)).unwrap();
    }
    let mut cur: HashMap<String, FileState> = HashMap::new();
    for f in ARCH_FILES {
        cur.insert(f.to_string(), FileState { file: f.to_string(), text: String::new(), procs: Vec::new() });
    }
    for f in &h.init {
        cur.insert(f.file.clone(), f.clone());
    }
    for f in cur.values() {
        std::fs::write(dir.join(&f.file), &f.text).unwrap();
    }
    let res = std::panic::catch_unwind(std::panic::AssertUnwindSafe(|| {
        let mut msgs = NullMessages;
        let mut inc = Project::from_config(hist_config(dir, &h.libs), &mut msgs);
        inc.enable_sensitivity_list_linting();
        let mut results: Vec<(Vec<Diagnostic>, Vec<Diagnostic>, HashMap<String, FileState>)> = Vec::new();
        for step in 0..=h.steps.len() {
            if step > 0 {
                for f in &h.steps[step - 1] {
                    std::fs::write(dir.join(&f.file), &f.text).unwrap();
                    inc.update_source(&vhdl_lang::Source::inline(&dir.join(&f.file), &f.text));
                    cur.insert(f.file.clone(), f.clone());
                }
            }
            let di = inc.analyse();
            let mut fresh = Project::from_config(hist_config(dir, &h.libs), &mut msgs);
            fresh.enable_sensitivity_list_linting();
            let df = fresh.analyse();
            results.push((di, df, cur.clone()));
        }
        results
    }));
    let results = match res {
        Ok(r) => r,
        Err(_) => {
            out.verdicts.push(format!("{}\t0\tPANIC\tpanic in Project::analyse / update_source", h.id));
            return out;
        }
    };
    for (step, (di, df, files)) in results.iter().enumerate() {
        let mut ci: Vec<String> = di.iter().map(canon_diag).collect();
        let mut cf: Vec<String> = df.iter().map(canon_diag).collect();
        ci.sort();
        cf.sort();
        if ci == cf {
            out.verdicts.push(format!("{}\t{}\tSAME\t{} diagnostics", h.id, step, ci.len()));
        } else {
            // multiset differences (a stale entry may duplicate a current diagnostic)
            let msdiff = |a: &Vec<String>, b: &Vec<String>| -> Vec<String> {
                let mut rest = b.clone();
                let mut out = Vec::new();
                for x in a {
                    match rest.iter().position(|y| y == x) {
                        Some(i) => {
                            rest.remove(i);
                        }
                        None => out.push(x.clone()),
                    }
                }
                out
            };
            let only_inc = msdiff(&ci, &cf);
            let only_fresh = msdiff(&cf, &ci);
            out.verdicts.push(format!(
                "{}\t{}\tDIFF\tonly incremental: {:?}; only fresh: {:?}",
                h.id,
                step,
                only_inc.iter().take(3).collect::<Vec<_>>(),
                only_fresh.iter().take(3).collect::<Vec<_>>()
            ));
        }
        // process level: the incremental project's diagnostics against the model (lib3 is third party: nothing)
        let mut placed = Vec::new();
        let mut lines = Vec::new();
        let mut names: Vec<&String> = files.keys().collect();
        names.sort();
        for fname in names {
            let f = &files[fname];
            for (k, (line0, case)) in f.procs.iter().enumerate() {
                let text = case.split('\t').nth(2).unwrap_or("");
                let ls: Vec<&str> = text.split('~').collect();
                placed.push(Placed { fname: f.file.clone(), line0: *line0, nlines: ls.len() as u32, toks: token_table(&ls) });
                // the id gets the history position; third-party processes expect nothing: category `a`-like flag t
                let mut fields: Vec<String> = case.split('\t').map(|x| x.to_string()).collect();
                fields[0] = format!("{}.s{}.{}.{}", h.id, step, f.file, k);
                if lib_of(&f.file) == "l3" {
                    fields[1] = format!("{}t", fields[1]);
                }
                lines.push(fields.join("\t"));
            }
        }
        let (pimpl, errs) = map_diags(di, &placed);
        out.pcases.extend(lines);
        out.pimpl.extend(pimpl);
        if !errs.is_empty() && ci == cf {
            // diagnostics outside every current process although incremental == fresh
            out.verdicts.push(format!("{}\t{}\tDIFF\tdiagnostics outside the current processes: {:?}", h.id, step, &errs[..errs.len().min(3)]));
        }
    }
    out
}

// ---------------------------------------------------------------- hand-made histories
fn corpus_libs(i: usize) -> [String; 3] {
    [HLIB1[i % 3].to_string(), HLIB2[(i + 1) % 3].to_string(), HLIB3[(i + 2) % 3].to_string()]
}
fn corpus_hists() -> Vec<Hist> {
    let mut rng = Rng::new(20);
    let mut v = Vec::new();
    let mut arch = |id: &str, n: &str, e: &str| gen_arch(&mut rng, id, n, e);
    // H1: rename the architecture (entity stays)
    let a = arch("H1.a", "a0", "c20_e");
    let mut b = a.clone();
    b.name = "a1".into();
    v.push(Hist {
        libs: corpus_libs(v.len()),
        id: "corpus.H1.rename".into(),
        init: vec![file_state("l1_f0.vhd", &[a.clone()])],
        steps: vec![vec![file_state("l1_f0.vhd", &[b.clone()])], vec![file_state("l1_f0.vhd", &[a.clone()])]],
    });
    // H2: empty the file of the architecture
    v.push(Hist {
        libs: corpus_libs(v.len()),
        id: "corpus.H2.empty".into(),
        init: vec![file_state("l1_f0.vhd", &[a.clone()])],
        steps: vec![vec![file_state("l1_f0.vhd", &[])], vec![file_state("l1_f1.vhd", &[b.clone()])]],
    });
    // H3: two architectures of one entity, one replaced by another architecture name
    let c = arch("H3.c", "a2", "c20_e");
    let d = arch("H3.d", "a1", "c20_e");
    v.push(Hist {
        libs: corpus_libs(v.len()),
        id: "corpus.H3.replace".into(),
        init: vec![file_state("l1_f0.vhd", &[a.clone(), c.clone()])],
        steps: vec![vec![file_state("l1_f0.vhd", &[a.clone(), d.clone()])], vec![file_state("l1_f0.vhd", &[d.clone()])]],
    });
    // H4: same-named architectures of two entities; the one of c20_f disappears
    let mut af = arch("H4.f", "a0", "c20_f");
    v.push(Hist {
        libs: corpus_libs(v.len()),
        id: "corpus.H4.two_entities".into(),
        init: vec![file_state("l1_f0.vhd", &[a.clone()]), file_state("l1_f1.vhd", &[af.clone()])],
        steps: vec![vec![file_state("l1_f1.vhd", &[])], vec![file_state("l1_f0.vhd", &[])]],
    });
    // H5: same-named units in two libraries; the one in lib2 disappears, then the one in lib1 is renamed
    v.push(Hist {
        libs: corpus_libs(v.len()),
        id: "corpus.H5.two_libraries".into(),
        init: vec![file_state("l1_f0.vhd", &[a.clone()]), file_state("l2_f0.vhd", &[a.clone()])],
        steps: vec![vec![file_state("l2_f0.vhd", &[])], vec![file_state("l1_f0.vhd", &[b.clone()])]],
    });
    // H6: third-party library: never reported, also after edits; architecture moved between files
    af.name = "a1".into();
    v.push(Hist {
        libs: corpus_libs(v.len()),
        id: "corpus.H6.third_party_move".into(),
        init: vec![file_state("l3_f0.vhd", &[a.clone()]), file_state("l1_f0.vhd", &[a.clone(), af.clone()])],
        steps: vec![
            vec![file_state("l3_f0.vhd", &[b.clone()])],
            vec![file_state("l1_f0.vhd", &[a.clone()]), file_state("l1_f1.vhd", &[af.clone()])],
            vec![file_state("l1_f1.vhd", &[])],
        ],
    });
    v
}

/// runs the histories (in parallel), writes <out>.hist (JSON lines), <out>.verdicts, <out>.pcases, <out>.pimpl
fn hist_main(hists: Vec<Hist>, workdir: &Path, outbase: &str) {
    let n = hists.len();
    let nthreads = 8usize.min(n.max(1));
    let results: Vec<std::sync::Mutex<Option<HistOut>>> = (0..n).map(|_| std::sync::Mutex::new(None)).collect();
    let next = std::sync::atomic::AtomicUsize::new(0);
    std::thread::scope(|s| {
        for t in 0..nthreads {
            let (hists, results, next) = (&hists, &results, &next);
            let dir = workdir.join(format!("h{}", t));
            s.spawn(move || loop {
                let i = next.fetch_add(1, std::sync::atomic::Ordering::SeqCst);
                if i >= hists.len() {
                    break;
                }
                *results[i].lock().unwrap() = Some(run_hist(&dir, &hists[i]));
            });
        }
    });
    let mut fh = String::new();
    let (mut fv, mut fc, mut fi) = (String::new(), String::new(), String::new());
    for (h, r) in hists.iter().zip(results.iter()) {
        fh.push_str(&hist_json(h).to_string());
        fh.push('\n');
        if let Some(o) = r.lock().unwrap().take() {
            for l in o.verdicts {
                fv.push_str(&l);
                fv.push('\n');
            }
            for l in o.pcases {
                fc.push_str(&l);
                fc.push('\n');
            }
            for l in o.pimpl {
                fi.push_str(&l);
                fi.push('\n');
            }
        }
    }
    std::fs::write(format!("{}.hist", outbase), fh).unwrap();
    std::fs::write(format!("{}.verdicts", outbase), fv).unwrap();
    std::fs::write(format!("{}.pcases", outbase), fc).unwrap();
    std::fs::write(format!("{}.pimpl", outbase), fi).unwrap();
}
