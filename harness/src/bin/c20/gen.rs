// ---------------------------------------------------------------- declarations the processes live in
const PRELUDE_PKG: &str = "\
package c20_pkg is
  type rec_t is record
    f : bit ;
    g : integer ;
  end record ;
  type arr_t is array ( 0 to 3 ) of integer ;
  type mem_t is array ( 0 to 3 ) of bit_vector ( 3 downto 0 ) ;
  signal gs : bit ;
  constant kc : integer := 2 ;
  function fb ( x : bit ) return bit ;
  function fb2 ( x : bit ; y : bit ) return bit ;
  function fi ( x : integer ; y : integer ) return integer ;
  function fbi ( x : bit ) return integer ;
  function fvb ( x : bit_vector ) return bit ;
  function is_one ( x : bit ) return boolean ;
  function both ( x : bit ; y : bit ) return boolean ;
  procedure pb ( a : in bit ; b : in bit ; c : in bit ; d : in bit ) ;
  procedure psig ( signal a : in bit ; b : in integer ) ;
  procedure po ( signal a : in bit ; signal o : out bit ) ;
  procedure pio ( signal a : inout bit ; b : in bit ) ;
  procedure pvo ( a : in bit ; v : out bit ) ;
  procedure pov ( signal a : in bit ; signal o : out bit_vector ) ;
end package ;
package body c20_pkg is
  function fb ( x : bit ) return bit is begin return x ; end function ;
  function fb2 ( x : bit ; y : bit ) return bit is begin return x and y ; end function ;
  function fi ( x : integer ; y : integer ) return integer is begin return x + y ; end function ;
  function fbi ( x : bit ) return integer is begin if x = '1' then return 1 ; end if ; return 0 ; end function ;
  function fvb ( x : bit_vector ) return bit is begin return x ( x ' low ) ; end function ;
  function is_one ( x : bit ) return boolean is begin return x = '1' ; end function ;
  function both ( x : bit ; y : bit ) return boolean is begin return x = '1' and y = '1' ; end function ;
  procedure pb ( a : in bit ; b : in bit ; c : in bit ; d : in bit ) is begin null ; end procedure ;
  procedure psig ( signal a : in bit ; b : in integer ) is begin null ; end procedure ;
  procedure po ( signal a : in bit ; signal o : out bit ) is begin o <= a ; end procedure ;
  procedure pio ( signal a : inout bit ; b : in bit ) is begin a <= b ; end procedure ;
  procedure pvo ( a : in bit ; v : out bit ) is begin v := a ; end procedure ;
  procedure pov ( signal a : in bit ; signal o : out bit_vector ) is begin o ( o ' low ) <= a ; end procedure ;
end package body ;
use work.c20_pkg.all ;
entity c20_e is
  port ( p0 : in bit ; p1 : in integer range 0 to 3 ; p2 : in bit_vector ( 3 downto 0 ) ; q0 : out bit ; q1 : out bit_vector ( 3 downto 0 ) ; q2 : out integer range 0 to 3 ; io0 : inout bit ; bf0 : buffer bit ; pr0 : in rec_t ; qr0 : out rec_t ; qa0 : out arr_t ; lk0 : linkage bit ) ;
end entity ;
";
const ARCH_DECLS: &str = "\
  signal b0 , b1 , b2 , b3 , b4 , b5 , clk : bit ;
  signal i0 , i1 , i2 , i3 : integer range 0 to 3 ;
  signal v0 , v1 , v2 : bit_vector ( 3 downto 0 ) ;
  signal a0 , a1 : arr_t ;
  signal r0 , r1 : rec_t ;
  signal t0 , t1 : boolean ;
  signal ob0 , ob1 , ob2 : bit ;
  signal oi0 , oi1 : integer range 0 to 3 ;
  signal ov0 : bit_vector ( 3 downto 0 ) ;
  signal oa0 : arr_t ;
  signal or0 : rec_t ;
  signal ot0 : boolean ;
  signal m0 , m1 , om0 : mem_t ;
  alias al0 : bit is b0 ;
  alias al1 : bit is q0 ;
  alias alv : bit_vector ( 1 downto 0 ) is v0 ( 1 downto 0 ) ;
";
const PROC_DECLS: &str = "    variable xb : bit ; variable xi : integer ; variable xv : bit_vector ( 3 downto 0 ) ; variable xt : boolean ;";

#[derive(Clone, Copy, PartialEq, Eq, Debug)]
enum Ty {
    Bit,
    Int,
    Vec,
    Arr,
    Rec,
    Bool,
    Mem,
}
/// (name, type) of signal id i+1
const NSIG: u32 = 44;
const SIGNALS: [(&str, Ty); 44] = [
    ("b0", Ty::Bit), ("b1", Ty::Bit), ("b2", Ty::Bit), ("b3", Ty::Bit), ("b4", Ty::Bit), ("b5", Ty::Bit),
    ("p0", Ty::Bit), ("gs", Ty::Bit),
    ("i0", Ty::Int), ("i1", Ty::Int), ("i2", Ty::Int), ("i3", Ty::Int), ("p1", Ty::Int),
    ("v0", Ty::Vec), ("v1", Ty::Vec), ("v2", Ty::Vec), ("p2", Ty::Vec),
    ("a0", Ty::Arr), ("a1", Ty::Arr),
    ("r0", Ty::Rec), ("r1", Ty::Rec),
    ("t0", Ty::Bool), ("t1", Ty::Bool),
    ("clk", Ty::Bit),
    ("ob0", Ty::Bit), ("ob1", Ty::Bit), ("ob2", Ty::Bit),
    ("oi0", Ty::Int), ("oi1", Ty::Int),
    ("ov0", Ty::Vec), ("oa0", Ty::Arr), ("or0", Ty::Rec), ("ot0", Ty::Bool),
    ("m0", Ty::Mem), ("m1", Ty::Mem), ("om0", Ty::Mem),
    // ports of mode out (read back: VHDL-2008), inout, buffer; record and array ports
    ("q0", Ty::Bit), ("q1", Ty::Vec), ("q2", Ty::Int), ("io0", Ty::Bit), ("bf0", Ty::Bit),
    ("pr0", Ty::Rec), ("qr0", Ty::Rec), ("qa0", Ty::Arr),
];
/// aliases are entities of their own (ObjectAlias), not signals for the lint: (name, id)
const ALIASES: [(&str, u32); 2] = [("al0", 230), ("al1", 231)];
/// signals visible in the statement part of the entity: its ports and the package signal
const ENTITY_POOL: [u32; 12] = [7, 8, 13, 17, 37, 38, 39, 40, 41, 42, 43, 44];
const GS: u32 = 8;
const CLK: u32 = 24;
/// signals 1..36; subprograms with their formals (`o id n formals.. returns_boolean`), parameter objects (`p id mode is_signal`)
const ROOT: &str = "1 44 t 7 i t 13 i t 17 i t 37 o t 38 o t 39 o t 40 b t 41 u t 42 i t 43 o t 44 o o 100 1 400 1 o 101 1 401 1 o 102 1 402 1 o 205 2 403 404 1 \
o 206 4 410 411 412 413 0 o 207 2 414 415 0 o 208 2 416 417 0 o 209 2 418 419 0 o 228 2 420 421 0 o 229 2 422 423 0 \
p 400 i 1 p 401 i 1 p 402 i 0 p 403 i 0 p 404 i 0 p 410 i 0 p 411 i 0 p 412 i 0 p 413 i 0 p 414 i 1 p 415 i 0 \
p 416 i 1 p 417 o 1 p 418 i 0 p 419 o 0 p 420 b 1 p 421 i 0 p 422 i 1 p 423 o 1";
const ID_POV: u32 = 229;
const ID_RISING: u32 = 100;
const ID_FALLING: u32 = 101;
const ID_IS_ONE: u32 = 102;
// everything else: ids >= 200
const ID_FB: u32 = 200;
const ID_FB2: u32 = 201;
const ID_FI: u32 = 202;
const ID_FBI: u32 = 203;
const ID_FVB: u32 = 204;
const ID_BOTH: u32 = 205;
const ID_PB: u32 = 206;
const ID_PS: u32 = 207;
const ID_PO: u32 = 208;
const ID_PVO: u32 = 209;
const ID_BIT: u32 = 210;
const ID_INTEGER: u32 = 211;
const ID_BITVEC: u32 = 212;
const ID_F: u32 = 215;
const ID_G: u32 = 216;
const ID_WORK: u32 = 217;
const ID_PKG: u32 = 218;
const ID_KC: u32 = 219;
const ID_XB: u32 = 220;
const ID_XI: u32 = 221;
const ID_XV: u32 = 222;
const ID_XT: u32 = 223;
const ID_LOOPVAR: u32 = 224; // +depth
const ID_PIO: u32 = 228;

fn sig_name(id: u32) -> &'static str {
    SIGNALS[(id - 1) as usize].0
}
fn sig_ty(id: u32) -> Ty {
    SIGNALS[(id - 1) as usize].1
}
fn sig_id(name: &str) -> Option<u32> {
    SIGNALS.iter().position(|(n, _)| *n == name).map(|i| i as u32 + 1)
}

// ---------------------------------------------------------------- emitter: text + token table
#[derive(Default)]
struct Em {
    lines: Vec<String>,
    ntok: u32,
}
impl Em {
    fn new() -> Em {
        Em { lines: vec![String::new()], ntok: 0 }
    }
    fn nl(&mut self, indent: usize) {
        self.lines.push(" ".repeat(indent));
    }
    fn tok(&mut self, s: &str) -> u32 {
        let cur = self.lines.last_mut().unwrap();
        if !cur.is_empty() && !cur.ends_with(' ') {
            cur.push(' ');
        }
        cur.push_str(s);
        self.ntok += 1;
        self.ntok - 1
    }
    fn toks(&mut self, s: &str) {
        for t in s.split_whitespace() {
            self.tok(t);
        }
    }
}
/// token table of a process text: (relative line, first column, end column) per token
fn token_table(lines: &[&str]) -> Vec<(u32, u32, u32)> {
    let mut v = Vec::new();
    for (ln, l) in lines.iter().enumerate() {
        let b = l.as_bytes();
        let mut i = 0;
        while i < b.len() {
            if b[i] == b' ' {
                i += 1;
                continue;
            }
            let st = i;
            while i < b.len() && b[i] != b' ' {
                i += 1;
            }
            v.push((ln as u32, st as u32, i as u32));
        }
    }
    v
}

// ---------------------------------------------------------------- generator
#[derive(Clone, Copy, PartialEq, Eq)]
enum CondCtx {
    /// a condition `is_likely_clocked` inspects in a process meant to be combinational
    Inspected,
    /// any other condition
    Free,
}
struct Snap {
    rng: Rng,
    nlines: usize,
    linelen: usize,
    ntok: u32,
    nreads: usize,
    nouts: usize,
    soft: HashSet<u32>,
    flags: (bool, bool, bool),
}
/// some designator of the expression denotes a signal
fn has_signal(e: &E) -> bool {
    let is_sig = |d: &Option<u32>| matches!(d, Some(i) if *i >= 1 && *i <= NSIG);
    match e {
        E::Lit(_) => false,
        E::Desig(_, d) => is_sig(d),
        E::Selected(_, p, d) => has_signal(p) || is_sig(d),
        E::Slice(_, p, b) => has_signal(p) || b.iter().any(has_signal),
        E::Attr(_, p, _, a) => has_signal(p) || a.as_deref().map_or(false, has_signal),
        E::Call(_, p, a) => has_signal(p) || a.iter().any(has_signal),
        E::Unary(_, x) | E::Qualified(_, x) | E::Paren(_, x) => has_signal(x),
        E::Binary(_, l, r) => has_signal(l) || has_signal(r),
        E::Aggregate(_, es) => es.iter().any(has_signal),
    }
}
fn typed(e: &E) -> bool {
    match e {
        E::Lit(_) | E::Aggregate(..) => false,
        E::Paren(_, x) | E::Unary(_, x) => typed(x),
        E::Binary(_, l, r) => typed(l) || typed(r),
        _ => true,
    }
}
struct G {
    rng: Rng,
    em: Em,
    /// working set of signals the body may read
    ws: Vec<u32>,
    /// the generator's own log of reads: (signal, span) in textual order — the ORACLE
    reads: Vec<(u32, Sp)>,
    /// signals mentioned only as the prefix of a record element selection
    soft: HashSet<u32>,
    /// signals passed to out-mode formals: (signal, span, number of reads logged before)
    outs: Vec<(u32, Sp, usize)>,
    outside: bool,
    outact: bool,
    heur: bool,
    allow_outside: bool,
    allow_outact: bool,
    allow_heur: bool,
    /// a passive process for the statement part of an entity: only ports and the package signal are visible,
    /// no signal assignment
    passive: bool,
    loopd: u32,
    /// declared loop parameters (for loops only)
    lvars: Vec<u32>,
    label: String,
    max_depth: u32,
}
impl G {
    fn pick_sig(&mut self, ty: Ty) -> Option<u32> {
        let c: Vec<u32> = self.ws.iter().cloned().filter(|s| sig_ty(*s) == ty).collect();
        if c.is_empty() {
            None
        } else {
            Some(c[self.rng.below(c.len())])
        }
    }
    fn lit(&mut self, s: &str) -> E {
        let t = self.em.tok(s);
        E::Lit((t, t))
    }
    fn name(&mut self, s: &str, id: u32) -> E {
        let t = self.em.tok(s);
        E::Desig((t, t), Some(id))
    }
    /// a signal name whose value is read
    fn read(&mut self, id: u32) -> E {
        let t = self.em.tok(sig_name(id));
        self.reads.push((id, (t, t)));
        E::Desig((t, t), Some(id))
    }
    /// a signal in a position the walker never visits: a real read, outside the family
    fn hidden_read(&mut self, ty: Ty) -> Option<E> {
        let s = self.pick_sig(ty)?;
        self.outside = true;
        let t = self.em.tok(sig_name(s));
        self.reads.push((s, (t, t)));
        Some(E::Desig((t, t), Some(s)))
    }
    fn snap(&self) -> Snap {
        Snap {
            rng: self.rng.clone(),
            nlines: self.em.lines.len(),
            linelen: self.em.lines.last().unwrap().len(),
            ntok: self.em.ntok,
            nreads: self.reads.len(),
            nouts: self.outs.len(),
            soft: self.soft.clone(),
            flags: (self.outside, self.outact, self.heur),
        }
    }
    fn restore(&mut self, s: Snap) {
        self.rng = s.rng;
        self.em.lines.truncate(s.nlines);
        self.em.lines.last_mut().unwrap().truncate(s.linelen);
        self.em.ntok = s.ntok;
        self.reads.truncate(s.nreads);
        self.outs.truncate(s.nouts);
        self.soft = s.soft;
        self.outside = s.flags.0;
        self.outact = s.flags.1;
        self.heur = s.flags.2;
    }
    /// an operand whose type is determined by itself (not only literals): needed where overload resolution
    /// would otherwise be ambiguous (`'0' = '1'`); falls back to a qualified expression
    fn typed_operand(&mut self, d: u32, tyname: &str, f: &dyn Fn(&mut G, u32) -> E) -> E {
        let s = self.snap();
        let e = self.paren_if(d, f);
        if typed(&e) {
            return e;
        }
        self.restore(s);
        let a = self.em.tok(tyname);
        self.em.tok("'");
        self.em.tok("(");
        let e = f(self, d);
        let b = self.em.tok(")");
        E::Qualified((a, b), Box::new(e))
    }
    fn paren_if(&mut self, d: u32, f: &dyn Fn(&mut G, u32) -> E) -> E {
        // operand of an operator: generated inside parentheses unless it turns out primary; decided up front
        if self.rng.chance(1, 2) || d == 0 {
            let save = self.snap();
            let e = f(self, d);
            if e.primary() {
                return e;
            }
            // undo and generate the same expression again inside parentheses
            self.restore(save);
        }
        let a = self.em.tok("(");
        let e = f(self, d);
        let b = self.em.tok(")");
        E::Paren((a, b), Box::new(e))
    }
    fn call(&mut self, fname: &str, fid: u32, formals: &[&str], args: Vec<Box<dyn Fn(&mut G) -> E>>) -> E {
        let f = self.name(fname, fid);
        self.em.tok("(");
        let named = self.rng.chance(1, 4);
        let mut order: Vec<usize> = (0..args.len()).collect();
        if named && self.rng.chance(1, 2) {
            order.reverse();
        }
        let mut out = Vec::new();
        for (k, i) in order.iter().enumerate() {
            if k > 0 {
                self.em.tok(",");
            }
            if named {
                self.em.tok(formals[*i]);
                self.em.tok("=>");
            }
            out.push(args[*i](self));
        }
        let b = self.em.tok(")");
        E::Call((f.sp().0, b), Box::new(f), out)
    }
    fn int_index(&mut self, d: u32) -> E {
        if d == 0 || self.rng.chance(1, 2) {
            let v = self.rng.below(4).to_string();
            self.lit(&v)
        } else {
            self.gen_int(d - 1)
        }
    }
    fn gen_bit(&mut self, d: u32) -> E {
        let k = if d == 0 { self.rng.below(3) } else { self.rng.below(18) };
        match k {
            0 => {
                let v = *self.rng.pick(&["'0'", "'1'"]);
                self.lit(v)
            }
            1 | 12 | 13 => match self.pick_sig(Ty::Bit) {
                Some(s) => self.read(s),
                None => self.lit("'1'"),
            },
            2 => {
                if self.allow_heur && self.rng.chance(1, 2) {
                    // read through an alias: the alias is not a signal for the lint (oracle not applicable)
                    self.heur = true;
                    let (n, id) = *self.rng.pick(&ALIASES);
                    self.name(n, id)
                } else {
                    self.name("xb", ID_XB)
                }
            }
            3 => match self.pick_sig(Ty::Vec) {
                Some(s) => {
                    let p = self.read(s);
                    self.em.tok("(");
                    let i = self.int_index(d);
                    let b = self.em.tok(")");
                    E::Call((p.sp().0, b), Box::new(p), vec![i])
                }
                None => self.lit("'0'"),
            },
            4 => {
                if self.rng.chance(1, 2) {
                    self.call("fb", ID_FB, &["x"], vec![Box::new(move |g: &mut G| g.gen_bit(d - 1))])
                } else {
                    self.call(
                        "fb2",
                        ID_FB2,
                        &["x", "y"],
                        vec![Box::new(move |g: &mut G| g.gen_bit(d - 1)), Box::new(move |g: &mut G| g.gen_bit(d - 1))],
                    )
                }
            }
            5 => {
                let a = self.em.tok("not");
                let e = self.paren_if(d - 1, &|g, d| g.gen_bit(d));
                E::Unary((a, e.sp().1), Box::new(e))
            }
            6 | 14 => {
                let l = self.paren_if(d - 1, &|g, d| g.gen_bit(d));
                let op = *self.rng.pick(&["and", "or", "xor", "nand", "nor"]);
                self.em.tok(op);
                let r = self.paren_if(d - 1, &|g, d| g.gen_bit(d));
                E::Binary((l.sp().0, r.sp().1), Box::new(l), Box::new(r))
            }
            7 => {
                let a = self.em.tok("(");
                let e = self.gen_bit(d - 1);
                let b = self.em.tok(")");
                E::Paren((a, b), Box::new(e))
            }
            8 => {
                let a = self.em.tok("bit");
                self.em.tok("'");
                self.em.tok("(");
                let e = self.gen_bit(d - 1);
                let b = self.em.tok(")");
                E::Qualified((a, b), Box::new(e))
            }
            9 => match self.pick_sig(Ty::Rec) {
                Some(s) => {
                    let t = self.em.tok(sig_name(s));
                    self.soft.insert(s);
                    self.em.tok(".");
                    let b = self.em.tok("f");
                    E::Selected((t, b), Box::new(E::Desig((t, t), Some(s))), Some(ID_F))
                }
                None => self.lit("'0'"),
            },
            10 => self.call("fvb", ID_FVB, &["x"], vec![Box::new(move |g: &mut G| g.gen_vec(d - 1, false))]),
            11 => {
                if self.ws.contains(&GS) {
                    let a = self.em.tok("work");
                    self.em.tok(".");
                    let p = self.em.tok("c20_pkg");
                    self.em.tok(".");
                    let b = self.em.tok("gs");
                    self.reads.push((GS, (a, b)));
                    let pre = E::Selected((a, p), Box::new(E::Desig((a, a), Some(ID_WORK))), Some(ID_PKG));
                    E::Selected((a, b), Box::new(pre), Some(GS))
                } else {
                    self.lit("'1'")
                }
            }
            16 => match self.pick_sig(Ty::Mem) {
                // element of an element of an array of arrays: m ( i ) ( j )
                Some(s) => {
                    let p = self.read(s);
                    self.em.tok("(");
                    let i = self.int_index(d);
                    let b = self.em.tok(")");
                    let inner = E::Call((p.sp().0, b), Box::new(p), vec![i]);
                    self.em.tok("(");
                    let j = self.int_index(d);
                    let b2 = self.em.tok(")");
                    E::Call((inner.sp().0, b2), Box::new(inner), vec![j])
                }
                None => self.lit("'0'"),
            },
            17 => match self.pick_sig(Ty::Vec) {
                // element of a slice: v ( 3 downto 0 ) ( j )
                Some(s) => {
                    let p = self.read(s);
                    self.em.tok("(");
                    let hi = self.lit("3");
                    self.em.tok("downto");
                    let lo = self.lit("0");
                    let b = self.em.tok(")");
                    let inner = E::Slice((p.sp().0, b), Box::new(p), vec![hi, lo]);
                    self.em.tok("(");
                    let j = self.int_index(d);
                    let b2 = self.em.tok(")");
                    E::Call((inner.sp().0, b2), Box::new(inner), vec![j])
                }
                None => self.lit("'1'"),
            },
            _ => match self.pick_sig(Ty::Bit) {
                Some(s) => self.read(s),
                None => self.name("xb", ID_XB),
            },
        }
    }
    fn gen_int(&mut self, d: u32) -> E {
        let k = if d == 0 { self.rng.below(4) } else { self.rng.below(14) };
        match k {
            0 => {
                let v = self.rng.below(4).to_string();
                self.lit(&v)
            }
            1 | 11 | 12 => match self.pick_sig(Ty::Int) {
                Some(s) => self.read(s),
                None => self.lit("1"),
            },
            2 => self.name("xi", ID_XI),
            3 => {
                if !self.lvars.is_empty() {
                    let k = self.lvars[self.rng.below(self.lvars.len())];
                    let n = ["i", "j", "k", "l", "m"][k as usize];
                    self.name(n, ID_LOOPVAR + k)
                } else {
                    self.name("kc", ID_KC)
                }
            }
            4 => match self.pick_sig(Ty::Arr) {
                Some(s) => {
                    let p = self.read(s);
                    self.em.tok("(");
                    let i = self.int_index(d);
                    let b = self.em.tok(")");
                    E::Call((p.sp().0, b), Box::new(p), vec![i])
                }
                None => self.lit("2"),
            },
            5 => self.call(
                "fi",
                ID_FI,
                &["x", "y"],
                vec![Box::new(move |g: &mut G| g.gen_int(d - 1)), Box::new(move |g: &mut G| g.gen_int(d - 1))],
            ),
            6 => self.call("fbi", ID_FBI, &["x"], vec![Box::new(move |g: &mut G| g.gen_bit(d - 1))]),
            7 | 13 => {
                let l = self.paren_if(d - 1, &|g, d| g.gen_int(d));
                let op = *self.rng.pick(&["+", "-", "*"]);
                self.em.tok(op);
                let r = self.paren_if(d - 1, &|g, d| g.gen_int(d));
                E::Binary((l.sp().0, r.sp().1), Box::new(l), Box::new(r))
            }
            8 => {
                let a = self.em.tok("(");
                let minus = self.rng.chance(1, 2);
                let e = if minus {
                    let m = self.em.tok("-");
                    let x = self.paren_if(d - 1, &|g, d| g.gen_int(d));
                    E::Unary((m, x.sp().1), Box::new(x))
                } else {
                    self.gen_int(d - 1)
                };
                let b = self.em.tok(")");
                E::Paren((a, b), Box::new(e))
            }
            9 => {
                let a = self.em.tok("integer");
                self.em.tok("'");
                self.em.tok("(");
                let e = self.gen_int(d - 1);
                let b = self.em.tok(")");
                E::Qualified((a, b), Box::new(e))
            }
            _ => match self.pick_sig(Ty::Rec) {
                Some(s) => {
                    let t = self.em.tok(sig_name(s));
                    self.soft.insert(s);
                    self.em.tok(".");
                    let b = self.em.tok("g");
                    E::Selected((t, b), Box::new(E::Desig((t, t), Some(s))), Some(ID_G))
                }
                None => self.lit("3"),
            },
        }
    }
    /// rhs: directly the right-hand side of an assignment to a constrained vector (aggregates allowed bare)
    fn gen_vec(&mut self, d: u32, rhs: bool) -> E {
        let k = if d == 0 { self.rng.below(3) } else { self.rng.below(13) };
        match k {
            0 => {
                let v = *self.rng.pick(&["\"0101\"", "\"1100\"", "x\"A\""]);
                self.lit(v)
            }
            1 | 9 => match self.pick_sig(Ty::Vec) {
                Some(s) => self.read(s),
                None => self.lit("\"0000\""),
            },
            2 => self.name("xv", ID_XV),
            3 => match self.pick_sig(Ty::Vec) {
                // slice: static bounds, or (outside the family) a signal in a bound
                Some(s) => {
                    let p = self.read(s);
                    self.em.tok("(");
                    let mut bounds = Vec::new();
                    let hidden = self.allow_outside && self.rng.chance(1, 6);
                    let hi = if hidden { self.hidden_read(Ty::Int) } else { None };
                    match hi {
                        Some(e) => bounds.push(e),
                        None => bounds.push(self.lit("3")),
                    }
                    self.em.tok("downto");
                    bounds.push(self.lit("0"));
                    let b = self.em.tok(")");
                    E::Slice((p.sp().0, b), Box::new(p), bounds)
                }
                None => self.lit("\"1111\""),
            },
            4 | 5 => {
                // aggregate
                let q = if rhs {
                    None
                } else {
                    let a = self.em.tok("bit_vector");
                    self.em.tok("'");
                    Some(a)
                };
                let a = self.em.tok("(");
                let mut es = Vec::new();
                let form = self.rng.below(if rhs { 3 } else { 2 });
                match form {
                    0 => {
                        for i in 0..4 {
                            if i > 0 {
                                self.em.tok(",");
                            }
                            es.push(self.gen_bit(d - 1));
                        }
                    }
                    1 => {
                        for i in 0..4 {
                            if i > 0 {
                                self.em.tok(",");
                            }
                            self.em.tok(&i.to_string());
                            self.em.tok("=>");
                            es.push(self.gen_bit(d - 1));
                        }
                    }
                    _ => {
                        self.em.tok("0");
                        self.em.tok("=>");
                        es.push(self.gen_bit(d - 1));
                        self.em.tok(",");
                        self.em.toks("1 | 2 =>");
                        es.push(self.gen_bit(d - 1));
                        self.em.tok(",");
                        self.em.toks("others =>");
                        es.push(self.gen_bit(d - 1));
                    }
                }
                let b = self.em.tok(")");
                let agg = E::Aggregate((a, b), es);
                match q {
                    Some(qa) => E::Qualified((qa, b), Box::new(agg)),
                    None => agg,
                }
            }
            6 | 10 => {
                let l = self.paren_if(d - 1, &|g, d| g.gen_vec(d, false));
                let op = *self.rng.pick(&["and", "or", "xor"]);
                self.em.tok(op);
                let r = self.paren_if(d - 1, &|g, d| g.gen_vec(d, false));
                E::Binary((l.sp().0, r.sp().1), Box::new(l), Box::new(r))
            }
            7 => {
                let a = self.em.tok("not");
                let e = self.paren_if(d - 1, &|g, d| g.gen_vec(d, false));
                E::Unary((a, e.sp().1), Box::new(e))
            }
            11 | 12 => match self.pick_sig(Ty::Mem) {
                // m ( i )   or   m ( i ) ( 3 downto 0 )
                Some(s) => {
                    let p = self.read(s);
                    self.em.tok("(");
                    let i = self.int_index(d);
                    let b = self.em.tok(")");
                    let inner = E::Call((p.sp().0, b), Box::new(p), vec![i]);
                    if k == 11 {
                        inner
                    } else {
                        self.em.tok("(");
                        let hi = self.lit("3");
                        self.em.tok("downto");
                        let lo = self.lit("0");
                        let b2 = self.em.tok(")");
                        E::Slice((inner.sp().0, b2), Box::new(inner), vec![hi, lo])
                    }
                }
                None => self.lit("\"0110\""),
            },
            _ => {
                let a = self.em.tok("(");
                let e = self.gen_vec(d - 1, false);
                let b = self.em.tok(")");
                E::Paren((a, b), Box::new(e))
            }
        }
    }
    fn gen_bool(&mut self, d: u32, cx: CondCtx) -> E {
        let k = if d == 0 { self.rng.below(4) } else { self.rng.below(14) };
        match k {
            0 | 1 | 10 => {
                let l = self.typed_operand(d.saturating_sub(1), "bit", &|g, d| g.gen_bit(d));
                let op = *self.rng.pick(&["=", "/="]);
                self.em.tok(op);
                let r = self.paren_if(d.saturating_sub(1), &|g, d| g.gen_bit(d));
                E::Binary((l.sp().0, r.sp().1), Box::new(l), Box::new(r))
            }
            2 | 11 => {
                let l = self.typed_operand(d.saturating_sub(1), "integer", &|g, d| g.gen_int(d));
                let op = *self.rng.pick(&["=", "/=", "<", "<=", ">", ">="]);
                self.em.tok(op);
                let r = self.paren_if(d.saturating_sub(1), &|g, d| g.gen_int(d));
                E::Binary((l.sp().0, r.sp().1), Box::new(l), Box::new(r))
            }
            3 => match self.pick_sig(Ty::Bool) {
                Some(s) => self.read(s),
                None => self.name("xt", ID_XT),
            },
            4 => {
                let l = self.typed_operand(d - 1, "bit_vector", &|g, d| g.gen_vec(d, false));
                self.em.tok("=");
                let r = self.paren_if(d - 1, &|g, d| g.gen_vec(d, false));
                E::Binary((l.sp().0, r.sp().1), Box::new(l), Box::new(r))
            }
            5 => {
                let a = self.em.tok("not");
                let e = self.bool_operand(d - 1, cx);
                E::Unary((a, e.sp().1), Box::new(e))
            }
            6 | 12 => {
                let l = self.bool_operand(d - 1, cx);
                let op = *self.rng.pick(&["and", "or", "xor"]);
                self.em.tok(op);
                let r = self.bool_operand(d - 1, cx);
                E::Binary((l.sp().0, r.sp().1), Box::new(l), Box::new(r))
            }
            7 => self.call(
                "both",
                ID_BOTH,
                &["x", "y"],
                vec![Box::new(move |g: &mut G| g.gen_bit(d - 1)), Box::new(move |g: &mut G| g.gen_bit(d - 1))],
            ),
            8 => {
                // a one-argument function returning boolean: makes an inspected condition "clocked"
                if cx == CondCtx::Inspected {
                    if self.allow_heur && self.rng.chance(1, 3) {
                        self.heur = true;
                    } else {
                        return self.name("xt", ID_XT);
                    }
                }
                let (n, id) = *self.rng.pick(&[("is_one", ID_IS_ONE), ("is_one", ID_IS_ONE), ("rising_edge", ID_RISING)]);
                if id == ID_RISING {
                    // signal-class formal: the actual must be a static signal name
                    match self.pick_sig(Ty::Bit) {
                        Some(s) => {
                            let f = self.name(n, id);
                            self.em.tok("(");
                            let a = self.read(s);
                            let b = self.em.tok(")");
                            E::Call((f.sp().0, b), Box::new(f), vec![a])
                        }
                        None => self.name("xt", ID_XT),
                    }
                } else {
                    self.call(n, id, &["x"], vec![Box::new(move |g: &mut G| g.gen_bit(d - 1))])
                }
            }
            9 => {
                let a = self.em.tok("(");
                let e = self.gen_bool(d - 1, cx);
                let b = self.em.tok(")");
                E::Paren((a, b), Box::new(e))
            }
            _ => self.name("xt", ID_XT),
        }
    }
    fn bool_operand(&mut self, d: u32, cx: CondCtx) -> E {
        let a = self.em.tok("(");
        let e = self.gen_bool(d, cx);
        let b = self.em.tok(")");
        E::Paren((a, b), Box::new(e))
    }
    /// the clock-edge test itself: rising_edge ( clk ) | falling_edge ( clk ) | clk ' event   (all primaries)
    fn edge_atom(&mut self) -> E {
        if self.rng.chance(1, 2) {
            let (n, id) = *self.rng.pick(&[("rising_edge", ID_RISING), ("falling_edge", ID_FALLING)]);
            let f = self.name(n, id);
            self.em.tok("(");
            let a = self.read(CLK);
            let b = self.em.tok(")");
            E::Call((f.sp().0, b), Box::new(f), vec![a])
        } else {
            let p = self.name("clk", CLK);
            self.em.tok("'");
            let ev = self.em.tok("event");
            E::Attr((p.sp().0, ev), Box::new(p), 1, None)
        }
    }
    /// operand of an operator that contains the edge test: a primary, or parenthesised
    fn edge_operand(&mut self, d: u32) -> E {
        if d == 0 && self.rng.chance(2, 3) {
            return self.edge_atom();
        }
        let a = self.em.tok("(");
        let e = self.edge_cond(d);
        let b = self.em.tok(")");
        E::Paren((a, b), Box::new(e))
    }
    /// the other operand: `clk = '1'` (a bare relation) or a parenthesised condition without any edge test
    fn edge_plain(&mut self) -> E {
        if self.rng.chance(1, 2) {
            let c = self.read(CLK);
            self.em.tok("=");
            let v = *self.rng.pick(&["'0'", "'1'"]);
            let l = self.lit(v);
            E::Binary((c.sp().0, l.sp().1), Box::new(c), Box::new(l))
        } else {
            self.bool_operand(1, CondCtx::Inspected)
        }
    }
    /// a condition `is_likely_clocked` accepts: the edge test in every operand position the classifier descends
    /// into (left or right operand of a binary operator, under `not`, inside parentheses, nested)
    fn edge_cond(&mut self, d: u32) -> E {
        let k = if d == 0 { self.rng.below(4) } else { 1 + self.rng.below(7) };
        match k {
            0 => self.edge_atom(),
            1 | 2 | 7 => {
                // edge test on the RIGHT
                let l = self.edge_plain();
                let op = *self.rng.pick(&["and", "and", "or", "xor"]);
                self.em.tok(op);
                let r = self.edge_operand(d.saturating_sub(1));
                E::Binary((l.sp().0, r.sp().1), Box::new(l), Box::new(r))
            }
            3 => {
                // edge test on the LEFT
                let l = self.edge_operand(d.saturating_sub(1));
                let op = *self.rng.pick(&["and", "and", "or"]);
                self.em.tok(op);
                let r = self.edge_plain();
                E::Binary((l.sp().0, r.sp().1), Box::new(l), Box::new(r))
            }
            4 => {
                let a = self.em.tok("not");
                let e = self.edge_operand(d - 1);
                E::Unary((a, e.sp().1), Box::new(e))
            }
            5 => {
                let a = self.em.tok("(");
                let e = self.edge_cond(d - 1);
                let b = self.em.tok(")");
                E::Paren((a, b), Box::new(e))
            }
            _ => {
                // both operands hold an edge test
                let l = self.edge_operand(d - 1);
                self.em.tok("or");
                let r = self.edge_operand(d - 1);
                E::Binary((l.sp().0, r.sp().1), Box::new(l), Box::new(r))
            }
        }
    }
    fn gen_str(&mut self, d: u32) -> E {
        match self.rng.below(4) {
            0 => self.lit("\"msg\""),
            1 => {
                let a = self.name("bit", ID_BIT);
                self.em.tok("'");
                self.em.tok("image");
                self.em.tok("(");
                let e = self.gen_bit(d);
                let b = self.em.tok(")");
                E::Attr((a.sp().0, b), Box::new(a), 0, Some(Box::new(e)))
            }
            2 => {
                let a = self.name("integer", ID_INTEGER);
                self.em.tok("'");
                self.em.tok("image");
                self.em.tok("(");
                let e = self.gen_int(d);
                let b = self.em.tok(")");
                E::Attr((a.sp().0, b), Box::new(a), 0, Some(Box::new(e)))
            }
            _ => {
                let l = self.lit("\"m\"");
                self.em.tok("&");
                let a = self.name("integer", ID_INTEGER);
                self.em.tok("'");
                self.em.tok("image");
                self.em.tok("(");
                let e = self.gen_int(d);
                let b = self.em.tok(")");
                let r = E::Attr((a.sp().0, b), Box::new(a), 0, Some(Box::new(e)));
                E::Binary((l.sp().0, b), Box::new(l), Box::new(r))
            }
        }
    }
    /// a string expression without any signal (report / severity positions of the family)
    fn plain_str(&mut self) -> E {
        self.lit("\"note\"")
    }

    // ------------------------------------------------------------ statements
    /// assignment target of the given type; returns (target expr, type); never a read
    fn target(&mut self, ty: Ty, variable: bool) -> E {
        if variable {
            let (n, id) = match ty {
                Ty::Bit => ("xb", ID_XB),
                Ty::Int => ("xi", ID_XI),
                Ty::Vec => ("xv", ID_XV),
                _ => ("xt", ID_XT),
            };
            return self.name(n, id);
        }
        match ty {
            Ty::Bit => match self.rng.below(6) {
                0 => {
                    // element of the vector output; index static, or (outside the family) a signal
                    let p = self.name("ov0", sig_id("ov0").unwrap());
                    self.em.tok("(");
                    let hidden = self.allow_outside && self.rng.chance(1, 4);
                    let hi = if hidden { self.hidden_read(Ty::Int) } else { None };
                    let i = match hi {
                        Some(e) => e,
                        None => {
                            let v = self.rng.below(4).to_string();
                            self.lit(&v)
                        }
                    };
                    let b = self.em.tok(")");
                    E::Call((p.sp().0, b), Box::new(p), vec![i])
                }
                1 => {
                    let t = self.em.tok("or0");
                    self.em.tok(".");
                    let b = self.em.tok("f");
                    E::Selected((t, b), Box::new(E::Desig((t, t), Some(sig_id("or0").unwrap()))), Some(ID_F))
                }
                _ => {
                    let n = *self.rng.pick(&["ob0", "ob1", "ob2"]);
                    self.name(n, sig_id(n).unwrap())
                }
            },
            Ty::Int => match self.rng.below(4) {
                0 => {
                    let p = self.name("oa0", sig_id("oa0").unwrap());
                    self.em.tok("(");
                    let v = self.rng.below(4).to_string();
                    let i = self.lit(&v);
                    let b = self.em.tok(")");
                    E::Call((p.sp().0, b), Box::new(p), vec![i])
                }
                _ => {
                    let n = *self.rng.pick(&["oi0", "oi1"]);
                    self.name(n, sig_id(n).unwrap())
                }
            },
            Ty::Vec => {
                if self.rng.chance(1, 4) {
                    let p = self.name("ov0", sig_id("ov0").unwrap());
                    self.em.tok("(");
                    let a = self.lit("3");
                    self.em.tok("downto");
                    let c = self.lit("0");
                    let b = self.em.tok(")");
                    E::Slice((p.sp().0, b), Box::new(p), vec![a, c])
                } else {
                    self.name("ov0", sig_id("ov0").unwrap())
                }
            }
            _ => self.name("ot0", sig_id("ot0").unwrap()),
        }
    }
    fn value(&mut self, ty: Ty, d: u32) -> E {
        match ty {
            Ty::Bit => self.gen_bit(d),
            Ty::Int => self.gen_int(d),
            Ty::Vec => self.gen_vec(d, true),
            _ => self.gen_bool(d, CondCtx::Free),
        }
    }
    fn wave(&mut self, ty: Ty, d: u32) -> Wave {
        let mut els = Vec::new();
        let v = self.value(ty, d);
        let mut after = None;
        if self.rng.chance(1, 8) {
            self.em.tok("after");
            after = Some(self.lit("1"));
            self.em.tok("ns");
        }
        els.push((v, after));
        if ty == Ty::Bit && self.rng.chance(1, 10) {
            self.em.tok(",");
            let v2 = self.gen_bit(d.min(1));
            self.em.tok("after");
            let a2 = self.lit("5");
            self.em.tok("ns");
            els.push((v2, Some(a2)));
        }
        Some(els)
    }
    fn choices(&mut self, k: usize, n: usize, bit: bool) {
        // choices of alternative k of n (the last one is `others`)
        if k + 1 == n {
            self.em.tok("others");
        } else if bit {
            self.em.tok(if k == 0 { "'0'" } else { "'1'" });
        } else {
            self.em.tok(&k.to_string());
        }
    }
    fn gen_assign(&mut self, d: u32, ind: usize) -> S {
        let ty = *self.rng.pick(&[Ty::Bit, Ty::Bit, Ty::Bit, Ty::Int, Ty::Int, Ty::Vec, Ty::Bool]);
        let kind = if self.passive { 6 } else { self.rng.below(10) }; // 0..5 signal, 6..8 variable, 9 force/release
        let form = self.rng.below(8); // 0..5 simple, 6 conditional, 7 selected
        let variable = (6..9).contains(&kind);
        let force = kind == 9 && ty == Ty::Bit;
        let arrow = if variable { ":=" } else { "<=" };
        if force && self.rng.chance(1, 4) {
            let t = self.target(ty, false);
            self.em.toks("<= release ;");
            return S::Release(t);
        }
        if form == 7 {
            // with sel select target <= v when c, ... ;
            self.em.tok("with");
            let bit_sel = self.rng.chance(1, 3);
            let sel = if bit_sel {
                self.typed_operand(d, "bit", &|g, d| g.gen_bit(d))
            } else {
                self.typed_operand(d, "integer", &|g, d| g.gen_int(d))
            };
            self.em.tok("select");
            let t = self.target(ty, variable);
            self.em.tok(arrow);
            if force {
                self.em.tok("force");
            }
            let n = if bit_sel { 2 } else { 2 + self.rng.below(2) };
            let mut walts = Vec::new();
            let mut ealts = Vec::new();
            for k in 0..n {
                if k > 0 {
                    self.em.tok(",");
                    self.em.nl(ind + 4);
                }
                if variable || force {
                    ealts.push(self.value(ty, d));
                } else {
                    walts.push(self.wave(ty, d));
                }
                self.em.tok("when");
                self.choices(k, n, bit_sel);
            }
            self.em.tok(";");
            return if variable {
                S::VarAssign(t, Rhs::Selected(sel, ealts))
            } else if force {
                S::Force(t, Rhs::Selected(sel, ealts))
            } else {
                S::SigAssign(t, Rhs::Selected(sel, walts))
            };
        }
        let t = self.target(ty, variable);
        self.em.tok(arrow);
        if force {
            self.em.tok("force");
        }
        if form == 6 {
            let n = 1 + self.rng.below(2);
            let mut wcs = Vec::new();
            let mut ecs = Vec::new();
            for k in 0..n {
                if k > 0 {
                    self.em.tok("else");
                }
                if variable || force {
                    let v = self.value(ty, d);
                    self.em.tok("when");
                    let c = self.gen_bool(d, CondCtx::Free);
                    ecs.push((v, c));
                } else {
                    let w = self.wave(ty, d);
                    self.em.tok("when");
                    let c = self.gen_bool(d, CondCtx::Free);
                    wcs.push((w, c));
                }
            }
            let has_else = variable || force || self.rng.chance(3, 4);
            let mut wels = None;
            let mut eels = None;
            if has_else {
                self.em.tok("else");
                if variable || force {
                    eels = Some(self.value(ty, d));
                } else if self.rng.chance(1, 4) {
                    self.em.tok("unaffected");
                    wels = Some(None);
                } else {
                    wels = Some(self.wave(ty, d));
                }
            }
            self.em.tok(";");
            return if variable {
                S::VarAssign(t, Rhs::Conditional(ecs, eels))
            } else if force {
                S::Force(t, Rhs::Conditional(ecs, eels))
            } else {
                S::SigAssign(t, Rhs::Conditional(wcs, wels))
            };
        }
        if variable || force {
            let v = self.value(ty, d);
            self.em.tok(";");
            if variable {
                S::VarAssign(t, Rhs::Simple(v))
            } else {
                S::Force(t, Rhs::Simple(v))
            }
        } else {
            let w = if self.allow_outside && self.rng.chance(1, 40) {
                // `after` expression with a signal? time-typed signals do not exist here: keep a literal
                self.wave(ty, d)
            } else {
                self.wave(ty, d)
            };
            self.em.tok(";");
            S::SigAssign(t, Rhs::Simple(w))
        }
    }
    /// a signal name that is written (actual of an out-mode formal): not a read; logged for the pre-fix oracle
    fn written(&mut self, n: &str) -> E {
        self.outact = true;
        let id = sig_id(n).unwrap();
        let e = self.name(n, id);
        self.outs.push((id, e.sp(), self.reads.len()));
        e
    }
    /// bit-typed actual of an out-mode signal formal: a signal, an element, a record element, an element of an element
    fn out_bit_actual(&mut self, d: u32) -> E {
        match self.rng.below(6) {
            0 | 1 => {
                let n = *self.rng.pick(&["ob0", "ob1", "ob2"]);
                self.written(n)
            }
            2 | 3 => {
                // ov0 ( <index expression: read> )
                let p = self.written("ov0");
                self.em.tok("(");
                let i = self.int_index(d);
                let b = self.em.tok(")");
                E::Call((p.sp().0, b), Box::new(p), vec![i])
            }
            4 => {
                let t = self.em.tok("or0");
                self.outact = true;
                self.em.tok(".");
                let b = self.em.tok("f");
                E::Selected((t, b), Box::new(E::Desig((t, t), Some(sig_id("or0").unwrap()))), Some(ID_F))
            }
            _ => {
                // om0 ( i ) ( j )
                let p = self.written("om0");
                self.em.tok("(");
                let i = self.int_index(d);
                let b = self.em.tok(")");
                let inner = E::Call((p.sp().0, b), Box::new(p), vec![i]);
                self.em.tok("(");
                let j = self.int_index(d);
                let b2 = self.em.tok(")");
                E::Call((inner.sp().0, b2), Box::new(inner), vec![j])
            }
        }
    }
    /// the bounds `hi downto 0` of a slice in a written name: read by analyze_written_name (in the family)
    fn written_slice(&mut self, p: E, d: u32) -> E {
        self.em.tok("(");
        let hi = if self.rng.chance(1, 2) { self.gen_int(d.min(1)) } else { self.lit("3") };
        self.em.tok("downto");
        let lo = self.lit("0");
        let b = self.em.tok(")");
        E::Slice((p.sp().0, b), Box::new(p), vec![hi, lo])
    }
    /// bit_vector-typed actual of an out-mode signal formal
    fn out_vec_actual(&mut self, d: u32) -> E {
        match self.rng.below(5) {
            0 => self.written("ov0"),
            1 | 2 => {
                let p = self.written("ov0");
                self.written_slice(p, d)
            }
            3 => {
                let p = self.written("om0");
                self.em.tok("(");
                let i = self.int_index(d);
                let b = self.em.tok(")");
                E::Call((p.sp().0, b), Box::new(p), vec![i])
            }
            _ => {
                let p = self.written("om0");
                self.em.tok("(");
                let i = self.int_index(d);
                let b = self.em.tok(")");
                let inner = E::Call((p.sp().0, b), Box::new(p), vec![i]);
                self.written_slice(inner, d)
            }
        }
    }
    fn gen_call(&mut self, d: u32) -> S {
        let which = if self.passive { 0 } else { self.rng.below(12) };
        // (name, id, formals: (name, id, mode))
        let (pname, pid, formals): (&str, u32, Vec<(&str, u32, char)>) = match which {
            0..=4 => ("pb", ID_PB, vec![("a", 410, 'i'), ("b", 411, 'i'), ("c", 412, 'i'), ("d", 413, 'i')]),
            5 | 6 => ("psig", ID_PS, vec![("a", 414, 'i'), ("b", 415, 'i')]),
            7 => ("pvo", ID_PVO, vec![("a", 418, 'i'), ("v", 419, 'o')]),
            8 => ("pio", ID_PIO, vec![("a", 420, 'b'), ("b", 421, 'i')]),
            9 | 10 if self.allow_outact => ("po", ID_PO, vec![("a", 416, 'i'), ("o", 417, 'o')]),
            11 if self.allow_outact => ("pov", ID_POV, vec![("a", 422, 'i'), ("o", 423, 'o')]),
            _ => ("pb", ID_PB, vec![("a", 410, 'i'), ("b", 411, 'i'), ("c", 412, 'i'), ("d", 413, 'i')]),
        };
        let p = self.name(pname, pid);
        self.em.tok("(");
        // positional, named (possibly reversed), or positional prefix followed by named associations
        let style = self.rng.below(6);
        let mut order: Vec<usize> = (0..formals.len()).collect();
        if style == 1 {
            order.reverse();
        }
        let mut args = Vec::new();
        for (k, i) in order.iter().enumerate() {
            if k > 0 {
                self.em.tok(",");
            }
            let (fname, fid, mode) = formals[*i];
            let named = style == 0 || style == 1 || (style == 2 && k > 0);
            let formal = if named {
                if pname == "po" && self.rng.chance(1, 4) {
                    // type conversion in the formal part: bit ( o ) => actual  /  bit ( a ) => actual
                    let c = self.name("bit", ID_BIT);
                    self.em.tok("(");
                    let t = self.em.tok(fname);
                    let b = self.em.tok(")");
                    self.em.tok("=>");
                    Some(E::Call((c.sp().0, b), Box::new(c), vec![E::Desig((t, t), Some(fid))]))
                } else {
                    let t = self.em.tok(fname);
                    self.em.tok("=>");
                    Some(E::Desig((t, t), Some(fid)))
                }
            } else {
                None
            };
            let a = match (pname, fname) {
                ("pb", _) | ("pvo", "a") | ("pio", "b") => self.gen_bit(d),
                ("psig", "a") | ("po", "a") | ("pov", "a") => match self.pick_sig(Ty::Bit) {
                    Some(s) => self.read(s),
                    // no bit signal in the working set: read b0 anyway (it is then certainly missing)
                    None => self.read(1),
                },
                ("psig", "b") => self.gen_int(d),
                ("pvo", "v") => self.name("xb", ID_XB),
                ("pio", "a") => {
                    // inout signal actual: read and written
                    let n = *self.rng.pick(&["ob0", "ob1"]);
                    let id = sig_id(n).unwrap();
                    self.read(id)
                }
                ("po", "o") => self.out_bit_actual(d),
                ("pov", "o") => self.out_vec_actual(d),
                _ => unreachable!(),
            };
            args.push((mode, formal, a));
        }
        let b = self.em.tok(")");
        self.em.tok(";");
        S::Call((p.sp().0, b), p, args)
    }
    fn gen_stmts(&mut self, n: usize, d: u32, ind: usize, top: bool) -> Vec<S> {
        let mut v = Vec::new();
        for _ in 0..n {
            self.em.nl(ind);
            v.push(self.gen_stmt(d, ind, top));
        }
        v
    }
    fn body_len(&mut self) -> usize {
        1 + self.rng.below(3)
    }
    fn gen_stmt(&mut self, d: u32, ind: usize, top: bool) -> S {
        let ed = 2.min(self.max_depth); // expression depth
        let k = if d == 0 { self.rng.below(9) } else { self.rng.below(16) };
        match k {
            0..=4 => self.gen_assign(ed, ind),
            5 => self.gen_call(ed),
            6 => {
                self.em.tok("assert");
                let c = self.gen_bool(ed, CondCtx::Free);
                let mut rep = None;
                let mut sev = None;
                if self.rng.chance(1, 2) {
                    self.em.tok("report");
                    if self.allow_outside && self.rng.chance(1, 3) {
                        // the report expression of an assert is never visited: a signal there is outside the family
                        let e = self.gen_str(1);
                        if has_signal(&e) {
                            self.outside = true;
                        }
                        rep = Some(e);
                    } else {
                        rep = Some(self.plain_str());
                    }
                    if self.rng.chance(1, 2) {
                        self.em.tok("severity");
                        sev = Some(self.lit("note"));
                    }
                }
                self.em.tok(";");
                S::Assert(c, rep, sev)
            }
            7 => {
                self.em.tok("report");
                let m = self.gen_str(ed);
                let mut sev = None;
                if self.rng.chance(1, 3) {
                    self.em.tok("severity");
                    sev = Some(self.lit("warning"));
                }
                self.em.tok(";");
                S::Report(m, sev)
            }
            8 => {
                if self.loopd > 0 && self.rng.chance(2, 3) {
                    let next = self.rng.chance(1, 2);
                    self.em.tok(if next { "next" } else { "exit" });
                    let c = if self.rng.chance(2, 3) {
                        self.em.tok("when");
                        Some(self.gen_bool(ed, CondCtx::Free))
                    } else {
                        None
                    };
                    self.em.tok(";");
                    if next {
                        S::Next(c)
                    } else {
                        S::Exit(c)
                    }
                } else {
                    self.em.toks("null ;");
                    S::Null
                }
            }
            9..=11 => {
                // if
                let nb = 1 + self.rng.below(3);
                let mut bs = Vec::new();
                for i in 0..nb {
                    if i > 0 {
                        self.em.nl(ind);
                    }
                    self.em.tok(if i == 0 { "if" } else { "elsif" });
                    let inspected = top && (i == 0 || (i == 1 && nb == 2));
                    let c = self.gen_bool(ed, if inspected { CondCtx::Inspected } else { CondCtx::Free });
                    self.em.tok("then");
                    let n = self.body_len();
                    let b = self.gen_stmts(n, d - 1, ind + 2, false);
                    bs.push((c, b));
                }
                let mut els = Vec::new();
                if self.rng.chance(1, 2) {
                    self.em.nl(ind);
                    self.em.tok("else");
                    let n = self.body_len();
                    els = self.gen_stmts(n, d - 1, ind + 2, false);
                }
                self.em.nl(ind);
                self.em.toks("end if ;");
                S::If(bs, els)
            }
            12 | 13 => {
                self.em.tok("case");
                let bit_sel = self.rng.chance(1, 3);
                let sel = if bit_sel {
                    self.typed_operand(ed, "bit", &|g, d| g.gen_bit(d))
                } else {
                    self.typed_operand(ed, "integer", &|g, d| g.gen_int(d))
                };
                self.em.tok("is");
                let n = if bit_sel { 2 } else { 2 + self.rng.below(2) };
                let mut alts = Vec::new();
                for k in 0..n {
                    self.em.nl(ind + 2);
                    self.em.tok("when");
                    self.choices(k, n, bit_sel);
                    self.em.tok("=>");
                    let m = self.body_len();
                    alts.push(self.gen_stmts(m, d - 1, ind + 4, false));
                }
                self.em.nl(ind);
                self.em.toks("end case ;");
                S::Case(sel, alts)
            }
            _ => {
                // loop
                let lv = ["i", "j", "k", "l", "m"][self.loopd as usize];
                let it = match self.rng.below(6) {
                    0 | 1 => {
                        self.em.toks(&format!("for {} in", lv));
                        let l = self.lit("0");
                        self.em.tok("to");
                        let h = self.gen_int(ed);
                        It::For(Dr::Range(Rg::Range(l, h)))
                    }
                    2 => {
                        self.em.toks(&format!("for {} in", lv));
                        let tm = self.name("integer", ID_INTEGER);
                        self.em.tok("range");
                        let l = self.gen_int(1);
                        self.em.tok("to");
                        let h = self.gen_int(ed);
                        It::For(Dr::Subtype(tm, Some(Rg::Range(l, h))))
                    }
                    3 => {
                        // for i in v'range: the prefix of 'range is not read
                        self.em.toks(&format!("for {} in", lv));
                        let vs: Vec<u32> =
                            (1..=NSIG).filter(|s| sig_ty(*s) == Ty::Vec && (!self.passive || ENTITY_POOL.contains(s))).collect();
                        let s = vs[self.rng.below(vs.len())];
                        let p = self.name(sig_name(s), s);
                        self.em.tok("'");
                        let b = self.em.tok("range");
                        It::For(Dr::Range(Rg::Attr(E::Attr((p.sp().0, b), Box::new(p), 2, None))))
                    }
                    4 => {
                        self.em.tok("while");
                        let c = self.gen_bool(ed, CondCtx::Free);
                        It::While(c)
                    }
                    _ => It::None,
                };
                self.em.tok("loop");
                let is_for = matches!(it, It::For(_));
                if is_for {
                    self.lvars.push(self.loopd);
                }
                self.loopd += 1;
                let n = self.body_len();
                let b = self.gen_stmts(n, d - 1, ind + 2, false);
                self.loopd -= 1;
                if is_for {
                    self.lvars.pop();
                }
                self.em.nl(ind);
                self.em.toks("end loop ;");
                S::Loop(it, b)
            }
        }
    }
}

/// one generated case
struct Case {
    id: String,
    flags: String,
    text: String,
    oracle: String,
    ast: String,
    coq: String,
}

fn sp_s(s: Sp) -> String {
    format!("{}-{}", s.0, s.1)
}

/// expected diagnostics from the generator's own read log
fn oracle_of(kw: Sp, listed: &[(u32, Sp)], reads: &[(u32, Sp)], soft: &HashSet<u32>) -> (String, bool) {
    let mut seen = HashSet::new();
    let listed_ids: HashSet<u32> = listed.iter().map(|x| x.0).collect();
    let mut missing = Vec::new();
    for (s, sp) in reads {
        if seen.insert(*s) && !listed_ids.contains(s) {
            missing.push(format!("{}@{}", s, sp_s(*sp)));
        }
    }
    let mut items = Vec::new();
    if !missing.is_empty() {
        items.push(format!("M{}:{}", sp_s(kw), missing.join(",")));
    }
    let mut sup: Vec<Sp> = Vec::new();
    let mut dc: Vec<Sp> = Vec::new();
    for (s, sp) in listed {
        if !seen.contains(s) {
            if soft.contains(s) {
                dc.push(*sp)
            } else {
                sup.push(*sp)
            }
        }
    }
    sup.sort();
    dc.sort();
    let nontrivial = !missing.is_empty() && !sup.is_empty();
    for s in &sup {
        items.push(format!("S{}", sp_s(*s)));
    }
    for s in &dc {
        items.push(format!("?S{}", sp_s(*s)));
    }
    let mut softonly: Vec<u32> = soft.iter().cloned().filter(|s| !seen.contains(s) && !listed_ids.contains(s)).collect();
    softonly.sort();
    for s in softonly {
        items.push(format!("?M{}", s));
    }
    (items.join(";"), nontrivial)
}

/// `oracle` or, with out-mode signal actuals, `oracle#oracle under the reading that such an actual is read`
fn oracle_pair(kw: Sp, listed: &[(u32, Sp)], reads: &[(u32, Sp)], soft: &HashSet<u32>, outs: &[(u32, Sp, usize)]) -> String {
    let main = oracle_of(kw, listed, reads, soft).0;
    if outs.is_empty() {
        return main;
    }
    let mut alt: Vec<(u32, Sp)> = reads.to_vec();
    for (k, (s, sp, at)) in outs.iter().enumerate() {
        alt.insert(at + k, (*s, *sp));
    }
    format!("{}#{}", main, oracle_of(kw, listed, &alt, soft).0)
}

/// one entry of a sensitivity list for signal `s`: the plain name, or up to three levels of indexing / slicing
/// (arrays of arrays, element of a slice), the selected package signal, or (heuristic cases) a record element
fn list_entry(g: &mut G, s: u32) -> (E, bool) {
    let index = |g: &mut G, p: E| -> E {
        g.em.tok("(");
        let v = g.rng.below(4).to_string();
        let i = g.lit(&v);
        let b = g.em.tok(")");
        E::Call((p.sp().0, b), Box::new(p), vec![i])
    };
    let slice = |g: &mut G, p: E| -> E {
        g.em.tok("(");
        let a = g.lit("3");
        g.em.tok("downto");
        let c = g.lit("0");
        let b = g.em.tok(")");
        E::Slice((p.sp().0, b), Box::new(p), vec![a, c])
    };
    if s == GS && g.rng.chance(1, 3) {
        let a = g.em.tok("work");
        g.em.tok(".");
        let p = g.em.tok("c20_pkg");
        g.em.tok(".");
        let b = g.em.tok("gs");
        let pre = E::Selected((a, p), Box::new(E::Desig((a, a), Some(ID_WORK))), Some(ID_PKG));
        return (E::Selected((a, b), Box::new(pre), Some(GS)), false);
    }
    let p = g.name(sig_name(s), s);
    let form = g.rng.below(6);
    match (sig_ty(s), form) {
        (Ty::Vec, 0) | (Ty::Arr, 0) | (Ty::Mem, 0) => (index(g, p), false),
        (Ty::Vec, 1) => (slice(g, p), false),
        (Ty::Vec, 2) => {
            let x = slice(g, p);
            (index(g, x), false)
        }
        (Ty::Mem, 1) | (Ty::Mem, 2) => {
            let x = index(g, p);
            (index(g, x), false)
        }
        (Ty::Mem, 3) => {
            let x = index(g, p);
            (slice(g, x), false)
        }
        (Ty::Mem, 4) => {
            let x = index(g, p);
            let y = slice(g, x);
            (index(g, y), false)
        }
        (Ty::Rec, 0) if g.allow_heur => {
            g.em.tok(".");
            let b = g.em.tok("f");
            (E::Selected((p.sp().0, b), Box::new(p), Some(ID_F)), true)
        }
        _ => (p, false),
    }
}

fn gen_case(rng: &mut Rng, id: String, label: String, max_depth: u32, allow_outact: bool) -> Case {
    let mut g = G {
        rng: rng.fork(),
        em: Em::new(),
        ws: Vec::new(),
        reads: Vec::new(),
        soft: HashSet::new(),
        outs: Vec::new(),
        outside: false,
        outact: false,
        heur: false,
        allow_outside: false,
        allow_outact: false,
        allow_heur: false,
        passive: false,
        loopd: 0,
        lvars: Vec::new(),
        label: String::new(),
        max_depth,
    };
    // one process in twelve is a passive process placed in the statement part of an entity
    g.passive = g.rng.chance(1, 12);
    let passive = g.passive;
    // working set
    let quota = [(Ty::Bit, 4), (Ty::Int, 3), (Ty::Vec, 2), (Ty::Arr, 1), (Ty::Rec, 1), (Ty::Bool, 1), (Ty::Mem, 1)];
    for (ty, maxn) in quota {
        let mut c: Vec<u32> =
            (1..=NSIG).filter(|s| sig_ty(*s) == ty && *s != CLK && (!passive || ENTITY_POOL.contains(s))).collect();
        let n = g.rng.below(maxn + 1).max(if ty == Ty::Bit { 1 } else { 0 });
        for _ in 0..n {
            if c.is_empty() {
                break;
            }
            let i = g.rng.below(c.len());
            g.ws.push(c.remove(i));
        }
    }
    let variant = g.rng.below(100);
    // 0..69 combinational in-family; 70..79 combinational with out-of-family constructs; 80..84 heuristic boundary;
    // 85..91 clocked; 92..95 all; 96..99 no list
    g.allow_outside = (70..80).contains(&variant);
    g.allow_heur = !passive && (80..85).contains(&variant);
    g.allow_outact = !passive && allow_outact && variant % 7 == 3;
    let clocked = !passive && (85..92).contains(&variant);
    let cat = if clocked {
        'k'
    } else if (92..96).contains(&variant) {
        'a'
    } else if variant >= 96 {
        'n'
    } else {
        'c'
    };
    // header
    if g.rng.chance(1, 4) {
        g.em.tok(&label);
        g.em.tok(":");
    }
    // the diagnostic is anchored at the first token of the process statement: `postponed` if present
    let post = if g.rng.chance(1, 10) { Some(g.em.tok("postponed")) } else { None };
    let kwt = g.em.tok("process");
    let kwt = post.unwrap_or(kwt);
    let kw = (kwt, kwt);
    let mut listed: Vec<(u32, Sp)> = Vec::new();
    let mut names: Vec<E> = Vec::new();
    let mut dup = false;
    let sens = match cat {
        'a' => {
            g.em.toks("( all )");
            Sens::All
        }
        'n' => Sens::None,
        _ => {
            // the list: a random subset of the working set plus up to two signals outside it
            let mut cand: Vec<u32> = g.ws.clone();
            let mut l: Vec<u32> = Vec::new();
            for s in cand.drain(..) {
                if g.rng.chance(1, 2) {
                    l.push(s);
                }
            }
            for _ in 0..g.rng.below(3) {
                let s = if passive { ENTITY_POOL[g.rng.below(ENTITY_POOL.len())] } else { 1 + g.rng.below(NSIG as usize) as u32 };
                if !l.contains(&s) && !g.ws.contains(&s) {
                    l.push(s);
                }
            }
            if clocked && !l.contains(&CLK) {
                l.push(CLK);
            }
            if l.is_empty() {
                l.push(g.ws[0]);
            }
            // shuffle
            for i in (1..l.len()).rev() {
                let j = g.rng.below(i + 1);
                l.swap(i, j);
            }
            if g.allow_heur && g.rng.chance(1, 3) {
                let s = l[g.rng.below(l.len())];
                l.push(s);
                dup = true;
            }
            g.em.tok("(");
            for (k, s) in l.iter().enumerate() {
                if k > 0 {
                    g.em.tok(",");
                }
                let (e, elem_key) = list_entry(&mut g, *s);
                if elem_key {
                    // `r . f`: the entry is keyed by the record element, not by the signal: oracle not applicable
                    dup = true;
                }
                listed.push((*s, e.sp()));
                names.push(e);
            }
            if g.allow_heur && g.rng.chance(1, 3) {
                // an alias as list entry: keyed by the alias entity
                g.em.tok(",");
                let (n, id) = *g.rng.pick(&ALIASES);
                let e = g.name(n, id);
                names.push(e);
                dup = true;
            }
            g.em.tok(")");
            Sens::Names(names.clone())
        }
    };
    if g.rng.chance(1, 3) {
        g.em.tok("is");
    }
    g.em.nl(0);
    g.em.lines.last_mut().unwrap().push_str(PROC_DECLS);
    // the declarations are tokens too
    g.em.ntok += PROC_DECLS.split_whitespace().count() as u32;
    g.em.nl(2);
    g.em.tok("begin");
    let depth = 1 + g.rng.below(max_depth as usize) as u32;
    let mut body = Vec::new();
    if clocked {
        // a clock edge in an inspected condition, possibly among other top-level statements
        let pre = g.rng.below(2);
        body.extend(g.gen_stmts(pre, depth - 1, 4, true));
        g.em.nl(4);
        // shape 0: the edge test in the first condition (optionally followed by further elsif branches);
        // shape 1: exactly two conditions, the edge test in the second one
        let shape = g.rng.below(3);
        let mut bs = Vec::new();
        g.em.tok("if");
        if shape == 1 {
            // asynchronous reset first
            let c0 = g.gen_bool(1, CondCtx::Inspected);
            g.em.tok("then");
            let n = g.body_len();
            let b0 = g.gen_stmts(n, depth - 1, 6, false);
            bs.push((c0, b0));
            g.em.nl(4);
            g.em.tok("elsif");
        }
        let ed = g.rng.below(4) as u32;
        let c = g.edge_cond(ed);
        g.em.tok("then");
        let n = g.body_len();
        let b = g.gen_stmts(n, depth - 1, 6, false);
        bs.push((c, b));
        if shape == 0 && g.rng.chance(1, 3) {
            for _ in 0..1 + g.rng.below(2) {
                g.em.nl(4);
                g.em.tok("elsif");
                let cx = g.gen_bool(1, CondCtx::Inspected);
                g.em.tok("then");
                let n = g.body_len();
                let bx = g.gen_stmts(n, depth - 1, 6, false);
                bs.push((cx, bx));
            }
        }
        g.em.nl(4);
        g.em.toks("end if ;");
        body.push(S::If(bs, Vec::new()));
        let post = g.rng.below(2);
        body.extend(g.gen_stmts(post, depth - 1, 4, true));
    } else {
        let n = 1 + g.rng.below(4);
        body = g.gen_stmts(n, depth, 4, true);
        if g.allow_heur && !dup && !g.heur {
            // a clock edge in a branch the heuristic does not inspect (second of three conditions)
            g.em.nl(4);
            g.em.tok("if");
            let c0 = g.gen_bool(1, CondCtx::Inspected);
            g.em.toks("then null ;");
            g.em.nl(4);
            g.em.tok("elsif");
            let f = g.name("rising_edge", ID_RISING);
            g.em.tok("(");
            let a = g.read(CLK);
            let b = g.em.tok(")");
            let c1 = E::Call((f.sp().0, b), Box::new(f), vec![a]);
            g.em.toks("then null ;");
            g.em.nl(4);
            g.em.tok("elsif");
            let c2 = g.gen_bool(1, CondCtx::Free);
            g.em.toks("then null ;");
            g.em.nl(4);
            g.em.toks("end if ;");
            body.push(S::If(vec![(c0, vec![S::Null]), (c1, vec![S::Null]), (c2, vec![S::Null])], Vec::new()));
            g.heur = true;
        }
    }
    if cat == 'n' {
        g.em.nl(4);
        g.em.toks("wait on");
        let s = g.ws[0];
        let e = g.name(sig_name(s), s);
        g.em.tok(";");
        body.push(S::Wait(vec![e], None, None));
    }
    g.em.nl(2);
    g.em.toks("end process ;");
    let p = Proc { kw, sens, body };
    let oracle = match cat {
        'c' => oracle_pair(kw, &listed, &g.reads, &g.soft, &g.outs),
        _ => String::new(),
    };
    let mut flags = String::new();
    flags.push(if g.outside { 'X' } else { 'F' });
    if g.outact {
        flags.push('O');
    }
    if g.heur || dup {
        flags.push('H');
    }
    if passive {
        flags.push('P');
    }
    flags.push(cat);
    Case { id, flags, text: g.em.lines.join("~"), oracle, ast: ser_proc(&p), coq: cproc(&p) }
}
