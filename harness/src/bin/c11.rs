//! C11 harness: token positions are exact UTF-16 coordinates of their lexemes.
//!
//! usage: c11 keywords
//!        c11 <mode> <seed> <n> <cases_out> <impl_out> <tmpdir>
//!   mode = random | exhaustive<k> | file:<path>
//!
//! cases_out: one case per line: `U <code points>` (text given to `Source::inline`) or
//!            `L <bytes>` (bytes written to a file and read back with `Source::from_latin1_file`).
//!            The line is flushed BEFORE the implementation runs, so after a crash/hang of this
//!            process the last line of cases_out is the input in flight.
//! impl_out : per case `tokens|diagnostics|oracle`
//!   tokens      = `;`-joined `kind,value,range,leading,trailing` (see fmt_token)
//!   diagnostics = `;`-joined `E,code,range` in the order they are pushed by TokenStream::new
//!   oracle      = `OK` or `BAD:<reason>`: the implementation-level check of the property (below),
//!                 `HANG:<why>` (non-termination: diagnostic flood or watchdog), `PANIC:<msg>`.
//!
//! ORACLE (independent of the Coq model): for every token that `TokenStream::new` keeps
//!   * the text between its start and end position, cut by the UTF-16 slicer of this file
//!     (lines split at LF, CR, CRLF) exists and is the token's lexeme (identifiers/keywords up to
//!     letter case; strings/extended identifiers re-escaped; literals = their text),
//!   * re-lexing that slice alone gives exactly one token of the same kind and value that spans
//!     the slice (diagnostics of the re-lexing, e.g. identifier warnings, are not compared),
//!   * start <= end, previous token's end <= start; leading comments lie, in order, between the
//!     previous token (and its trailing comment) and the token, the trailing comment between the
//!     token and the next one.
//!   For `L` cases the slicer works on the BYTES of the file (one column per byte).
use std::fmt::Write as _;
use std::io::Write as _;
use std::panic::{catch_unwind, AssertUnwindSafe};
use std::path::{Path, PathBuf};
use std::sync::mpsc;
use std::time::Duration;
use verif_harness::rng::Rng;
use vhdl_lang::ast::{AbstractLiteral, BaseSpecifier};
use vhdl_lang::verif::data::{ContentReader, Diagnostic, DiagnosticHandler};
use vhdl_lang::verif::syntax::{kind_str, Comment, Kind, Symbols, Token, TokenStream, Tokenizer, Value};
use vhdl_lang::{Position, Source, VHDLStandard};

const WATCHDOG_SECS: u64 = 30;

#[derive(Clone, Debug)]
enum Case {
    Utf(Vec<char>),
    Latin1File(Vec<u8>),
    /// A large file on disk described by its construction (see border_file): not expanded in the case line.
    Border { border: usize, delta: i64, eol: u8, hi: bool },
    /// The text is reached through an edit history (see build_history): start kind, order, cut points.
    Edits { start: u8, order: u8, cuts: Vec<usize>, text: Vec<char> },
}

fn case_line(c: &Case) -> String {
    let mut out = String::new();
    match c {
        Case::Utf(cs) => {
            out.push('U');
            for ch in cs {
                write!(out, " {}", *ch as u32).unwrap();
            }
        }
        Case::Latin1File(bs) => {
            out.push('L');
            for b in bs {
                write!(out, " {}", b).unwrap();
            }
        }
        Case::Border { border, delta, eol, hi } => {
            write!(out, "B {} {} {} {}", border, delta + 1000, eol, if *hi { 1 } else { 0 }).unwrap();
        }
        Case::Edits { start, order, cuts, text } => {
            // E <m> <m header numbers: start order cuts...> <code points of the text T>
            write!(out, "E {} {} {}", 2 + cuts.len(), start, order).unwrap();
            for c in cuts {
                write!(out, " {}", c).unwrap();
            }
            for ch in text {
                write!(out, " {}", *ch as u32).unwrap();
            }
        }
    }
    out
}

// ---------------------------------------------------------------------------------------------
// texts reached through an edit history
// ---------------------------------------------------------------------------------------------
const KEEP_PREFIX: &str = "signal keep : bit;\n";

/// (line, UTF-16 column) of the character offset `off` in the client's text (lines end at LF, CR, CRLF)
fn client_pos(cur: &[char], off: usize) -> Position {
    let (mut line, mut col) = (0u32, 0u32);
    let mut i = 0;
    while i < off {
        let c = cur[i];
        if c == '\n' {
            line += 1;
            col = 0;
        } else if c == '\r' {
            line += 1;
            col = 0;
            if i + 1 < cur.len() && cur[i + 1] == '\n' && i + 1 < off {
                i += 1;
            }
        } else {
            col += c.len_utf16() as u32;
        }
        i += 1;
    }
    Position::new(line, col)
}

/// Builds the document by `Source::change` calls with a range, as didChange does, and returns it together with
/// the text the client has at the end.  start: 0 = opened empty, 1 = opened with ASCII text and emptied by a
/// ranged delete of everything, 2 = opened with the ASCII line KEEP_PREFIX that stays (the case's text is the
/// final text, which then contains that line).  The text T is cut at `cuts`, moved forward so that no piece but
/// the last ends with CR (mixing lone CRs with insertions next to them is the corner DESIGN.md 4.0 puts outside
/// any normalising server's reach; the rule holds for the buffer at insertion time in all three orders) and the pieces are inserted with order
/// 0 = one after the other at the end, 1 = last piece first, each at the front, 2 = first, last, then the middle.
fn build_history(start: u8, order: u8, cuts: &[usize], final_text: &[char]) -> (Source, Vec<char>) {
    let path = Path::new("/verif_c11_edits.vhd");
    // the case holds the FINAL text; with start = 2 it contains the kept line (in front, or behind for order 1)
    let keep: Vec<char> = KEEP_PREFIX.chars().collect();
    let (start, text): (u8, &[char]) = if start >= 2 {
        if order == 1 && final_text.ends_with(&keep) {
            (2, &final_text[..final_text.len() - keep.len()])
        } else if order != 1 && final_text.starts_with(&keep) {
            (2, &final_text[keep.len()..])
        } else {
            (0, final_text)
        }
    } else {
        (start, final_text)
    };
    let (src, mut cur): (Source, Vec<char>) = match start {
        0 => (Source::inline(path, ""), vec![]),
        1 => {
            let src = Source::inline(path, "entity old is end;\n-- gone\nx");
            src.change(Some(&vhdl_lang::Range::new(Position::new(0, 0), Position::new(2, 1))), "");
            (src, vec![])
        }
        _ => (Source::inline(path, KEEP_PREFIX), keep.clone()),
    };
    let mut bounds: Vec<usize> = vec![0];
    for &c in cuts {
        let mut c = c.min(text.len());
        // No inserted piece may END with CR (except the very last one, behind which nothing is ever inserted):
        // at the time a piece is inserted the buffer behind the insertion point may start with a line break the
        // server stores as LF, and "...CR" in front of it would form one CRLF (the mixed lone-CR corner outside
        // the claim).  The cut moves forward past the CR (and whatever follows it, e.g. its LF).  Consequently
        // the character in front of every insertion point is never a CR either, so a piece that starts with LF
        // is never inserted directly behind one.
        while c > 0 && c < text.len() && text[c - 1] == '\r' {
            c += 1;
        }
        if c > *bounds.last().unwrap() {
            bounds.push(c);
        }
    }
    if *bounds.last().unwrap() < text.len() || bounds.len() == 1 {
        bounds.push(text.len());
    }
    let pieces: Vec<&[char]> = bounds.windows(2).map(|w| &text[w[0]..w[1]]).collect();
    let mut insert = |cur: &mut Vec<char>, off: usize, piece: &[char]| {
        let pos = client_pos(cur, off);
        let t: String = piece.iter().collect();
        src.change(Some(&vhdl_lang::Range::new(pos, pos)), &t);
        let tail = cur.split_off(off);
        cur.extend_from_slice(piece);
        cur.extend(tail);
    };
    let base = cur.len();
    match order {
        0 => {
            for p in &pieces {
                let off = cur.len();
                insert(&mut cur, off, p);
            }
        }
        1 => {
            for p in pieces.iter().rev() {
                insert(&mut cur, 0, p);
            }
        }
        _ => {
            let n = pieces.len();
            insert(&mut cur, base, pieces[0]);
            if n > 1 {
                let off = cur.len();
                insert(&mut cur, off, pieces[n - 1]);
                let mut off = base + pieces[0].len();
                for p in &pieces[1..n - 1] {
                    insert(&mut cur, off, p);
                    off += p.len();
                }
            }
        }
    }
    (src, cur)
}

/// A file whose line ending number k (LF, CR or CRLF according to `eol` = 0, 1, 2) starts at byte offset
/// `border - 1 + delta`, i.e. around a block border of a reader that works in blocks: comment lines of about
/// 64 bytes padded to the exact size, then declarations whose tokens lie BEHIND the border.  With `hi` the
/// comments next to the border hold Latin-1 bytes above 0x7F.
fn border_file(border: usize, delta: i64, eol: u8, hi: bool) -> Vec<u8> {
    let nl: &[u8] = match eol {
        0 => b"\n",
        1 => b"\r",
        _ => b"\r\n",
    };
    let target = (border as i64 - 1 + delta) as usize; // offset of the first byte of the designated line ending
    let mut out: Vec<u8> = Vec::with_capacity(target + 400);
    out.extend_from_slice(b"entity first is end; -- tokens in front of the border");
    out.extend_from_slice(nl);
    while out.len() + 160 < target {
        out.extend_from_slice(b"-- ");
        out.extend(std::iter::repeat(b'x').take(58));
        out.extend_from_slice(nl);
    }
    out.extend_from_slice(b"-- ");
    let fill = target - out.len();
    for i in 0..fill {
        out.push(if hi && i + 4 >= fill { 0xE9 } else { b'p' });
    }
    assert_eq!(out.len(), target);
    out.extend_from_slice(nl);
    if hi {
        out.extend_from_slice(b"-- \xE9\xFF\xD7");
        out.extend_from_slice(nl);
    }
    for l in [
        &b"entity e is"[..],
        b"  port (yy : in bit; zz : out bit_vector(7 downto 0) := x\"AB\" & 16#FF#); -- trailing \xE9",
        b"end entity;",
        b"",
        b"architecture a of e is begin zz(0) <= yy; end;",
    ] {
        out.extend_from_slice(l);
        out.extend_from_slice(nl);
    }
    out
}

fn parse_case(line: &str) -> Option<Case> {
    let mut it = line.split_whitespace();
    let tag = it.next()?;
    let nums: Vec<u32> = it.map(|x| x.parse::<u32>().unwrap()).collect();
    match tag {
        "U" => Some(Case::Utf(nums.iter().map(|x| char::from_u32(*x).unwrap()).collect())),
        "L" => Some(Case::Latin1File(nums.iter().map(|x| *x as u8).collect())),
        "E" if !nums.is_empty() && nums.len() > nums[0] as usize && nums[0] >= 2 => {
            let m = nums[0] as usize;
            Some(Case::Edits {
                start: nums[1] as u8,
                order: nums[2] as u8,
                cuts: nums[3..1 + m].iter().map(|x| *x as usize).collect(),
                text: nums[1 + m..].iter().map(|x| char::from_u32(*x).unwrap()).collect(),
            })
        }
        "B" if nums.len() == 4 => Some(Case::Border {
            border: nums[0] as usize,
            delta: nums[1] as i64 - 1000,
            eol: nums[2] as u8,
            hi: nums[3] != 0,
        }),
        _ => None,
    }
}

// ---------------------------------------------------------------------------------------------
// implementation run
// ---------------------------------------------------------------------------------------------
/// A terminating run pushes at most one diagnostic per consumed character (plus the identifier
/// warnings): more than `limit` diagnostics is evidence of a loop that does not consume input.
struct Flood {
    v: Vec<Diagnostic>,
    limit: usize,
}
impl DiagnosticHandler for Flood {
    fn push(&mut self, d: Diagnostic) {
        if self.v.len() >= self.limit {
            panic!("DIAG-FLOOD");
        }
        self.v.push(d)
    }
}

struct Lexed {
    toks: Vec<Token>,
    diags: Vec<Diagnostic>,
}

fn lex_source(symbols: &Symbols, src: &Source, nchars: usize) -> Lexed {
    let contents = src.contents();
    let tokenizer = Tokenizer::new(symbols, src, ContentReader::new(&contents));
    let mut h = Flood { v: Vec::new(), limit: 4 * nchars + 64 };
    let stream = TokenStream::new(tokenizer, &mut h);
    let mut toks = Vec::new();
    while let Some(t) = stream.peek() {
        toks.push(t.clone());
        stream.skip();
    }
    Lexed { toks, diags: h.v }
}

fn hex_l1(bytes: &[u8]) -> String {
    let mut s = String::new();
    for b in bytes {
        write!(s, "{:x}.", b).unwrap();
    }
    s
}
fn hex_chars(t: &str) -> String {
    let mut s = String::new();
    for c in t.chars() {
        write!(s, "{:x}.", c as u32).unwrap();
    }
    s
}
fn base_code(b: BaseSpecifier) -> u32 {
    match b {
        BaseSpecifier::B => 0,
        BaseSpecifier::O => 1,
        BaseSpecifier::X => 2,
        BaseSpecifier::UB => 3,
        BaseSpecifier::UO => 4,
        BaseSpecifier::UX => 5,
        BaseSpecifier::SB => 6,
        BaseSpecifier::SO => 7,
        BaseSpecifier::SX => 8,
        BaseSpecifier::D => 9,
    }
}
fn kind_name(k: Kind, kws: &[Kind]) -> String {
    if kws.contains(&k) {
        format!("kw:{}", kind_str(k))
    } else {
        format!("{:?}", k)
    }
}
fn value_str(v: &Value) -> String {
    match v {
        Value::None => "N".to_string(),
        Value::Identifier(s) => format!("I{}", hex_l1(&s.name().bytes)),
        Value::String(s) => format!("S{}", hex_l1(&s.bytes)),
        Value::BitString(t, bs) => format!(
            "B{}/{}/{}/{}",
            hex_l1(&t.bytes),
            bs.length.map(|x| x.to_string()).unwrap_or_else(|| "-".to_string()),
            base_code(bs.base),
            hex_l1(&bs.value.bytes)
        ),
        Value::AbstractLiteral(t, AbstractLiteral::Integer(i)) => format!("A{}/i{}", hex_l1(&t.bytes), i),
        Value::AbstractLiteral(t, AbstractLiteral::Real(_)) => format!("A{}/r", hex_l1(&t.bytes)),
        Value::Character(c) => format!("C{}", c),
        Value::Text(t) => format!("T{}", hex_l1(&t.bytes)),
    }
}
fn fmt_range(r: &vhdl_lang::Range) -> String {
    format!("{}:{}-{}:{}", r.start.line, r.start.character, r.end.line, r.end.character)
}
fn fmt_comment(c: &Comment) -> String {
    format!("{}:{}:{}", fmt_range(&c.range), if c.multi_line { 1 } else { 0 }, hex_chars(&c.value))
}
fn fmt_token(t: &Token, kws: &[Kind]) -> String {
    let (lead, trail) = match &t.comments {
        Some(c) => (
            c.leading.iter().map(fmt_comment).collect::<Vec<_>>().join("+"),
            c.trailing.as_ref().map(fmt_comment).unwrap_or_else(|| "-".to_string()),
        ),
        None => (String::new(), "-".to_string()),
    };
    format!("{},{},{},{},{}", kind_name(t.kind, kws), value_str(&t.value), fmt_range(&t.pos.range), lead, trail)
}
fn diag_code(msg: &str) -> u32 {
    const TABLE: [(&str, u32); 20] = [
        ("Found invalid latin-1 character", 1),
        ("Invalid integer character", 2),
        ("Illegal digit", 3),
        ("Integer too large for 64-bit unsigned", 4),
        ("Exponent too large for 32-bits signed", 5),
        ("Reached EOF before end quote", 6),
        ("Multi line string", 7),
        ("Incomplete multi-line comment", 8),
        ("invalid float literal", 9),
        ("Integer literals may not have negative exponent", 10),
        ("Base must be at least 2 and at most 16", 11),
        ("Based integer did not end with", 12),
        ("Invalid bit string literal", 13),
        ("Illegal token", 14),
        ("Expecting identifier", 15),
        ("Identifier cannot be empty", 16),
        ("Identifier must start with a letter", 17),
        ("Identifier cannot contain consecutive underscores", 18),
        ("Identifier contains an invalid character", 19),
        ("Identifier cannot end with an underscore", 20),
    ];
    for (p, c) in TABLE.iter() {
        if msg.starts_with(p) {
            return *c;
        }
    }
    999
}
fn fmt_diag(d: &Diagnostic) -> String {
    format!("E,{},{}", diag_code(&d.message), fmt_range(&d.pos.range))
}

// ---------------------------------------------------------------------------------------------
// oracle
// ---------------------------------------------------------------------------------------------
/// UTF-16 lines of a text, split at LF, CR and CRLF (terminators removed).
fn lines16(text: &[char]) -> Vec<Vec<u16>> {
    let mut out = Vec::new();
    let mut cur: Vec<u16> = Vec::new();
    let mut i = 0;
    let mut buf = [0u16; 2];
    while i < text.len() {
        let c = text[i];
        if c == '\n' {
            out.push(std::mem::take(&mut cur));
        } else if c == '\r' {
            out.push(std::mem::take(&mut cur));
            if i + 1 < text.len() && text[i + 1] == '\n' {
                i += 1;
            }
        } else {
            cur.extend_from_slice(c.encode_utf16(&mut buf));
        }
        i += 1;
    }
    out.push(cur);
    out
}
/// The text between two positions; None if a position is outside the text, the range is
/// inverted, or the cut splits a surrogate pair.
fn slice16(ls: &[Vec<u16>], a: Position, b: Position) -> Option<String> {
    let mut s: Vec<u16> = Vec::new();
    if a.line == b.line {
        let l = ls.get(a.line as usize)?;
        if a.character > b.character {
            return None;
        }
        s.extend_from_slice(l.get(a.character as usize..b.character as usize)?);
    } else {
        if a.line > b.line {
            return None;
        }
        let l = ls.get(a.line as usize)?;
        s.extend_from_slice(l.get(a.character as usize..)?);
        s.push(10);
        for k in a.line + 1..b.line {
            s.extend_from_slice(ls.get(k as usize)?);
            s.push(10);
        }
        let l = ls.get(b.line as usize)?;
        s.extend_from_slice(l.get(..b.character as usize)?);
    }
    String::from_utf16(&s).ok()
}
fn l1_to_string(bytes: &[u8]) -> String {
    bytes.iter().map(|b| *b as char).collect()
}
fn l1_lower(c: char) -> char {
    let u = c as u32;
    if (65..=90).contains(&u) || (192..=214).contains(&u) || (216..=222).contains(&u) {
        char::from_u32(u + 32).unwrap()
    } else {
        c
    }
}
fn eq_nocase(a: &str, b: &str) -> bool {
    a.chars().map(l1_lower).eq(b.chars().map(l1_lower))
}

/// Is `slice` the lexeme of the token?
fn lexeme_ok(t: &Token, slice: &str, kws: &[Kind]) -> Result<(), String> {
    let ok = match &t.value {
        Value::Identifier(sym) => {
            let name = l1_to_string(&sym.name().bytes);
            if name.starts_with('\\') {
                let cs: Vec<char> = name.chars().collect();
                if cs.len() < 2 {
                    false
                } else {
                    let inner: String = cs[1..cs.len() - 1].iter().collect();
                    let exp = format!("\\{}\\", inner.replace('\\', "\\\\"));
                    slice == exp
                }
            } else {
                eq_nocase(slice, &name)
            }
        }
        Value::None => {
            if kws.contains(&t.kind) {
                eq_nocase(slice, kind_str(t.kind))
            } else {
                slice == kind_str(t.kind)
            }
        }
        Value::String(v) => {
            let exp = format!("\"{}\"", l1_to_string(&v.bytes).replace('"', "\"\""));
            slice == exp
        }
        Value::Character(c) => slice == format!("'{}'", *c as char),
        Value::AbstractLiteral(txt, _) => slice == l1_to_string(&txt.bytes),
        Value::BitString(txt, _) => slice == l1_to_string(&txt.bytes),
        Value::Text(txt) => slice == l1_to_string(&txt.bytes),
    };
    if ok {
        Ok(())
    } else {
        Err(format!("slice {:?} is not the lexeme of {:?}/{}", slice, t.kind, value_str(&t.value)))
    }
}

/// Position of the end of a slice that starts at 0:0 (the slicer joins lines with LF).
fn end_of(s: &str) -> Position {
    let mut p = Position::new(0, 0);
    for c in s.chars() {
        if c == '\n' {
            p = Position::new(p.line + 1, 0);
        } else {
            p = Position::new(p.line, p.character + c.len_utf16() as u32);
        }
    }
    p
}

/// The oracle proper.  `text` is the raw input as characters (for `L` cases: one char per byte).
fn oracle(symbols: &Symbols, kws: &[Kind], text: &[char], lx: &Lexed) -> String {
    let ls = lines16(text);
    let mut cursor = Position::new(0, 0);
    for (i, t) in lx.toks.iter().enumerate() {
        let r = t.pos.range;
        // comments between neighbours
        if let Some(c) = &t.comments {
            for cm in c.leading.iter() {
                if !(cursor <= cm.range.start && cm.range.start <= cm.range.end) {
                    return format!("BAD:token {} leading comment {} not after {:?}", i, fmt_range(&cm.range), cursor);
                }
                cursor = cm.range.end;
            }
        }
        if !(cursor <= r.start) {
            return format!("BAD:token {} range {} starts before {:?}", i, fmt_range(&r), cursor);
        }
        if !(r.start <= r.end) {
            return format!("BAD:token {} range {} inverted", i, fmt_range(&r));
        }
        cursor = r.end;
        if let Some(c) = &t.comments {
            if let Some(cm) = &c.trailing {
                if !(cursor <= cm.range.start && cm.range.start <= cm.range.end) {
                    return format!("BAD:token {} trailing comment {} not after the token", i, fmt_range(&cm.range));
                }
                cursor = cm.range.end;
            }
        }
        // exact lexeme
        let slice = match slice16(&ls, r.start, r.end) {
            Some(s) => s,
            None => return format!("BAD:token {} range {} is not a slice of the text", i, fmt_range(&r)),
        };
        if let Err(e) = lexeme_ok(t, &slice, kws) {
            return format!("BAD:token {} range {}: {}", i, fmt_range(&r), e);
        }
        // re-lex the slice alone
        let src = Source::inline(Path::new("/verif_c11_slice.vhd"), &slice);
        let re = lex_source(symbols, &src, slice.chars().count());
        if re.toks.len() != 1 {
            return format!("BAD:token {} slice {:?} re-lexes to {} tokens", i, slice, re.toks.len());
        }
        let rt = &re.toks[0];
        if rt.kind != t.kind || rt.value != t.value {
            return format!(
                "BAD:token {} {:?}/{} re-lexes from slice {:?} to {:?}/{}",
                i,
                t.kind,
                value_str(&t.value),
                slice,
                rt.kind,
                value_str(&rt.value)
            );
        }
        let rr = rt.pos.range;
        if rr.start != Position::new(0, 0) || rr.end != end_of(&slice) {
            return format!("BAD:token {} re-lexed token does not span the slice {:?}: {}", i, slice, fmt_range(&rr));
        }
    }
    "OK".to_string()
}

fn run_case(symbols: &Symbols, kws: &[Kind], case: &Case, tmp: &Path) -> String {
    let r = catch_unwind(AssertUnwindSafe(|| {
        let (src, text): (Source, Vec<char>) = match case {
            Case::Utf(cs) => {
                let s: String = cs.iter().collect();
                (Source::inline(Path::new("/verif_c11.vhd"), &s), cs.clone())
            }
            Case::Latin1File(bs) => {
                std::fs::write(tmp, bs).unwrap();
                let src = Source::from_latin1_file(tmp).unwrap();
                (src, bs.iter().map(|b| *b as char).collect())
            }
            Case::Border { border, delta, eol, hi } => {
                let bs = border_file(*border, *delta, *eol, *hi);
                std::fs::write(tmp, &bs).unwrap();
                let src = Source::from_latin1_file(tmp).unwrap();
                (src, bs.iter().map(|b| *b as char).collect())
            }
            Case::Edits { start, order, cuts, text } => build_history(*start, *order, cuts, text),
        };
        let lx = lex_source(symbols, &src, text.len());
        let toks = lx.toks.iter().map(|t| fmt_token(t, kws)).collect::<Vec<_>>().join(";");
        let diags = lx.diags.iter().map(fmt_diag).collect::<Vec<_>>().join(";");
        let verdict = oracle(symbols, kws, &text, &lx);
        format!("{}|{}|{}", toks, diags, verdict)
    }));
    match r {
        Ok(s) => s,
        Err(p) => {
            let msg = if let Some(s) = p.downcast_ref::<&str>() {
                s.to_string()
            } else if let Some(s) = p.downcast_ref::<String>() {
                s.clone()
            } else {
                "?".to_string()
            };
            if msg.contains("DIAG-FLOOD") {
                "||HANG:diagnostic flood (the tokenizer loops without consuming input)".to_string()
            } else {
                format!("||PANIC:{}", msg.replace(['|', '\n'], " "))
            }
        }
    }
}

// ---------------------------------------------------------------------------------------------
// generators
// ---------------------------------------------------------------------------------------------
const EXH_ALPHA: [char; 23] = [
    'x', 'b', 'e', '1', '_', '"', '\'', '\\', '#', '.', '-', '/', '*', ' ', '\n', '\r', '€', '😀', 'é', '?', '=', '`', ':',
];

fn pick_str<'a>(rng: &mut Rng, xs: &'a [&'a str]) -> &'a str {
    xs[rng.below(xs.len())]
}

const DELIMS: [&str; 39] = [
    ":", ":=", "'", "-", ";", "(", ")", "+", ".", "&", ",", "=", "=>", "<", "<=", "<>", "<<", ">", ">=", ">>", "/",
    "/=", "*", "**", "?", "??", "?=", "?/=", "?<", "?<=", "?>", "?>=", "^", "@", "|", "[", "]", "`", "?/",
];
const LATIN: [char; 14] = ['a', 'Z', '0', ' ', '_', 'é', 'ÿ', 'À', '×', '÷', 'ß', 'Þ', '\u{a0}', '~'];
const ANYC: [char; 15] = [
    'a', 'b', ' ', '€', '😀', '𝔘', 'é', '\t', '*', '/', '-', '\u{2028}', '\u{feff}', '\u{2029}', '\u{85}',
];
/// characters some tools treat as invisible, as white space or as line breaks: none of them is a line break or
/// a blank for the front end, each is one character of the client's text
const SPECIALS: [char; 10] = [
    '\u{feff}', '\u{2028}', '\u{2029}', '\u{85}', '\u{c}', '\u{b}', '\u{0}', '\u{fffe}', '\u{200b}', '\u{a0}',
];
const NUMS: [&str; 64] = [
    "0", "7", "12_000", "1e3", "1E+3", "2e-0", "1e-1", "18446744073709551615", "18446744073709551616", "1e19", "1e20",
    "0e25", "1.5", "1.5e-3", "1_0.2_5E+10", "1.", "1.a", "1.5.3", "1g.5", "16#FF#", "2#1010_1010#", "8#77#E1", "16#F.F#",
    "16#F.F#e-1", "2#1#e64", "2#1#e63", "17#1#", "1#0#", "2#3#", "16#FG#", "16#FF", "2#1#e-1", "1e2147483648",
    "1e-2147483648", "1e-2147483649", "1__2", "1_", "3ux", "1ab.5", "9z", "16#f#E", "1.5e", "10#1.0#e-2", "2#1.1",
    "16:FF:", "2:1:E3", "16:F.8:", "16:FF", "16:= 3", "16: x", "16:_a", "16:FF#", "16#FF:", "2:1:e-1", "10:1.0:e-2", "16:", "1:a", "16:g:", "17:1:", "2:1:e64", "16:F.F:E+1", "8:7:=", "2:1", "16:é:",
];
const BITS: [&str; 18] = [
    "x\"AB\"", "B\"1_0\"", "12sb\"01\"", "ux\"f\"", "d\"12\"", "4294967297x\"1\"", "o\"7", "1x", "1ux\"0\"", "12s\"0\"",
    "x\"é\"", "SX\"F\"\"F\"", "b\"\"", "2b\"1\n0\"", "x\"€\"", "1e3x\"0\"", "uX\"0\"", "0d\"9\"",
];
const IDENTS: [&str; 22] = [
    "a", "x", "b", "o", "d", "ub", "sx", "u", "s", "xyz", "bit", "Foo_Bar1", "a__b", "a_", "_a", "_", "e", "E1", "x1", "sb",
    "A_B_C", "zz9",
];
const PRAGMAS: [&str; 8] = [
    "-- vhdl_ls off", "-- vhdl_ls on", "--vhdl_ls off", "--  vhdl_ls on  ", "/* vhdl_ls off */", "/*vhdl_ls on*/",
    "-- vhdl_ls off\n-- vhdl_ls on", "--\u{a0}vhdl_ls off\u{2003}",
];
const JUNK: [&str; 16] = [
    "$", "~", "{", "}", "%", "!", "\u{a0}", "\u{c}", "\u{b}", "\u{0}", "\u{7f}", "€", "😀", "𝔘", "\u{85}", "\u{ff}",
];

fn rand_case_mix(rng: &mut Rng, s: &str) -> String {
    s.chars()
        .map(|c| if rng.chance(1, 2) { c.to_ascii_uppercase() } else { c.to_ascii_lowercase() })
        .collect()
}

fn gen_quoted(rng: &mut Rng, q: char, allow_bad: bool) -> String {
    let mut s = String::new();
    s.push(q);
    let n = rng.below(7);
    for _ in 0..n {
        match rng.below(12) {
            0 => {
                s.push(q);
                s.push(q);
            }
            1 if allow_bad => s.push(*rng.pick(&ANYC)),
            2 if allow_bad && rng.chance(1, 3) => s.push('\n'),
            _ => s.push(*rng.pick(&LATIN)),
        }
    }
    if !(allow_bad && rng.chance(1, 8)) {
        s.push(q);
    }
    s
}

fn gen_lexeme(rng: &mut Rng, kwnames: &[String], dirty: bool) -> String {
    match rng.below(if dirty { 13 } else { 9 }) {
        0 => {
            if rng.chance(1, 2) {
                pick_str(rng, &IDENTS).to_string()
            } else {
                let mut s = String::new();
                let n = 1 + rng.below(6);
                for i in 0..n {
                    let c = if i == 0 {
                        (b'a' + rng.below(26) as u8) as char
                    } else {
                        *rng.pick(&['a', 'b', 'x', 'z', 'Q', '0', '9', '_', 'e', 's'])
                    };
                    s.push(c);
                }
                s
            }
        }
        1 => {
            let k = &kwnames[rng.below(kwnames.len())];
            rand_case_mix(rng, k)
        }
        2 | 3 => DELIMS[rng.below(if dirty { DELIMS.len() } else { DELIMS.len() - 2 })].to_string(),
        4 => {
            if dirty {
                pick_str(rng, &NUMS).to_string()
            } else {
                pick_str(rng, &["0", "7", "12_000", "1e3", "1.5", "1.5e-3", "16#FF#", "2#1010_1010#", "8#77#E1", "16#F.F#", "16:FF:", "2:1:E3", "16:F.8:"])
                    .to_string()
            }
        }
        5 => {
            if dirty {
                pick_str(rng, &BITS).to_string()
            } else {
                pick_str(rng, &["x\"AB\"", "B\"1_0\"", "12sb\"01\"", "ux\"f\"", "d\"12\"", "x\"é\""]).to_string()
            }
        }
        6 => gen_quoted(rng, '"', dirty),
        7 => gen_quoted(rng, '\\', dirty),
        8 => {
            let c = *rng.pick(&LATIN);
            match rng.below(6) {
                0 => "'''".to_string(),
                1 => "'\"'".to_string(),
                _ => format!("'{}'", c),
            }
        }
        9 => pick_str(rng, &JUNK).to_string(),
        10 => format!("`{}", pick_str(rng, &["protect begin", "if x", " ", "", "x €", "\"s\" y", "Protect_1 é"])),
        11 => pick_str(rng, &PRAGMAS).to_string(),
        _ => {
            let c = *rng.pick(&ANYC);
            format!("{}{}", pick_str(rng, &["x", "b", "ub", "sx", "d", "o", "abc", "1", "\"a\"", "'", ")"]), c)
        }
    }
}

fn gen_gap(rng: &mut Rng, may_be_empty: bool) -> String {
    let mut gap = String::new();
    let pieces = if may_be_empty { rng.below(3) } else { 1 + rng.below(3) };
    const NL: [&str; 3] = ["\n", "\r\n", "\r"];
    for _ in 0..pieces {
        match rng.below(8) {
            0 | 1 => gap.push(' '),
            2 => gap.push('\t'),
            3 => gap.push_str(pick_str(rng, &NL)),
            4 => {
                gap.push_str(" --");
                for _ in 0..rng.below(6) {
                    gap.push(*rng.pick(&ANYC));
                }
                gap.push_str(pick_str(rng, &NL));
            }
            5 => {
                gap.push_str("/*");
                for _ in 0..rng.below(6) {
                    gap.push(*rng.pick(&ANYC));
                }
                if rng.chance(1, 2) {
                    gap.push_str(pick_str(rng, &NL));
                }
                if !rng.chance(1, 40) {
                    gap.push_str("*/");
                }
            }
            _ => gap.push(' '),
        }
    }
    if !may_be_empty && !gap.contains(|c: char| c == ' ' || c == '\t' || c == '\n' || c == '\r') && !gap.ends_with("*/") {
        gap.push(' ');
    }
    gap
}

fn gen_soup(rng: &mut Rng, kwnames: &[String], dirty: bool) -> String {
    let n = 1 + rng.below(9);
    let mut text = String::new();
    if rng.chance(1, 4) {
        text.push_str(&gen_gap(rng, true));
    }
    for i in 0..n {
        if i > 0 {
            let tight = dirty && rng.chance(1, 3);
            text.push_str(&gen_gap(rng, tight));
        }
        text.push_str(&gen_lexeme(rng, kwnames, dirty));
    }
    if rng.chance(1, 3) {
        text.push_str(&gen_gap(rng, true));
    }
    text
}

/// one text in eight starts with (or gets somewhere) a character of SPECIALS
fn with_special(rng: &mut Rng, s: String) -> String {
    match rng.below(16) {
        0 => format!("{}{}", rng.pick(&SPECIALS), s),
        1 => {
            let cs: Vec<char> = s.chars().collect();
            let at = rng.below(cs.len() + 1);
            let mut out: String = cs[..at].iter().collect();
            out.push(*rng.pick(&SPECIALS));
            out.extend(cs[at..].iter());
            out
        }
        _ => s,
    }
}

/// the final text of an edit history whose inserted text is `text`
fn with_keep(start: u8, order: u8, text: &[char]) -> Vec<char> {
    let keep: Vec<char> = KEEP_PREFIX.chars().collect();
    if start < 2 {
        text.to_vec()
    } else if order == 1 {
        [text, &keep[..]].concat()
    } else {
        [&keep[..], text].concat()
    }
}

/// the text of a `U` case, reached through an edit history instead
fn as_edits(rng: &mut Rng, c: Case) -> Case {
    match c {
        Case::Utf(text) => {
            let k = rng.below(4);
            let mut cuts: Vec<usize> = (0..k).map(|_| rng.below(text.len() + 1)).collect();
            cuts.sort();
            let (start, order) = (rng.below(3) as u8, rng.below(3) as u8);
            Case::Edits { start, order, cuts, text: with_keep(start, order, &text) }
        }
        c => c,
    }
}

fn gen_random(rng: &mut Rng, kwnames: &[String]) -> Case {
    let c = gen_random0(rng, kwnames);
    if rng.chance(1, 8) {
        as_edits(rng, c)
    } else {
        c
    }
}

fn gen_random0(rng: &mut Rng, kwnames: &[String]) -> Case {
    match rng.below(10) {
        0..=2 => {
            let t = gen_soup(rng, kwnames, false);
            Case::Utf(with_special(rng, t).chars().collect())
        }
        3..=6 => {
            let t = gen_soup(rng, kwnames, true);
            Case::Utf(with_special(rng, t).chars().collect())
        }
        7 => {
            // random characters over a large alphabet
            const A: [char; 40] = [
                'a', 'x', 'b', 'u', 's', 'o', 'd', 'e', 'E', 'g', '0', '1', '9', '_', '"', '\'', '\\', '#', '.', '-', '/', '*',
                ' ', '\t', '\n', '\r', '€', '😀', 'é', '?', '=', '<', '>', ':', '`', '(', ')', ';', '+', '\u{a0}',
            ];
            let n = rng.below(14);
            Case::Utf((0..n).map(|_| *rng.pick(&A)).collect())
        }
        8 => {
            // Latin-1 file: a Latin-1 soup, with a few random bytes
            let dirty = rng.chance(1, 2);
            let s = gen_soup(rng, kwnames, dirty);
            let mut bytes: Vec<u8> = s.chars().map(|c| if (c as u32) < 256 { c as u32 as u8 } else { 0xA4 }).collect();
            for _ in 0..rng.below(3) {
                let b = rng.below(256) as u8;
                let at = rng.below(bytes.len() + 1);
                bytes.insert(at, b);
            }
            Case::Latin1File(bytes)
        }
        _ => {
            // raw bytes
            let n = rng.below(12);
            Case::Latin1File(
                (0..n)
                    .map(|_| match rng.below(4) {
                        0 => rng.below(256) as u8,
                        1 => *rng.pick(&[b'\n', b'\r', b' ', b'"', b'\'', b'-', b'\\']),
                        _ => 32 + rng.below(95) as u8,
                    })
                    .collect(),
            )
        }
    }
}

fn keyword_names() -> (Vec<Kind>, Vec<String>) {
    let kws: Vec<Kind> = VHDLStandard::default().keywords().to_vec();
    let names = kws.iter().map(|k| kind_str(*k).to_string()).collect();
    (kws, names)
}

fn main() {
    let args: Vec<String> = std::env::args().collect();
    if args.len() >= 2 && args[1] == "keywords" {
        let (_, names) = keyword_names();
        for n in names {
            println!("{}", n);
        }
        return;
    }
    let mode = args[1].clone();
    let seed: u64 = args[2].parse().unwrap();
    let n: usize = args[3].parse().unwrap();
    let mut cases_out = std::io::BufWriter::new(std::fs::File::create(&args[4]).unwrap());
    let mut impl_out = std::io::BufWriter::new(std::fs::File::create(&args[5]).unwrap());
    let tmpdir = PathBuf::from(&args[6]);
    std::fs::create_dir_all(&tmpdir).unwrap();
    let tmpfile = tmpdir.join("latin1_case.vhd");
    std::panic::set_hook(Box::new(|_| {}));

    // worker thread: the implementation runs here, the main thread is the watchdog
    let (tx_case, rx_case) = mpsc::channel::<Case>();
    let (tx_res, rx_res) = mpsc::channel::<String>();
    std::thread::Builder::new()
        .stack_size(256 << 20)
        .spawn(move || {
            let symbols = Symbols::default();
            let (kws, _) = keyword_names();
            for case in rx_case {
                let r = run_case(&symbols, &kws, &case, &tmpfile);
                if tx_res.send(r).is_err() {
                    break;
                }
            }
        })
        .unwrap();

    let mut emit = |case: Case| {
        writeln!(cases_out, "{}", case_line(&case)).unwrap();
        cases_out.flush().unwrap();
        tx_case.send(case).unwrap();
        match rx_res.recv_timeout(Duration::from_secs(WATCHDOG_SECS)) {
            Ok(r) => writeln!(impl_out, "{}", r).unwrap(),
            Err(_) => {
                writeln!(impl_out, "||HANG:watchdog ({} s without an answer)", WATCHDOG_SECS).unwrap();
                impl_out.flush().unwrap();
                std::process::exit(3);
            }
        }
    };

    let (_, kwnames) = keyword_names();
    if let Some(k) = mode.strip_prefix("exhaustive") {
        let k: usize = k.parse().unwrap();
        let mut frontier: Vec<Vec<char>> = vec![vec![]];
        emit(Case::Utf(vec![]));
        for _ in 0..k {
            let mut next = Vec::with_capacity(frontier.len() * EXH_ALPHA.len());
            for s in &frontier {
                for c in EXH_ALPHA.iter() {
                    let mut t = s.clone();
                    t.push(*c);
                    emit(Case::Utf(t.clone()));
                    next.push(t);
                }
            }
            frontier = next;
        }
    } else if mode == "random" {
        // fork: the streams of Rng::new(s) and Rng::new(s+1) are shifted copies of each other
        let mut rng = Rng::new(seed).fork();
        for _ in 0..n {
            let c = gen_random(&mut rng, &kwnames);
            emit(c);
        }
    } else if mode == "edits" {
        // systematic: texts with Latin-1 / 3-byte / 4-byte characters and all line endings, every start kind,
        // every order, every single cut and a few double cuts
        const TEXTS: [&str; 14] = [
            "-- \u{a9} M\u{fc}ller\nentity e is end;",
            "-- \u{2026}\nentity e is end;",
            "x <= \"5 \u{b5}s\" & '\u{e9}';\r\ny",
            "-- \u{2019}\r\nentity e is end; -- \u{20ac}\rz",
            "a \u{1f600} b\n/* \u{1d518}\n */ c",
            "\\\u{e9}t\u{e9}\\ <= x\"AB\";\n16#FF#",
            "\u{feff}entity e is\nend;",
            "a\r\n\r\nb\r\rc\n",
            "\u{e9}",
            "\u{2026}\n",
            "s := \"\u{df}\"\"\u{ff}\";",
            "-- \u{e9}\u{2026}\u{1f600}\n'\u{e9}' '\u{d7}'",
            "entity e is end;\n",
            "x\u{20ac}\ny",
        ];
        for t in TEXTS.iter() {
            let text: Vec<char> = t.chars().collect();
            for start in 0..3u8 {
                for order in 0..3u8 {
                    emit(Case::Edits { start, order, cuts: vec![], text: with_keep(start, order, &text) });
                    for c in 1..text.len() {
                        emit(Case::Edits { start, order, cuts: vec![c], text: with_keep(start, order, &text) });
                    }
                    if text.len() >= 6 {
                        for (a, b) in [(1, 3), (2, text.len() - 2), (text.len() / 2, text.len() / 2 + 1)] {
                            emit(Case::Edits { start, order, cuts: vec![a, b], text: with_keep(start, order, &text) });
                        }
                    }
                }
            }
        }
    } else if mode == "borders" || mode == "borders_thorough" {
        // files on disk around the borders of 4 KiB .. 64 KiB blocks; n > 0: the files up to 16 KiB are emitted
        // as `L` cases (bytes spelled out, compared with the model), the others as `B` descriptors
        let thorough = mode == "borders_thorough";
        let borders: &[usize] = if thorough {
            &[4096, 8192, 16384, 32768, 65536, 131072, 196608, 262144]
        } else {
            &[4096, 8192, 65536, 131072]
        };
        for &border in borders {
            for eol in [2u8, 0, 1] {
                for delta in -8i64..=8 {
                    if !thorough && eol != 2 && delta.abs() > 1 {
                        continue;
                    }
                    for hi in [false, true] {
                        if hi && (delta.abs() > 1 || (!thorough && eol != 2)) {
                            continue;
                        }
                        let spelled = border <= 8192 || (eol == 2 && delta == 0 && !hi && border <= 131072);
                        if spelled {
                            emit(Case::Latin1File(border_file(border, delta, eol, hi)));
                        } else {
                            emit(Case::Border { border, delta, eol, hi });
                        }
                    }
                }
            }
        }
    } else if let Some(path) = mode.strip_prefix("file:") {
        for line in std::fs::read_to_string(path).unwrap().lines() {
            if line.trim().is_empty() || line.starts_with('#') {
                continue;
            }
            if let Some(c) = parse_case(line) {
                emit(c);
            }
        }
    }
    impl_out.flush().unwrap();
}
