//! C07 harness (probe stage)
use std::io::BufRead;
use std::path::Path;
use vhdl_lang::{Config, NullMessages, Position, Project, Severity, SeverityMap};

fn probe(args: &[String]) {
    let dir = &args[0];
    let files = &args[1..];
    let mut msgs = NullMessages;
    let mut cfg = Config::default();
    cfg.load_external_config(&mut msgs, Some("/repo/vhdl_libraries".to_string()));
    let toml = format!(
        "[libraries]\nlib.files=[{}]\n",
        files.iter().map(|n| format!("'{}'", n)).collect::<Vec<_>>().join(",")
    );
    cfg.append(&Config::from_str(&toml, Path::new(dir)).unwrap(), &mut msgs);
    let mut p = Project::from_config(cfg, &mut msgs);
    let diags = p.analyse();
    let sm = SeverityMap::default();
    for line in std::io::stdin().lock().lines() {
        let line = line.unwrap();
        let f: Vec<&str> = line.split(' ').collect();
        if f.len() < 3 {
            continue;
        }
        let src = p.get_source(&Path::new(dir).join(f[0])).unwrap();
        let cur = Position::new(f[1].parse().unwrap(), f[2].parse().unwrap());
        match p.find_declaration(&src, cur).and_then(|e| e.decl_pos().cloned()) {
            Some(d) => println!(
                "Q {} {} {} -> {} {} {}",
                f[0],
                f[1],
                f[2],
                d.source.file_name().file_name().unwrap().to_string_lossy(),
                d.range.start.line,
                d.range.start.character
            ),
            None => println!("Q {} {} {} -> NONE", f[0], f[1], f[2]),
        }
    }
    for d in diags {
        if sm[d.code] == Some(Severity::Error) {
            println!(
                "D {} {} {} {:?} {}",
                d.pos.source.file_name().file_name().unwrap().to_string_lossy(),
                d.pos.range.start.line,
                d.pos.range.start.character,
                d.code,
                d.message
            );
        }
    }
}

fn main() {
    let args: Vec<String> = std::env::args().skip(1).collect();
    if args[0] == "probe" {
        probe(&args[1..]);
    }
}
