//! C07 harness: names and overloaded calls resolve as the VHDL visibility rules dictate.
//!
//! usage: c07 <mode> <seed> <n> <workdir> <cases_out> <impl_out>
//!   mode = random | deep | file:<path> ; c07 probe <dir> <file>...  (stdin: `file line col` queries)
//!
//! cases_out: one abstract program per line (parsed by ocaml/c07_run.ml and by `parse_program` below):
//!   program := unit ('|' unit)*
//!   unit    := uid ',' ('P' package | 'E' entity | 'C' context declaration (its clauses are the body items) | 'S'<uid of the primary>) ',' ctx-items ',' body-items ',' lib
//!   items   := item (' ' item)*
//!   item    := 'D'ent | 'A'<pkg> (use pkg.all) | 'N'<pkg>':'<des> (use pkg.des) | 'S'<sid>':'<des>':'usage
//!            | 'K'<ctx> context reference | 'Oi'/'Oe'/'Ol' if-generate branch (if / elsif / else) | 'Oc'/'Ow' case-generate alternative
//!            | 'Of' for generate (next item = its parameter) | 'Ob' block | 'Op' process | 'F'ent'~'ent (function body f, parameter) | 'C' close
//!   ent     := id ':' des ':' kind ['@' id of the declaration this body completes]
//!   kind    := 'O'ty constant | 'F'ty'/'ty function(param, result) | 'L'ty literal | 'T'ty('/'id'.'des)* type
//!   usage   := 'v'ty value expected | 'c'('u' | ty)'/'ty call(actual, result) | 't' type mark
//!            | 'xn'<sid>'.'<des>'/'ty call whose actual is the name des (use site sid) | 'xc'<sid>'.'<des>'.'('u' | ty)'/'ty actual is a nested call
//!   ty      := 'i'<n> integer types (i0 = INTEGER) | 'o'<n> other types (o0 = BOOLEAN, o1 = CHARACTER)
//!   des     := 0..7 identifiers v<n> | 9 identifier x | 10..17 identifiers t<n> | 20 "-" | 21 "+" | 30 'a' | 31 'b'
//!              | >= 100 identifiers z<n> (one reserved literal per enumeration type)
//! impl_out: per program `site site ... ; extra` with site = sid:target:class:codes where
//!   target = declaration id | EXT (declared outside the program, e.g. in std) | - (find_declaration = None)
//!            | POS<file>.<line>.<col> (a position that is no declaration of the program)
//!   class  = OK | CONFLICT | UNDECL | ERROR  (error diagnostics on the line of the site)
//!   extra  = error diagnostics on lines without a use site (`file.line.code`), `PANIC` if analysis panicked.
use std::collections::HashMap;
use std::fmt::Write as _;
use std::io::{BufRead, Write as _};
use std::panic::{catch_unwind, AssertUnwindSafe};
use std::path::{Path, PathBuf};
use verif_harness::rng::Rng;
use vhdl_lang::{Config, NullMessages, Position, Project, Severity, SeverityMap};

// ------------------------------------------------------------------------------------------------
// abstract programs
// ------------------------------------------------------------------------------------------------
#[derive(Clone, Copy, PartialEq, Eq, Hash, Debug)]
enum Ty {
    Int(u32),
    Oth(u32),
}
const T_INTEGER: Ty = Ty::Int(0);
const T_BOOLEAN: Ty = Ty::Oth(0);

#[derive(Clone, PartialEq, Debug)]
enum Kind {
    Obj(Ty),
    Func(Ty, Ty),
    Lit(Ty),
    Type(Ty, Vec<(u32, u32)>),
}
#[derive(Clone, PartialEq, Debug)]
struct Ent {
    id: u32,
    des: u32,
    kind: Kind,
    declby: Option<u32>,
}
#[derive(Clone, Copy, PartialEq, Debug)]
enum Arg {
    Univ,
    Ty(Ty),
}
#[derive(Clone, Copy, PartialEq, Debug)]
enum XArg {
    Name(u32, u32),
    Call(u32, u32, Arg),
}
#[derive(Clone, Copy, PartialEq, Debug)]
enum Usage {
    Val(Ty),
    Call(Arg, Ty),
    Type,
    CallX(XArg, Ty),
}
#[derive(Clone, PartialEq, Debug)]
enum Item {
    Decl(Ent),
    UseAll(u32),
    UseName(u32, u32),
    Site(u32, u32, Usage),
    OpenBlock,
    OpenProcess,
    /// a declarative region of a generate statement: b'i' first branch of an if generate, b'e' elsif branch,
    /// b'l' else branch, b'c' first alternative of a case generate, b'w' further alternative, b'f' for generate
    /// (the next item declares the generate parameter)
    OpenGen(u8),
    /// context reference `context lib.c<uid>;`
    UseCtx(u32),
    OpenFun(Ent, Ent),
    Close,
}
#[derive(Clone, Copy, PartialEq, Debug)]
enum UKind {
    Package,
    Entity,
    Context,
    Secondary(u32),
}
#[derive(Clone, Debug)]
struct Unit {
    uid: u32,
    kind: UKind,
    ctx: Vec<Item>,
    body: Vec<Item>,
    lib: u32,
}
type Program = Vec<Unit>;

fn ser_ty(t: Ty) -> String {
    match t {
        Ty::Int(n) => format!("i{n}"),
        Ty::Oth(n) => format!("o{n}"),
    }
}
fn ser_ent(e: &Ent) -> String {
    let k = match &e.kind {
        Kind::Obj(t) => format!("O{}", ser_ty(*t)),
        Kind::Func(p, r) => format!("F{}/{}", ser_ty(*p), ser_ty(*r)),
        Kind::Lit(t) => format!("L{}", ser_ty(*t)),
        Kind::Type(t, lits) => {
            let mut s = format!("T{}", ser_ty(*t));
            for (i, d) in lits {
                write!(s, "/{i}.{d}").unwrap();
            }
            s
        }
    };
    match e.declby {
        Some(b) => format!("{}:{}:{}@{}", e.id, e.des, k, b),
        None => format!("{}:{}:{}", e.id, e.des, k),
    }
}
fn ser_item(it: &Item) -> String {
    match it {
        Item::Decl(e) => format!("D{}", ser_ent(e)),
        Item::UseAll(p) => format!("A{p}"),
        Item::UseName(p, d) => format!("N{p}:{d}"),
        Item::Site(s, d, u) => {
            let us = match u {
                Usage::Val(t) => format!("v{}", ser_ty(*t)),
                Usage::Call(a, t) => format!(
                    "c{}/{}",
                    match a {
                        Arg::Univ => "u".to_string(),
                        Arg::Ty(x) => ser_ty(*x),
                    },
                    ser_ty(*t)
                ),
                Usage::Type => "t".to_string(),
                Usage::CallX(XArg::Name(i, dd), t) => format!("xn{}.{}/{}", i, dd, ser_ty(*t)),
                Usage::CallX(XArg::Call(i, dd, a), t) => format!(
                    "xc{}.{}.{}/{}",
                    i,
                    dd,
                    match a {
                        Arg::Univ => "u".to_string(),
                        Arg::Ty(x) => ser_ty(*x),
                    },
                    ser_ty(*t)
                ),
            };
            format!("S{s}:{d}:{us}")
        }
        Item::OpenBlock => "Ob".to_string(),
        Item::OpenProcess => "Op".to_string(),
        Item::OpenGen(k) => format!("O{}", *k as char),
        Item::UseCtx(c) => format!("K{c}"),
        Item::OpenFun(f, p) => format!("F{}~{}", ser_ent(f), ser_ent(p)),
        Item::Close => "C".to_string(),
    }
}
fn ser_items(v: &[Item]) -> String {
    v.iter().map(ser_item).collect::<Vec<_>>().join(" ")
}
fn ser_program(p: &Program) -> String {
    p.iter()
        .map(|u| {
            let k = match u.kind {
                UKind::Package => "P".to_string(),
                UKind::Entity => "E".to_string(),
                UKind::Context => "C".to_string(),
                UKind::Secondary(q) => format!("S{q}"),
            };
            format!("{},{},{},{},{}", u.uid, k, ser_items(&u.ctx), ser_items(&u.body), u.lib)
        })
        .collect::<Vec<_>>()
        .join("|")
}

fn parse_ty(s: &str) -> Result<Ty, String> {
    let n: u32 = s.get(1..).ok_or("ty")?.parse().map_err(|_| format!("bad type {s}"))?;
    match s.as_bytes()[0] {
        b'i' => Ok(Ty::Int(n)),
        b'o' => Ok(Ty::Oth(n)),
        _ => Err(format!("bad type {s}")),
    }
}
fn parse_ent(s: &str) -> Result<Ent, String> {
    let f: Vec<&str> = s.split(':').collect();
    if f.len() != 3 {
        return Err(format!("bad ent {s}"));
    }
    let (k, declby) = match f[2].split_once('@') {
        Some((k, b)) => (k, Some(b.parse::<u32>().map_err(|_| "declby")?)),
        None => (f[2], None),
    };
    if k.is_empty() {
        return Err("empty kind".into());
    }
    let body = &k[1..];
    let kind = match k.as_bytes()[0] {
        b'O' => Kind::Obj(parse_ty(body)?),
        b'L' => Kind::Lit(parse_ty(body)?),
        b'F' => {
            let (p, r) = body.split_once('/').ok_or("F")?;
            Kind::Func(parse_ty(p)?, parse_ty(r)?)
        }
        b'T' => {
            let mut parts = body.split('/');
            let t = parse_ty(parts.next().ok_or("T")?)?;
            let mut lits = vec![];
            for l in parts {
                let (i, d) = l.split_once('.').ok_or("lit")?;
                lits.push((i.parse().map_err(|_| "lit id")?, d.parse().map_err(|_| "lit des")?));
            }
            Kind::Type(t, lits)
        }
        _ => return Err(format!("bad kind {k}")),
    };
    Ok(Ent {
        id: f[0].parse().map_err(|_| "id")?,
        des: f[1].parse().map_err(|_| "des")?,
        kind,
        declby,
    })
}
fn parse_item(s: &str) -> Result<Item, String> {
    let body = &s[1..];
    Ok(match s.as_bytes()[0] {
        b'D' => Item::Decl(parse_ent(body)?),
        b'A' => Item::UseAll(body.parse().map_err(|_| "A")?),
        b'N' => {
            let (p, d) = body.split_once(':').ok_or("N")?;
            Item::UseName(p.parse().map_err(|_| "N")?, d.parse().map_err(|_| "N")?)
        }
        b'S' => {
            let f: Vec<&str> = body.split(':').collect();
            if f.len() != 3 || f[2].is_empty() {
                return Err(format!("bad site {s}"));
            }
            let u = match f[2].as_bytes()[0] {
                b'v' => Usage::Val(parse_ty(&f[2][1..])?),
                b't' => Usage::Type,
                b'c' => {
                    let (a, t) = f[2][1..].split_once('/').ok_or("c")?;
                    Usage::Call(if a == "u" { Arg::Univ } else { Arg::Ty(parse_ty(a)?) }, parse_ty(t)?)
                }
                b'x' => {
                    let (x, t) = f[2][2..].split_once('/').ok_or("x")?;
                    let g: Vec<&str> = x.split('.').collect();
                    let t = parse_ty(t)?;
                    match (f[2].as_bytes()[1], g.len()) {
                        (b'n', 2) => Usage::CallX(XArg::Name(g[0].parse().map_err(|_| "x")?, g[1].parse().map_err(|_| "x")?), t),
                        (b'c', 3) => Usage::CallX(
                            XArg::Call(
                                g[0].parse().map_err(|_| "x")?,
                                g[1].parse().map_err(|_| "x")?,
                                if g[2] == "u" { Arg::Univ } else { Arg::Ty(parse_ty(g[2])?) },
                            ),
                            t,
                        ),
                        _ => return Err(format!("bad usage {s}")),
                    }
                }
                _ => return Err(format!("bad usage {s}")),
            };
            Item::Site(f[0].parse().map_err(|_| "sid")?, f[1].parse().map_err(|_| "sdes")?, u)
        }
        b'O' => match body {
            "p" => Item::OpenProcess,
            "i" | "e" | "l" | "c" | "w" | "f" => Item::OpenGen(body.as_bytes()[0]),
            _ => Item::OpenBlock,
        },
        b'K' => Item::UseCtx(body.parse().map_err(|_| "K")?),
        b'C' => Item::Close,
        b'F' => {
            let (f, p) = body.split_once('~').ok_or("F")?;
            Item::OpenFun(parse_ent(f)?, parse_ent(p)?)
        }
        _ => return Err(format!("bad item {s}")),
    })
}
fn parse_items(s: &str) -> Result<Vec<Item>, String> {
    s.split(' ').filter(|x| !x.is_empty()).map(parse_item).collect()
}
fn parse_program(s: &str) -> Result<Program, String> {
    let mut p = vec![];
    for u in s.split('|') {
        let f: Vec<&str> = u.split(',').collect();
        if f.len() < 4 || f[1].is_empty() {
            return Err(format!("bad unit {u}"));
        }
        let kind = match f[1].as_bytes()[0] {
            b'P' => UKind::Package,
            b'E' => UKind::Entity,
            b'C' => UKind::Context,
            b'S' => UKind::Secondary(f[1][1..].parse().map_err(|_| "S")?),
            _ => return Err(format!("bad unit kind {u}")),
        };
        p.push(Unit {
            uid: f[0].parse().map_err(|_| "uid")?,
            kind,
            ctx: parse_items(f[2])?,
            body: parse_items(f[3])?,
            lib: if f.len() > 4 { f[4].parse().map_err(|_| "lib")? } else { 0 },
        });
    }
    Ok(p)
}

// ------------------------------------------------------------------------------------------------
// rendering to VHDL
// ------------------------------------------------------------------------------------------------
struct TypeInfo {
    pkg: u32,
    name: u32,
    lits: Vec<(u32, u32)>,
}
fn collect_types(p: &Program) -> HashMap<Ty, TypeInfo> {
    let mut m = HashMap::new();
    for u in p {
        for it in u.body.iter() {
            if let Item::Decl(Ent { des, kind: Kind::Type(t, lits), .. }) = it {
                m.insert(*t, TypeInfo { pkg: u.uid, name: *des, lits: lits.clone() });
            }
        }
    }
    m
}
fn desig(d: u32) -> String {
    match d {
        0..=8 => format!("v{d}"),
        9 => "x".to_string(),
        10..=19 => format!("t{}", d - 10),
        20 => "\"-\"".to_string(),
        21 => "\"+\"".to_string(),
        30 => "'a'".to_string(),
        31 => "'b'".to_string(),
        _ => format!("z{d}"),
    }
}
fn is_op(d: u32) -> bool {
    (20..30).contains(&d)
}
fn op_symbol(d: u32) -> &'static str {
    if d == 20 {
        "-"
    } else {
        "+"
    }
}

struct Rendered {
    /// (library index, file text) — one file per library
    files: Vec<(u32, String)>,
    /// (file index, line, col) of a declaration -> id
    decls: HashMap<(usize, u32, u32), u32>,
    /// sid -> (file index, line, col)
    sites: Vec<(u32, usize, u32, u32)>,
}

struct Renderer<'a> {
    prog: &'a Program,
    types: HashMap<Ty, TypeInfo>,
    libname: Box<dyn Fn(u32) -> String + 'a>,
    lines: Vec<Vec<String>>, // per library
    decls: HashMap<(usize, u32, u32), u32>,
    sites: Vec<(u32, usize, u32, u32)>,
    libs: Vec<u32>,
    counter: u32,
}
#[derive(PartialEq, Clone, Copy)]
enum RK {
    Pkg,
    PkgBody,
    Entity,
    Arch,
    Block,
    Process,
    Func(Ty),
    /// branch of an if / case generate (b'i' | b'c') or a for generate (b'f')
    Gen(u8),
    Ctx,
}
impl<'a> Renderer<'a> {
    fn unit_lib(&self, uid: u32) -> u32 {
        self.prog.iter().find(|u| u.uid == uid).map(|u| u.lib).unwrap_or(0)
    }
    fn libref(&self, pkg: u32, cur: &Unit) -> String {
        let l = self.unit_lib(pkg);
        if l == cur.lib && (pkg + cur.uid) % 2 == 0 && cur.kind != UKind::Context {
            "work".to_string()
        } else {
            (self.libname)(l)
        }
    }
    fn ctxlib(&self, c: u32, cur: &Unit) -> String {
        self.libref(c, cur)
    }
    fn type_mark(&self, t: Ty, cur: &Unit) -> String {
        match t {
            Ty::Int(0) => "integer".to_string(),
            Ty::Oth(0) => "boolean".to_string(),
            Ty::Oth(1) => "character".to_string(),
            Ty::Oth(2) => "real".to_string(),
            _ => match self.types.get(&t) {
                Some(ti) => format!("{}.p{}.{}", self.libref(ti.pkg, cur), ti.pkg, desig(ti.name)),
                None => "integer".to_string(),
            },
        }
    }
    /// an expression of type t that needs no family lookup
    fn value(&self, t: Ty, cur: &Unit) -> String {
        match t {
            Ty::Int(0) => "0".to_string(),
            Ty::Oth(0) => "true".to_string(),
            Ty::Oth(1) => "character'('c')".to_string(),
            Ty::Oth(2) => "0.0".to_string(),
            Ty::Int(_) => format!("{}'(1)", self.type_mark(t, cur)),
            Ty::Oth(_) => match self.types.get(&t) {
                Some(ti) => {
                    let z = ti.lits.iter().find(|(_, d)| *d >= 100).or(ti.lits.first());
                    match z {
                        Some((_, d)) => format!("{}.p{}.{}", self.libref(ti.pkg, cur), ti.pkg, desig(*d)),
                        None => "0".to_string(),
                    }
                }
                None => "0".to_string(),
            },
        }
    }
    fn arg(&self, a: Arg, cur: &Unit) -> String {
        match a {
            Arg::Univ => "1".to_string(),
            Arg::Ty(Ty::Int(0)) => "integer'(1)".to_string(),
            Arg::Ty(t) => self.value(t, cur),
        }
    }
    fn file_of(&mut self, lib: u32) -> usize {
        match self.libs.iter().position(|l| *l == lib) {
            Some(i) => i,
            None => {
                self.libs.push(lib);
                self.lines.push(vec![]);
                self.libs.len() - 1
            }
        }
    }
    fn emit(&mut self, f: usize, s: String) -> u32 {
        self.lines[f].push(s);
        (self.lines[f].len() - 1) as u32
    }
    fn items(&mut self, f: usize, cur: &Unit, top: RK, items: &[Item]) {
        let mut stack: Vec<(RK, bool)> = vec![(top, false)];
        let mut pending_lits: Vec<Ent> = vec![];
        let mut alt_no = 0u32;
        let mut pending_param: Option<u32> = None;
        for (idx, it) in items.iter().enumerate() {
            match it {
                Item::Decl(e) => match &e.kind {
                    Kind::Obj(_) if pending_param == Some(e.id) => {
                        // already rendered as the parameter of the for generate
                        pending_param = None;
                    }
                    Kind::Obj(t) => {
                        let text = format!("constant {} : {} := {};", desig(e.des), self.type_mark(*t, cur), self.value(*t, cur));
                        let l = self.emit(f, text);
                        self.decls.insert((f, l, 9), e.id);
                    }
                    Kind::Func(p, r) => {
                        let text = format!(
                            "function {}(x : {}) return {};",
                            desig(e.des),
                            self.type_mark(*p, cur),
                            self.type_mark(*r, cur)
                        );
                        let l = self.emit(f, text);
                        self.decls.insert((f, l, 9), e.id);
                    }
                    Kind::Lit(_) => pending_lits.push(e.clone()),
                    Kind::Type(t, lits) => {
                        let name = desig(e.des);
                        if lits.is_empty() {
                            let lo = if matches!(t, Ty::Int(_)) { "range 0 to 7" } else { "range 0.0 to 1.0" };
                            let l = self.emit(f, format!("type {name} is {lo};"));
                            self.decls.insert((f, l, 5), e.id);
                        } else {
                            let mut text = format!("type {name} is (");
                            let mut cols = vec![];
                            for (k, (_, d)) in lits.iter().enumerate() {
                                if k > 0 {
                                    text.push_str(", ");
                                }
                                cols.push(text.len() as u32);
                                text.push_str(&desig(*d));
                            }
                            text.push_str(");");
                            let l = self.emit(f, text);
                            self.decls.insert((f, l, 5), e.id);
                            for (k, (i, _)) in lits.iter().enumerate() {
                                self.decls.insert((f, l, cols[k]), *i);
                            }
                        }
                        pending_lits.clear();
                    }
                },
                Item::UseAll(p) => {
                    let text = format!("use {}.p{}.all;", self.libref(*p, cur), p);
                    self.emit(f, text);
                }
                Item::UseName(p, d) => {
                    let text = format!("use {}.p{}.{};", self.libref(*p, cur), p, desig(*d));
                    self.emit(f, text);
                }
                Item::Site(sid, d, u) => {
                    let (text, col) = match u {
                        Usage::Val(t) => {
                            let pre = format!("constant u{} : {} := ", sid, self.type_mark(*t, cur));
                            let c = pre.len() as u32;
                            (format!("{}{};", pre, desig(*d)), c)
                        }
                        Usage::Call(a, t) => {
                            let pre = format!("constant u{} : {} := ", sid, self.type_mark(*t, cur));
                            let c = pre.len() as u32;
                            if is_op(*d) {
                                (format!("{}{} {};", pre, op_symbol(*d), self.arg(*a, cur)), c)
                            } else {
                                (format!("{}{}({});", pre, desig(*d), self.arg(*a, cur)), c)
                            }
                        }
                        Usage::CallX(x, t) => {
                            let pre = format!("constant u{} : {} := ", sid, self.type_mark(*t, cur));
                            let c = pre.len() as u32;
                            let inner = match x {
                                XArg::Name(_, dd) => desig(*dd),
                                XArg::Call(_, dd, a) => format!("{}({})", desig(*dd), self.arg(*a, cur)),
                            };
                            (format!("{}{}({});", pre, desig(*d), inner), c)
                        }
                        Usage::Type => {
                            let pre = format!("subtype u{} is ", sid);
                            let c = pre.len() as u32;
                            (format!("{}{};", pre, desig(*d)), c)
                        }
                    };
                    let l = self.emit(f, text);
                    self.sites.push((*sid, f, l, col));
                    if let Usage::CallX(x, _) = u {
                        let inner_col = col + desig(*d).len() as u32 + 1;
                        let isid = match x {
                            XArg::Name(i, _) | XArg::Call(i, _, _) => *i,
                        };
                        self.sites.push((isid, f, l, inner_col));
                    }
                }
                Item::OpenBlock | Item::OpenProcess => {
                    if let Some(topf) = stack.last_mut() {
                        if !topf.1 {
                            topf.1 = true;
                            self.lines[f].push("begin".to_string());
                        }
                    }
                    self.counter += 1;
                    if *it == Item::OpenBlock {
                        self.emit(f, format!("b{} : block", self.counter));
                        stack.push((RK::Block, false));
                    } else {
                        self.emit(f, format!("pr{} : process", self.counter));
                        stack.push((RK::Process, false));
                    }
                }
                Item::OpenGen(k) => {
                    let k = *k;
                    if matches!(k, b'i' | b'c' | b'f') {
                        if let Some(topf) = stack.last_mut() {
                            if !topf.1 {
                                topf.1 = true;
                                self.lines[f].push("begin".to_string());
                            }
                        }
                        self.counter += 1;
                    }
                    match k {
                        b'i' => {
                            self.emit(f, format!("g{} : if true generate", self.counter));
                            stack.push((RK::Gen(b'i'), false));
                        }
                        b'e' => {
                            self.emit(f, "elsif true generate".to_string());
                            stack.push((RK::Gen(b'i'), false));
                        }
                        b'l' => {
                            self.emit(f, "else generate".to_string());
                            stack.push((RK::Gen(b'i'), false));
                        }
                        b'c' => {
                            self.emit(f, format!("g{} : case integer'(0) generate", self.counter));
                            self.emit(f, "when 0 =>".to_string());
                            alt_no = 0;
                            stack.push((RK::Gen(b'c'), false));
                        }
                        b'w' => {
                            alt_no += 1;
                            self.emit(f, format!("when {} =>", alt_no));
                            stack.push((RK::Gen(b'c'), false));
                        }
                        _ => {
                            // the parameter is the next item
                            let pname = match items.get(idx + 1) {
                                Some(Item::Decl(e)) => {
                                    pending_param = Some(e.id);
                                    desig(e.des)
                                }
                                _ => "gp".to_string(),
                            };
                            let pre = format!("g{} : for ", self.counter);
                            let col = pre.len() as u32;
                            let l = self.emit(f, format!("{}{} in 0 to 1 generate", pre, pname));
                            if let Some(id) = pending_param {
                                self.decls.insert((f, l, col), id);
                            }
                            stack.push((RK::Gen(b'f'), false));
                        }
                    }
                }
                Item::UseCtx(c) => {
                    let text = format!("context {}.c{};", self.ctxlib(*c, cur), c);
                    self.emit(f, text);
                }
                Item::OpenFun(fe, pe) => {
                    let (p, r) = match &fe.kind {
                        Kind::Func(p, r) => (*p, *r),
                        _ => (T_INTEGER, T_INTEGER),
                    };
                    let pre = format!("function {}(", desig(fe.des));
                    let pcol = pre.len() as u32;
                    let text = format!(
                        "{}{} : {}) return {} is",
                        pre,
                        desig(pe.des),
                        self.type_mark(p, cur),
                        self.type_mark(r, cur)
                    );
                    let l = self.emit(f, text);
                    // the body designates the same subprogram as the declaration it completes
                    self.decls.insert((f, l, 9), fe.declby.unwrap_or(fe.id));
                    self.decls.insert((f, l, pcol), pe.id);
                    stack.push((RK::Func(r), false));
                }
                Item::Close => {
                    if stack.len() > 1 {
                        let (k, begun) = stack.pop().unwrap();
                        self.close(f, cur, k, begun, items.get(idx + 1));
                    }
                }
            }
        }
        while stack.len() > 1 {
            let (k, begun) = stack.pop().unwrap();
            self.close(f, cur, k, begun, None);
        }
        let (k, begun) = stack.pop().unwrap();
        self.close(f, cur, k, begun, None);
    }
    fn close(&mut self, f: usize, cur: &Unit, k: RK, begun: bool, next: Option<&Item>) {
        match k {
            RK::Gen(g) => {
                if !begun {
                    self.emit(f, "begin".to_string());
                }
                let continues = match (g, next) {
                    (b'i', Some(Item::OpenGen(b'e'))) | (b'i', Some(Item::OpenGen(b'l'))) => true,
                    (b'c', Some(Item::OpenGen(b'w'))) => true,
                    _ => false,
                };
                if !continues {
                    self.emit(f, "end generate;".to_string());
                }
            }
            RK::Ctx => {
                self.emit(f, "end context;".to_string());
            }
            RK::Block => {
                if !begun {
                    self.emit(f, "begin".to_string());
                }
                self.emit(f, "end block;".to_string());
            }
            RK::Process => {
                self.emit(f, "begin".to_string());
                self.emit(f, "wait;".to_string());
                self.emit(f, "end process;".to_string());
            }
            RK::Func(r) => {
                self.emit(f, "begin".to_string());
                let v = self.value(r, cur);
                self.emit(f, format!("return {v};"));
                self.emit(f, "end function;".to_string());
            }
            RK::Pkg => {
                self.emit(f, "end package;".to_string());
            }
            RK::PkgBody => {
                self.emit(f, "end package body;".to_string());
            }
            RK::Entity => {
                self.emit(f, "end entity;".to_string());
            }
            RK::Arch => {
                if !begun {
                    self.emit(f, "begin".to_string());
                }
                self.emit(f, "end architecture;".to_string());
            }
        }
    }
    fn unit(&mut self, u: &Unit) {
        let f = self.file_of(u.lib);
        let mut libs: Vec<u32> = self.prog.iter().map(|x| x.lib).collect();
        libs.sort();
        libs.dedup();
        let names: Vec<String> = libs.iter().map(|l| (self.libname)(*l)).collect();
        if u.kind == UKind::Context {
            self.emit(f, format!("context c{} is", u.uid));
            self.emit(f, format!("library {};", names.join(", ")));
            self.items(f, u, RK::Ctx, &u.body);
            return;
        }
        self.emit(f, format!("library {};", names.join(", ")));
        let ctx = u.ctx.clone();
        for it in ctx.iter() {
            match it {
                Item::UseAll(p) => {
                    let text = format!("use {}.p{}.all;", self.libref(*p, u), p);
                    self.emit(f, text);
                }
                Item::UseName(p, d) => {
                    let text = format!("use {}.p{}.{};", self.libref(*p, u), p, desig(*d));
                    self.emit(f, text);
                }
                Item::UseCtx(c) => {
                    let text = format!("context {}.c{};", self.ctxlib(*c, u), c);
                    self.emit(f, text);
                }
                _ => {}
            }
        }
        let top = match u.kind {
            UKind::Context => RK::Ctx,
            UKind::Package => {
                self.emit(f, format!("package p{} is", u.uid));
                RK::Pkg
            }
            UKind::Entity => {
                self.emit(f, format!("entity e{} is", u.uid));
                RK::Entity
            }
            UKind::Secondary(q) => {
                let is_pkg = self.prog.iter().any(|x| x.uid == q && x.kind == UKind::Package);
                if is_pkg {
                    self.emit(f, format!("package body p{} is", q));
                    RK::PkgBody
                } else {
                    self.emit(f, format!("architecture a{} of e{} is", u.uid, q));
                    RK::Arch
                }
            }
        };
        self.items(f, u, top, &u.body);
    }
}
fn render(p: &Program, libname: &dyn Fn(u32) -> String) -> Rendered {
    let mut r = Renderer {
        prog: p,
        types: collect_types(p),
        libname: Box::new(libname),
        lines: vec![],
        decls: HashMap::new(),
        sites: vec![],
        libs: vec![],
        counter: 0,
    };
    for u in p {
        r.unit(u);
    }
    let files = r
        .libs
        .iter()
        .zip(r.lines.iter())
        .map(|(l, ls)| (*l, ls.join("\n") + "\n"))
        .collect();
    Rendered { files, decls: r.decls, sites: r.sites }
}

// ------------------------------------------------------------------------------------------------
// generator
// ------------------------------------------------------------------------------------------------
struct Gen {
    r: Rng,
    next_id: u32,
    next_sid: u32,
    next_ty: u32,
    /// exclusion of the equal-profile corner: (des, param, result) of every package subprogram
    pkg_profiles: Vec<(u32, Ty, Ty)>,
    /// user types declared so far: (ty, is enumeration, declaring package)
    types: Vec<(Ty, bool, u32)>,
    /// per package: names that can be used in `use p.name`
    pkg_names: HashMap<u32, Vec<u32>>,
    /// per package: declared functions (to be completed in the body)
    pkg_funcs: HashMap<u32, Vec<Ent>>,
    /// per package: every declared entity
    pkg_ents: HashMap<u32, Vec<Ent>>,
    /// entities that are probably visible at the current point (declared or used in an enclosing region);
    /// only a bias for the choice of use sites
    pool: Vec<Ent>,
    /// context declarations: uid and the entities their clauses make potentially visible
    ctxs: Vec<(u32, Vec<Ent>)>,
    deep: bool,
}
/// what a region already declares, to avoid duplicate declarations
#[derive(Default, Clone)]
struct RegionNames {
    single: Vec<u32>,
    over: Vec<(u32, Option<Ty>, Ty)>,
}
impl RegionNames {
    fn can_single(&self, d: u32) -> bool {
        !self.single.contains(&d) && !self.over.iter().any(|o| o.0 == d)
    }
    fn can_over(&self, d: u32, p: Option<Ty>, r: Ty) -> bool {
        !self.single.contains(&d) && !self.over.iter().any(|o| *o == (d, p, r))
    }
}
const VALS: [u32; 4] = [0, 1, 2, 3];
const TNAMES: [u32; 3] = [10, 11, 12];
impl Gen {
    fn id(&mut self) -> u32 {
        self.next_id += 1;
        self.next_id
    }
    fn avail(&self, t: Ty, upto_pkg: u32) -> bool {
        matches!(t, Ty::Int(0) | Ty::Oth(0)) || self.types.iter().any(|x| x.0 == t && x.2 < upto_pkg)
    }
    fn any_type(&mut self, upto_pkg: u32) -> Ty {
        let avail: Vec<Ty> = self.types.iter().filter(|t| t.2 < upto_pkg).map(|t| t.0).collect();
        let k = self.r.below(avail.len() + 3);
        match k {
            0 | 1 => T_INTEGER,
            2 => T_BOOLEAN,
            _ => avail[k - 3],
        }
    }
    fn op_param_type(&mut self, upto_pkg: u32) -> Ty {
        // operators only on BOOLEAN and enumeration types: no predefined operator competes
        let avail: Vec<Ty> = self.types.iter().filter(|t| t.2 < upto_pkg && t.1).map(|t| t.0).collect();
        let k = self.r.below(avail.len() + 1);
        if k == 0 {
            T_BOOLEAN
        } else {
            avail[k - 1]
        }
    }
    fn value_des(&mut self) -> u32 {
        *self.r.pick(&VALS)
    }
    fn arg_for(&mut self, p: Ty) -> Arg {
        match p {
            Ty::Int(_) => {
                if self.r.chance(2, 3) {
                    Arg::Univ
                } else {
                    Arg::Ty(p)
                }
            }
            _ => Arg::Ty(p),
        }
    }
    fn site(&mut self, upto_pkg: u32) -> Item {
        self.next_sid += 1;
        let sid = self.next_sid;
        if !self.pool.is_empty() && self.r.chance(7, 10) {
            // a use that fits some declaration that is probably visible here
            let e = self.pool[self.r.below(self.pool.len())].clone();
            let exact = self.r.chance(5, 6);
            if let Kind::Func(p, r) = &e.kind {
                if e.des < 20 && self.r.chance(1, 2) {
                    // a call whose actual is itself a use site: a name of the parameter's type
                    // (literal / constant) or a nested call returning it
                    let (p, r) = (*p, *r);
                    let names: Vec<Ent> = self
                        .pool
                        .iter()
                        .filter(|x| x.des < 20 && matches!(&x.kind, Kind::Lit(t) | Kind::Obj(t) if *t == p))
                        .cloned()
                        .collect();
                    let calls: Vec<Ent> = self
                        .pool
                        .iter()
                        .filter(|x| x.des < 20 && matches!(&x.kind, Kind::Func(_, rr) if *rr == p))
                        .cloned()
                        .collect();
                    let t = if exact { r } else { self.any_type(upto_pkg) };
                    let pick_call = !calls.is_empty() && (names.is_empty() || self.r.chance(1, 3));
                    if self.avail(t, upto_pkg) && (pick_call || !names.is_empty()) {
                        self.next_sid += 1;
                        let isid = self.next_sid;
                        if pick_call {
                            let g = calls[self.r.below(calls.len())].clone();
                            if let Kind::Func(gp, _) = g.kind {
                                let a = self.arg_for(gp);
                                let aok = match a {
                                    Arg::Ty(x) => self.avail(x, upto_pkg),
                                    Arg::Univ => true,
                                };
                                if aok {
                                    return Item::Site(sid, e.des, Usage::CallX(XArg::Call(isid, g.des, a), t));
                                }
                            }
                        } else {
                            let n = names[self.r.below(names.len())].clone();
                            return Item::Site(sid, e.des, Usage::CallX(XArg::Name(isid, n.des), t));
                        }
                    }
                }
            }
            let u = match &e.kind {
                Kind::Obj(t) | Kind::Lit(t) => Usage::Val(if exact { *t } else { self.any_type(upto_pkg) }),
                Kind::Func(p, r) => {
                    let a = self.arg_for(*p);
                    Usage::Call(a, if exact { *r } else { self.any_type(upto_pkg) })
                }
                Kind::Type(..) => Usage::Type,
            };
            let ok = match u {
                Usage::Val(t) => self.avail(t, upto_pkg),
                Usage::Call(a, t) => {
                    self.avail(t, upto_pkg)
                        && match a {
                            Arg::Ty(x) => self.avail(x, upto_pkg),
                            Arg::Univ => true,
                        }
                }
                Usage::Type => true,
                Usage::CallX(..) => true,
            };
            if e.des < 100 && ok {
                return Item::Site(sid, e.des, u);
            }
        }
        let k = self.r.below(100);
        if k < 30 {
            let t = self.any_type(upto_pkg);
            Item::Site(sid, self.value_des(), Usage::Val(t))
        } else if k < 40 {
            let t = self.any_type(upto_pkg);
            self.next_sid += 1;
            let isid = self.next_sid;
            let x = if self.r.chance(2, 3) { XArg::Name(isid, self.value_des()) } else { XArg::Call(isid, self.value_des(), Arg::Univ) };
            Item::Site(sid, self.value_des(), Usage::CallX(x, t))
        } else if k < 65 {
            let p = self.any_type(upto_pkg);
            let a = self.arg_for(p);
            let t = self.any_type(upto_pkg);
            Item::Site(sid, self.value_des(), Usage::Call(a, t))
        } else if k < 80 {
            let p = self.op_param_type(upto_pkg);
            let t = self.any_type(upto_pkg);
            Item::Site(sid, 20 + self.r.below(2) as u32, Usage::Call(Arg::Ty(p), t))
        } else if k < 92 {
            let d = if self.r.chance(4, 5) { *self.r.pick(&TNAMES) } else { self.value_des() };
            Item::Site(sid, d, Usage::Type)
        } else {
            // character literal in an expression (finding F23), target: an enumeration type
            let enums: Vec<Ty> = self.types.iter().filter(|t| t.2 < upto_pkg && t.1).map(|t| t.0).collect();
            let t = if enums.is_empty() { T_BOOLEAN } else { *self.r.pick(&enums) };
            Item::Site(sid, 30 + self.r.below(2) as u32, Usage::Val(t))
        }
    }
    fn use_item(&mut self, upto_pkg: u32) -> Option<Item> {
        if upto_pkg <= 1 {
            return None;
        }
        let p = 1 + self.r.below((upto_pkg - 1) as usize) as u32;
        let ents = self.pkg_ents.get(&p).cloned().unwrap_or_default();
        if self.r.chance(1, 2) {
            self.pool.extend(ents);
            Some(Item::UseAll(p))
        } else {
            let names = self.pkg_names.get(&p)?.clone();
            if names.is_empty() {
                return None;
            }
            // using a type name also brings its literals (VHDL-2019): make that frequent
            let tnames: Vec<u32> = names.iter().cloned().filter(|d| (10..20).contains(d)).collect();
            let d = if !tnames.is_empty() && self.r.chance(1, 3) { *self.r.pick(&tnames) } else { *self.r.pick(&names) };
            let mut brought: Vec<Ent> = ents.iter().filter(|e| e.des == d).cloned().collect();
            for e in ents.iter().filter(|e| e.des == d) {
                if let Kind::Type(_, lits) = &e.kind {
                    brought.extend(ents.iter().filter(|x| lits.iter().any(|l| l.0 == x.id)).cloned());
                }
            }
            self.pool.extend(brought);
            Some(Item::UseName(p, d))
        }
    }
    fn constant(&mut self, rn: &mut RegionNames, upto_pkg: u32) -> Option<Item> {
        let d = if self.r.chance(1, 6) { *self.r.pick(&TNAMES) } else { self.value_des() };
        if !rn.can_single(d) {
            return None;
        }
        rn.single.push(d);
        let t = self.any_type(upto_pkg);
        let e = Ent { id: self.id(), des: d, kind: Kind::Obj(t), declby: None };
        self.pool.push(e.clone());
        Some(Item::Decl(e))
    }
    /// a fresh function entity; in_pkg: must not repeat a profile of another package
    fn func_ent(&mut self, rn: &mut RegionNames, upto_pkg: u32, in_pkg: bool) -> Option<Ent> {
        let mut d = if self.r.chance(1, 4) { 20 + self.r.below(2) as u32 } else { self.value_des() };
        let mut p = if is_op(d) { self.op_param_type(upto_pkg) } else { self.any_type(upto_pkg) };
        let r = self.any_type(upto_pkg);
        // overloads that differ in the result type only: the context type has to single one out
        let sibs: Vec<(u32, Ty)> = rn.over.iter().filter_map(|o| o.1.map(|pp| (o.0, pp))).collect();
        if !sibs.is_empty() && self.r.chance(1, 3) {
            let (sd, sp) = sibs[self.r.below(sibs.len())];
            d = sd;
            p = sp;
        }
        if !rn.can_over(d, Some(p), r) {
            return None;
        }
        if in_pkg {
            if self.pkg_profiles.contains(&(d, p, r)) {
                return None;
            }
            self.pkg_profiles.push((d, p, r));
        }
        rn.over.push((d, Some(p), r));
        Some(Ent { id: self.id(), des: d, kind: Kind::Func(p, r), declby: None })
    }
    fn param(&mut self, p: Ty) -> Ent {
        let d = if self.r.chance(2, 5) { self.value_des() } else { 9 };
        Ent { id: self.id(), des: d, kind: Kind::Obj(p), declby: None }
    }
    /// a function body with its own small declarative part; f must be a Func entity
    fn fun_body(&mut self, f: Ent, upto_pkg: u32, depth: u32, out: &mut Vec<Item>) {
        let p = match &f.kind {
            Kind::Func(p, _) => *p,
            _ => T_INTEGER,
        };
        let pe = self.param(p);
        let mut rn = RegionNames::default();
        rn.single.push(pe.des);
        let fdes = f.des;
        self.pool.push(f.clone());
        let mark = self.pool.len();
        self.pool.push(pe.clone());
        out.push(Item::OpenFun(f, pe));
        let n = self.r.below(4);
        for _ in 0..n {
            if self.r.chance(1, 4) && !is_op(fdes) {
                // recursive call
                self.next_sid += 1;
                let a = self.arg_for(p);
                let t = self.any_type(upto_pkg);
                out.push(Item::Site(self.next_sid, fdes, Usage::Call(a, t)));
            } else {
                self.decl_item(&mut rn, upto_pkg, depth + 1, false, out);
            }
        }
        self.pool.truncate(mark);
        out.push(Item::Close);
    }
    /// one declarative item (constant, function body, use clause or use site)
    fn decl_item(&mut self, rn: &mut RegionNames, upto_pkg: u32, depth: u32, in_pkg_decl: bool, out: &mut Vec<Item>) {
        let k = self.r.below(100);
        if k < 18 {
            if let Some(it) = self.constant(rn, upto_pkg) {
                out.push(it);
            }
        } else if k < 34 {
            if let Some(f) = self.func_ent(rn, upto_pkg, in_pkg_decl) {
                if in_pkg_decl {
                    self.pool.push(f.clone());
                    out.push(Item::Decl(f));
                } else if depth < if self.deep { 6 } else { 4 } {
                    self.fun_body(f, upto_pkg, depth, out);
                }
            }
        } else if k < 34 + if self.deep { 26 } else { 18 } {
            if let Some(it) = self.use_item(upto_pkg) {
                out.push(it);
            }
        } else {
            let s = self.site(upto_pkg);
            out.push(s);
        }
    }
    fn type_decl(&mut self, rn: &mut RegionNames, uid: u32, out: &mut Vec<Item>) {
        let name = *self.r.pick(&TNAMES);
        if !rn.can_single(name) {
            return;
        }
        self.next_ty += 1;
        if self.r.chance(1, 4) {
            let t = Ty::Int(self.next_ty);
            rn.single.push(name);
            out.push(Item::Decl(Ent { id: self.id(), des: name, kind: Kind::Type(t, vec![]), declby: None }));
            self.types.push((t, false, uid));
        } else {
            let t = Ty::Oth(self.next_ty);
            let mut ds = vec![100 + self.next_ty];
            for d in VALS.iter().chain([30u32, 31].iter()) {
                if self.r.chance(1, 2) {
                    ds.push(*d);
                }
            }
            // every literal must be declarable in this region
            if !ds.iter().all(|d| rn.can_over(*d, None, t)) {
                return;
            }
            rn.single.push(name);
            let mut lits = vec![];
            for d in ds.iter() {
                let id = self.id();
                rn.over.push((*d, None, t));
                lits.push((id, *d));
                let le = Ent { id, des: *d, kind: Kind::Lit(t), declby: None };
                self.pool.push(le.clone());
                out.push(Item::Decl(le));
            }
            let te = Ent { id: self.id(), des: name, kind: Kind::Type(t, lits), declby: None };
            self.pool.push(te.clone());
            out.push(Item::Decl(te));
            self.types.push((t, true, uid));
        }
        self.pkg_names.entry(uid).or_default().push(name);
    }
    fn context(&mut self, upto_pkg: u32) -> Vec<Item> {
        let mut ctx = vec![];
        let n = self.r.below(3);
        for _ in 0..n {
            if let Some(u) = self.use_item(upto_pkg) {
                ctx.push(u);
            }
        }
        // a context reference in every position relative to the use clauses; often next to a by-name use
        // clause for a designator that the context also makes visible (from another package)
        if !self.ctxs.is_empty() && self.r.chance(3, 5) {
            let (c, brought) = self.ctxs[self.r.below(self.ctxs.len())].clone();
            if !brought.is_empty() && self.r.chance(2, 3) {
                let d = brought[self.r.below(brought.len())].des;
                let others: Vec<u32> = (1..upto_pkg)
                    .filter(|p| self.pkg_names.get(p).map(|v| v.contains(&d)).unwrap_or(false))
                    .collect();
                if d < 100 && !others.is_empty() {
                    let p = others[self.r.below(others.len())];
                    let ents: Vec<Ent> =
                        self.pkg_ents.get(&p).map(|v| v.iter().filter(|e| e.des == d).cloned().collect()).unwrap_or_default();
                    self.pool.extend(ents);
                    let at = self.r.below(ctx.len() + 1);
                    ctx.insert(at, Item::UseName(p, d));
                }
            }
            let at = self.r.below(ctx.len() + 1);
            ctx.insert(at, Item::UseCtx(c));
            self.pool.extend(brought);
        }
        ctx
    }
    fn context_decl(&mut self, uid: u32, lib: u32, npkgs: u32) -> Unit {
        self.pool.clear();
        let mut body = vec![];
        if !self.ctxs.is_empty() && self.r.chance(1, 4) {
            let (c, brought) = self.ctxs[self.r.below(self.ctxs.len())].clone();
            body.push(Item::UseCtx(c));
            self.pool.extend(brought);
        }
        let n = 1 + self.r.below(3);
        for _ in 0..n {
            if let Some(u) = self.use_item(npkgs + 1) {
                body.push(u);
            }
        }
        let brought = self.pool.clone();
        self.ctxs.push((uid, brought));
        Unit { uid, kind: UKind::Context, ctx: vec![], body, lib }
    }
    fn package(&mut self, uid: u32, lib: u32) -> Unit {
        self.pool.clear();
        let ctx = self.context(uid);
        let mut body = vec![];
        let mut rn = RegionNames::default();
        let ntypes = 1 + self.r.below(2);
        for _ in 0..ntypes {
            self.type_decl(&mut rn, uid, &mut body);
        }
        let n = 2 + self.r.below(6);
        for _ in 0..n {
            self.decl_item(&mut rn, uid, 1, true, &mut body);
        }
        let mut names = self.pkg_names.remove(&uid).unwrap_or_default();
        let mut funcs = vec![];
        for it in body.iter() {
            if let Item::Decl(e) = it {
                if e.des < 100 && !names.contains(&e.des) {
                    names.push(e.des);
                }
                if let Kind::Func(..) = e.kind {
                    funcs.push(e.clone());
                }
            }
        }
        self.pkg_names.insert(uid, names);
        self.pkg_funcs.insert(uid, funcs);
        let ents: Vec<Ent> = body.iter().filter_map(|it| if let Item::Decl(e) = it { Some(e.clone()) } else { None }).collect();
        self.pkg_ents.insert(uid, ents);
        Unit { uid, kind: UKind::Package, ctx, body, lib }
    }
    fn package_body(&mut self, uid: u32, of: u32, lib: u32, npkgs: u32) -> Unit {
        self.pool = self.pkg_ents.get(&of).cloned().unwrap_or_default();
        let ctx = if self.r.chance(1, 3) { self.context(npkgs + 1) } else { vec![] };
        let mut body = vec![];
        // the region of the body continues the package's: only fresh names are declared here
        let mut rn = RegionNames::default();
        rn.single.extend(VALS.iter().chain(TNAMES.iter()).chain([20u32, 21, 30, 31].iter()));
        let funcs = self.pkg_funcs.get(&of).cloned().unwrap_or_default();
        for f in funcs {
            if self.r.chance(1, 3) {
                let s = self.site(npkgs + 1);
                body.push(s);
            }
            if self.r.chance(1, 4) {
                if let Some(u) = self.use_item(npkgs + 1) {
                    body.push(u);
                }
            }
            let fb = Ent { id: self.id(), des: f.des, kind: f.kind.clone(), declby: Some(f.id) };
            self.fun_body(fb, npkgs + 1, 1, &mut body);
        }
        let n = self.r.below(3);
        for _ in 0..n {
            let s = self.site(npkgs + 1);
            body.push(s);
        }
        let _ = &mut rn;
        Unit { uid, kind: UKind::Secondary(of), ctx, body, lib }
    }
    fn region_items(&mut self, rn: &mut RegionNames, upto_pkg: u32, depth: u32, out: &mut Vec<Item>) {
        let n = 1 + self.r.below(6);
        for _ in 0..n {
            self.decl_item(rn, upto_pkg, depth, false, out);
        }
    }
    /// one declarative region of a concurrent statement (block, generate branch / alternative, for generate)
    fn conc_region(&mut self, open: Item, upto_pkg: u32, depth: u32, nest: bool, out: &mut Vec<Item>) {
        let maxd = if self.deep { 5 } else { 3 };
        let is_for = open == Item::OpenGen(b'f');
        out.push(open);
        let mut rn = RegionNames::default();
        let mark = self.pool.len();
        if is_for {
            // the generate parameter is declared in the region of the generate statement
            let d = self.value_des();
            rn.single.push(d);
            let e = Ent { id: self.id(), des: d, kind: Kind::Obj(T_INTEGER), declby: None };
            self.pool.push(e.clone());
            out.push(Item::Decl(e));
        }
        self.region_items(&mut rn, upto_pkg, depth + 1, out);
        if nest && depth + 1 < maxd {
            self.concurrent(upto_pkg, depth + 1, out);
        }
        self.pool.truncate(mark);
        out.push(Item::Close);
    }
    fn concurrent(&mut self, upto_pkg: u32, depth: u32, out: &mut Vec<Item>) {
        let nb = self.r.below(3);
        for _ in 0..nb {
            match self.r.below(10) {
                0..=2 => {
                    out.push(Item::OpenProcess);
                    let mut rn = RegionNames::default();
                    let mark = self.pool.len();
                    self.region_items(&mut rn, upto_pkg, depth + 1, out);
                    self.pool.truncate(mark);
                    out.push(Item::Close);
                }
                3..=4 => self.conc_region(Item::OpenBlock, upto_pkg, depth, true, out),
                5..=6 => {
                    // sibling regions: the branches of an if generate
                    let nest = self.r.chance(1, 3);
                    self.conc_region(Item::OpenGen(b'i'), upto_pkg, depth, nest, out);
                    let n = self.r.below(3);
                    for _ in 0..n {
                        self.conc_region(Item::OpenGen(b'e'), upto_pkg, depth, false, out);
                    }
                    if self.r.chance(1, 2) {
                        self.conc_region(Item::OpenGen(b'l'), upto_pkg, depth, false, out);
                    }
                }
                7..=8 => {
                    // sibling regions: the alternatives of a case generate
                    let nest = self.r.chance(1, 3);
                    self.conc_region(Item::OpenGen(b'c'), upto_pkg, depth, nest, out);
                    let n = 1 + self.r.below(3);
                    for _ in 0..n {
                        self.conc_region(Item::OpenGen(b'w'), upto_pkg, depth, false, out);
                    }
                }
                _ => self.conc_region(Item::OpenGen(b'f'), upto_pkg, depth, true, out),
            }
        }
    }
    fn program(&mut self) -> Program {
        let npkgs = 2 + self.r.below(3) as u32;
        let nlibs = 1 + self.r.below(3) as u32;
        let mut prog = vec![];
        for uid in 1..=npkgs {
            let lib = self.r.below(nlibs as usize) as u32;
            prog.push(self.package(uid, lib));
        }
        let mut uid = npkgs;
        let nctx = self.r.below(3);
        for _ in 0..nctx {
            uid += 1;
            let lib = self.r.below(nlibs as usize) as u32;
            let c = self.context_decl(uid, lib, npkgs);
            prog.push(c);
        }
        for of in 1..=npkgs {
            let has_funcs = !self.pkg_funcs.get(&of).map(|v| v.is_empty()).unwrap_or(true);
            if has_funcs || self.r.chance(1, 4) {
                uid += 1;
                let lib = prog[(of - 1) as usize].lib;
                let b = self.package_body(uid, of, lib, npkgs);
                prog.push(b);
            }
        }
        let nent = 1 + self.r.below(2);
        for _ in 0..nent {
            uid += 1;
            let e = uid;
            let lib = self.r.below(nlibs as usize) as u32;
            self.pool.clear();
            let ctx = self.context(npkgs + 1);
            let mut rn = RegionNames::default();
            let mut ebody = vec![];
            if self.r.chance(1, 3) {
                self.region_items(&mut rn, npkgs + 1, 1, &mut ebody);
            }
            prog.push(Unit { uid: e, kind: UKind::Entity, ctx, body: ebody, lib });
            uid += 1;
            let actx = if self.r.chance(1, 2) { self.context(npkgs + 1) } else { vec![] };
            let mut abody = vec![];
            // the architecture continues the entity's region
            self.region_items(&mut rn, npkgs + 1, 1, &mut abody);
            self.concurrent(npkgs + 1, 1, &mut abody);
            prog.push(Unit { uid, kind: UKind::Secondary(e), ctx: actx, body: abody, lib });
        }
        prog
    }
}
fn generate(seed: u64, idx: u64, deep: bool) -> Program {
    let mut base = Rng::new(seed);
    for _ in 0..(idx % 7) {
        base.next();
    }
    let r = Rng::new(seed.wrapping_mul(1_000_003).wrapping_add(idx).wrapping_add(base.next() % 1000));
    let mut g = Gen {
        r,
        next_id: 0,
        next_sid: 0,
        next_ty: 9,
        pkg_profiles: vec![],
        types: vec![],
        pkg_names: HashMap::new(),
        pkg_funcs: HashMap::new(),
        pkg_ents: HashMap::new(),
        pool: vec![],
        ctxs: vec![],
        deep,
    };
    g.program()
}

// ------------------------------------------------------------------------------------------------
// implementation side
// ------------------------------------------------------------------------------------------------
fn new_project(dir: &Path, libs: &[(String, Vec<String>)]) -> Project {
    let mut msgs = NullMessages;
    let mut cfg = Config::default();
    cfg.load_external_config(&mut msgs, Some("/repo/vhdl_libraries".to_string()));
    let mut toml = String::from("[libraries]\n");
    for (name, files) in libs {
        writeln!(
            toml,
            "{}.files=[{}]",
            name,
            files.iter().map(|n| format!("'{}'", n)).collect::<Vec<_>>().join(",")
        )
        .unwrap();
    }
    cfg.append(&Config::from_str(&toml, dir).unwrap(), &mut msgs);
    Project::from_config(cfg, &mut msgs)
}

/// analyse a batch of programs in one Project (distinct library names per program)
fn run_batch(dir: &Path, batch: &[(usize, Program)]) -> Result<Vec<String>, String> {
    std::fs::create_dir_all(dir).map_err(|e| e.to_string())?;
    let mut libs: Vec<(String, Vec<String>)> = vec![];
    let mut rendered = vec![];
    for (idx, p) in batch {
        let idx = *idx;
        let r = render(p, &move |l| format!("q{idx}lib{l}"));
        let mut paths = vec![];
        for (l, text) in r.files.iter() {
            let fname = format!("q{idx}_{l}.vhd");
            std::fs::write(dir.join(&fname), text).map_err(|e| e.to_string())?;
            libs.push((format!("q{idx}lib{l}"), vec![fname.clone()]));
            paths.push(dir.join(&fname));
        }
        rendered.push((r, paths));
    }
    let res = catch_unwind(AssertUnwindSafe(|| {
        let mut project = new_project(dir, &libs);
        let diags = project.analyse();
        let sm = SeverityMap::default();
        let mut out = vec![];
        for (r, paths) in rendered.iter() {
            let canon: Vec<PathBuf> = paths.iter().map(|p| std::fs::canonicalize(p).unwrap_or(p.clone())).collect();
            let file_index = |fname: &Path| -> Option<usize> {
                canon.iter().position(|p| p == fname).or_else(|| paths.iter().position(|p| p == fname))
            };
            // error diagnostics per (file, line)
            let mut errs: HashMap<(usize, u32), Vec<(String, bool)>> = HashMap::new();
            for d in diags.iter() {
                if sm[d.code] != Some(Severity::Error) {
                    continue;
                }
                if let Some(fi) = file_index(d.pos.source.file_name()) {
                    errs.entry((fi, d.pos.range.start.line))
                        .or_default()
                        .push((format!("{:?}", d.code), d.message.starts_with("No declaration of")));
                }
            }
            let mut line = String::new();
            let mut site_lines = vec![];
            for (sid, fi, l, c) in r.sites.iter() {
                site_lines.push((*fi, *l));
                let src = project.get_source(&paths[*fi]).expect("source");
                let target = match project
                    .find_declaration(&src, Position::new(*l, *c))
                    .and_then(|e| e.decl_pos().cloned())
                {
                    None => "-".to_string(),
                    Some(pos) => match file_index(pos.source.file_name()) {
                        None => "EXT".to_string(),
                        Some(dfi) => match r.decls.get(&(dfi, pos.range.start.line, pos.range.start.character)) {
                            Some(id) => id.to_string(),
                            None => format!("POS{}.{}.{}", dfi, pos.range.start.line, pos.range.start.character),
                        },
                    },
                };
                let (class, codes) = match errs.get(&(*fi, *l)) {
                    None => ("OK", String::new()),
                    Some(v) => {
                        let codes = v.iter().map(|x| x.0.clone()).collect::<Vec<_>>().join("+");
                        if v.iter().any(|x| x.0 == "ConflictingUseClause") {
                            ("CONFLICT", codes)
                        } else if v.iter().any(|x| x.0 == "Unresolved" && x.1) {
                            ("UNDECL", codes)
                        } else {
                            ("ERROR", codes)
                        }
                    }
                };
                write!(line, "{sid}:{target}:{class}:{codes} ").unwrap();
            }
            line.push(';');
            let mut extra: Vec<String> = errs
                .iter()
                .filter(|(k, _)| !site_lines.contains(k))
                .map(|(k, v)| format!("{}.{}.{}", k.0, k.1, v.iter().map(|x| x.0.clone()).collect::<Vec<_>>().join("+")))
                .collect();
            extra.sort();
            line.push_str(&extra.join(" "));
            out.push(line);
        }
        out
    }));
    res.map_err(|_| "PANIC".to_string())
}

fn run_all(workdir: &Path, progs: Vec<Program>, batch_size: usize) -> Vec<String> {
    let n = progs.len();
    let indexed: Vec<(usize, Program)> = progs.into_iter().enumerate().collect();
    let batches: Vec<Vec<(usize, Program)>> = indexed.chunks(batch_size).map(|c| c.to_vec()).collect();
    let results = std::sync::Mutex::new(vec![String::new(); n]);
    let next = std::sync::atomic::AtomicUsize::new(0);
    let threads = std::thread::available_parallelism().map(|x| x.get()).unwrap_or(4).min(16);
    std::thread::scope(|s| {
        for _ in 0..threads {
            s.spawn(|| loop {
                let b = next.fetch_add(1, std::sync::atomic::Ordering::SeqCst);
                if b >= batches.len() {
                    break;
                }
                let dir = workdir.join(format!("b{b}"));
                let _ = std::fs::remove_dir_all(&dir);
                let outs = match run_batch(&dir, &batches[b]) {
                    Ok(o) => o,
                    Err(_) => {
                        // isolate the panicking program
                        let mut o = vec![];
                        for (k, one) in batches[b].iter().enumerate() {
                            let d1 = workdir.join(format!("b{b}_{k}"));
                            let _ = std::fs::remove_dir_all(&d1);
                            match run_batch(&d1, std::slice::from_ref(one)) {
                                Ok(mut x) => o.push(x.pop().unwrap_or_default()),
                                Err(e) => o.push(format!(";{e}")),
                            }
                        }
                        o
                    }
                };
                let mut r = results.lock().unwrap();
                for ((idx, _), line) in batches[b].iter().zip(outs) {
                    r[*idx] = line;
                }
            });
        }
    });
    results.into_inner().unwrap()
}


// ------------------------------------------------------------------------------------------------
// template stream: generics (type + subprogram generics) and aliases (implicit aliases, LRM 6.6.3)
// ------------------------------------------------------------------------------------------------
// These constructs are outside the Coq family.  Each template instance is a small randomised VHDL
// project together with HAND-COMPUTED expectations: for every use site the set of acceptable
// go-to-declaration targets (or "an error is reported on this line"), derived from the LRM by the
// template itself (the overload whose profile is the formal's profile after substituting the type
// actuals; an implicit operator alias is a declaration of the alias's region and hides use-visible
// homographs), not from the implementation.
struct TDoc {
    lib: String,
    lines: Vec<String>,
}
impl TDoc {
    fn add(&mut self, s: String) -> u32 {
        self.lines.push(s);
        (self.lines.len() - 1) as u32
    }
}
struct TSite {
    label: String,
    file: usize,
    line: u32,
    col: u32,
    accept: Vec<(usize, u32, u32)>,
    error: bool,
}
struct TCase {
    docs: Vec<TDoc>,
    sites: Vec<TSite>,
    /// lines on which an error diagnostic is expected although they hold no queried site
    error_lines: Vec<(usize, u32)>,
}
fn col_of(line: &str, needle: &str, occurrence: usize) -> u32 {
    let mut start = 0;
    let mut found = 0;
    for _ in 0..occurrence {
        found = line[start..].find(needle).map(|i| i + start).unwrap_or(0);
        start = found + needle.len();
    }
    found as u32
}

/// the two documents are built apart (file 0 and file 1); in a single-library instance the second
/// one is appended to the first
fn merge_docs(two: bool, a: TDoc, b: TDoc, sites: &mut [TSite], error_lines: &mut [(usize, u32)]) -> Vec<TDoc> {
    if two {
        return vec![a, b];
    }
    let mut m = a;
    let off = m.lines.len() as u32;
    m.lines.extend(b.lines);
    for s in sites.iter_mut() {
        if s.file == 1 {
            s.file = 0;
            s.line += off;
        }
        for acc in s.accept.iter_mut() {
            if acc.0 == 1 {
                acc.0 = 0;
                acc.1 += off;
            }
        }
    }
    for e in error_lines.iter_mut() {
        if e.0 == 1 {
            e.0 = 0;
            e.1 += off;
        }
    }
    vec![m]
}

/// (a) a generic package / generic function with a type generic and subprogram generics whose profile
/// mentions the type generic; instantiated with overloaded actuals
fn template_generics(r: &mut Rng, la: &str, lb: &str) -> TCase {
    let two = la != lb;
    let mut a = TDoc { lib: la.to_string(), lines: vec![] };
    let mut b = TDoc { lib: lb.to_string(), lines: vec![] };
    let fb = 1;
    let mut sites = vec![];
    let mut error_lines = vec![];
    // result types the overloads differ in
    let all_res = ["bit", "boolean", "character", "integer", "severity_level"];
    let mut res: Vec<&str> = vec![];
    while res.len() < 2 + r.below(3) {
        let t = all_res[r.below(all_res.len())];
        if !res.contains(&t) {
            res.push(t);
        }
    }
    let par = if r.chance(1, 2) { "integer" } else { "boolean" };
    let other_par = if par == "integer" { "boolean" } else { "integer" };
    let with_show = r.chance(1, 2);
    let name = if r.chance(1, 2) { "conv" } else { "make" };
    // generic package
    a.add("package gpkg is".to_string());
    a.add("generic (".to_string());
    let l_elem = a.add("type elem_t;".to_string());
    let l_fconv = a.add(format!("function {name}(value : {par}) return elem_t{}", if with_show { ";" } else { "" }));
    let l_fshow = if with_show { a.add("function show(value : elem_t) return integer".to_string()) } else { 0 };
    a.add(");".to_string());
    a.add(format!("constant first : elem_t := {name}({});", if par == "integer" { "0" } else { "true" }));
    a.add("end package;".to_string());
    // generic function
    let with_gf = r.chance(1, 2);
    if with_gf {
        a.add("package gfp is".to_string());
        a.add(format!("function gf generic (type t; function f(x : {par}) return t) (v : {par}) return t;"));
        a.add("end package;".to_string());
        a.add("package body gfp is".to_string());
        a.add(format!("function gf generic (type t; function f(x : {par}) return t) (v : {par}) return t is"));
        a.add("begin".to_string());
        a.add("return f(v);".to_string());
        a.add("end function;".to_string());
        a.add("end package body;".to_string());
    }
    // overloads: some in a package that is only use-visible, some declared directly
    let aref = |r: &mut Rng| if !two && r.chance(1, 2) { "work".to_string() } else { la.to_string() };
    let mut decl_pos: HashMap<(String, String, String), (usize, u32, u32)> = HashMap::new(); // (name, par, res) -> pos
    let mut in_used: Vec<bool> = vec![];
    for _ in res.iter() {
        in_used.push(r.chance(1, 2));
    }
    b.add("package ov is".to_string());
    let mut bodies: Vec<String> = vec![];
    for (k, t) in res.iter().enumerate() {
        if in_used[k] {
            let l = b.add(format!("function {name}(value : {par}) return {t};"));
            decl_pos.insert((name.to_string(), par.to_string(), t.to_string()), (fb, l, 9));
            bodies.push(format!("function {name}(value : {par}) return {t} is begin return {t}'low; end function;"));
            if with_show {
                let l = b.add(format!("function show(value : {t}) return integer;"));
                decl_pos.insert(("show".to_string(), t.to_string(), "integer".to_string()), (fb, l, 9));
                bodies.push(format!("function show(value : {t}) return integer is begin return 0; end function;"));
            }
        }
    }
    b.add("end package;".to_string());
    b.add("package body ov is".to_string());
    for x in bodies.drain(..) {
        b.add(x);
    }
    b.add("end package body;".to_string());
    let lref = if r.chance(1, 2) { "work".to_string() } else { lb.to_string() };
    b.add(if two { format!("library {la}, {lb};") } else { format!("library {la};") });
    b.add(format!("use {lref}.ov.all;"));
    b.add("package user is".to_string());
    for (k, t) in res.iter().enumerate() {
        if !in_used[k] {
            let l = b.add(format!("function {name}(value : {par}) return {t};"));
            decl_pos.insert((name.to_string(), par.to_string(), t.to_string()), (fb, l, 9));
            bodies.push(format!("function {name}(value : {par}) return {t} is begin return {t}'low; end function;"));
            if with_show {
                let l = b.add(format!("function show(value : {t}) return integer;"));
                decl_pos.insert(("show".to_string(), t.to_string(), "integer".to_string()), (fb, l, 9));
                bodies.push(format!("function show(value : {t}) return integer is begin return 0; end function;"));
            }
        }
    }
    // a decoy that differs in the parameter type
    if r.chance(1, 2) {
        b.add(format!("function {name}(value : {other_par}) return {};", res[0]));
        bodies.push(format!("function {name}(value : {other_par}) return {} is begin return {}'low; end function;", res[0], res[0]));
    }
    // instantiations
    let ninst = 1 + r.below(res.len());
    for k in 0..ninst {
        let t = res[(k + r.below(res.len())) % res.len()];
        let exp_conv = decl_pos[&(name.to_string(), par.to_string(), t.to_string())];
        let named = r.chance(2, 3);
        let ar = aref(r);
        if named {
            let text = if with_show {
                format!("package i{k} is new {ar}.gpkg generic map (elem_t => {t}, {name} => {name}, show => show);")
            } else {
                format!("package i{k} is new {ar}.gpkg generic map (elem_t => {t}, {name} => {name});")
            };
            let l = b.add(text.clone());
            let gm = text.find("generic map").unwrap();
            let rel = |needle: &str, occ: usize| gm as u32 + col_of(&text[gm..], needle, occ);
            sites.push(TSite { label: format!("formal type generic elem_t"), file: fb, line: l, col: rel("elem_t", 1), accept: vec![(0, l_elem, 5)], error: false });
            sites.push(TSite { label: format!("formal subprogram generic {name}"), file: fb, line: l, col: rel(name, 1), accept: vec![(0, l_fconv, 9)], error: false });
            sites.push(TSite { label: format!("actual {name} for [{par} return elem_t := {t}]"), file: fb, line: l, col: rel(name, 2), accept: vec![exp_conv], error: false });
            if with_show {
                let exp_show = decl_pos[&("show".to_string(), t.to_string(), "integer".to_string())];
                sites.push(TSite { label: format!("formal subprogram generic show"), file: fb, line: l, col: rel("show", 1), accept: vec![(0, l_fshow, 9)], error: false });
                sites.push(TSite { label: format!("actual show for [elem_t := {t} return integer]"), file: fb, line: l, col: rel("show", 2), accept: vec![exp_show], error: false });
            }
        } else {
            let text = if with_show {
                format!("package i{k} is new {ar}.gpkg generic map ({t}, {name}, show);")
            } else {
                format!("package i{k} is new {ar}.gpkg generic map ({t}, {name});")
            };
            let l = b.add(text.clone());
            let gm = text.find("generic map").unwrap();
            let rel = |needle: &str, occ: usize| gm as u32 + col_of(&text[gm..], needle, occ);
            sites.push(TSite { label: format!("positional actual {name} for [{par} return elem_t := {t}]"), file: fb, line: l, col: rel(&format!(", {name}"), 1) + 2, accept: vec![exp_conv], error: false });
            if with_show {
                let exp_show = decl_pos[&("show".to_string(), t.to_string(), "integer".to_string())];
                sites.push(TSite { label: format!("positional actual show for [elem_t := {t} return integer]"), file: fb, line: l, col: rel(", show", 1) + 2, accept: vec![exp_show], error: false });
            }
        }
        if with_gf {
            let text = format!("function fi{k} is new {ar}.gfp.gf generic map (t => {t}, f => {name});");
            let l = b.add(text.clone());
            let gm = text.find("generic map").unwrap();
            sites.push(TSite { label: format!("actual {name} of a function instantiation for [{par} return t := {t}]"), file: fb, line: l, col: gm as u32 + col_of(&text[gm..], name, 1), accept: vec![exp_conv], error: false });
        }
    }
    // no overload has the mapped result type: an error, no reference
    if r.chance(1, 3) {
        let ar = aref(r);
        let text = format!("package ibad is new {ar}.gpkg generic map (elem_t => real, {name} => {name}{});", if with_show { ", show => show" } else { "" });
        let l = b.add(text.clone());
        let gm = text.find("generic map").unwrap();
        sites.push(TSite { label: format!("actual {name} without a matching overload"), file: fb, line: l, col: gm as u32 + col_of(&text[gm..], name, 2), accept: vec![], error: true });
        let _ = &mut error_lines;
    }
    b.add("end package;".to_string());
    b.add("package body user is".to_string());
    for x in bodies.drain(..) {
        b.add(x);
    }
    b.add("end package body;".to_string());
    let docs = merge_docs(two, a, b, &mut sites, &mut error_lines);
    TCase { docs, sites, error_lines }
}


/// (b) aliases: type aliases of integer / array / record / enumeration types declared in another package and
/// used through the alias only (their operators, to_string and literals are implicitly aliased in the region
/// of the alias, LRM 6.6.3, and hide use-visible homographs), object aliases, subprogram aliases with signature
fn template_aliases(r: &mut Rng, la: &str, lb: &str) -> TCase {
    let two = la != lb;
    let mut a = TDoc { lib: la.to_string(), lines: vec![] };
    let mut b = TDoc { lib: lb.to_string(), lines: vec![] };
    let mut sites: Vec<TSite> = vec![];
    let mut error_lines = vec![];
    let pk = if !two && r.chance(1, 2) { "work".to_string() } else { la.to_string() };
    a.add("package pk is".to_string());
    let l_index = a.add("type index_t is range 0 to 15;".to_string());
    let l_word = a.add("type word_t is array (natural range <>) of bit;".to_string());
    let l_pair = a.add("type pair_t is record".to_string());
    a.add("a : natural;".to_string());
    a.add("b : natural;".to_string());
    a.add("end record;".to_string());
    let l_color = a.add("type color_t is (red, green, blue);".to_string());
    a.add("constant kc : index_t := 1;".to_string());
    let l_double = a.add("function double(v : index_t) return index_t;".to_string());
    a.add("end package;".to_string());
    a.add("package body pk is".to_string());
    a.add("function double(v : index_t) return index_t is begin return v; end function;".to_string());
    a.add("end package body;".to_string());
    // use-visible explicit homographs of the predefined operators
    let with_ops = r.chance(2, 3);
    let ops_plus = with_ops && r.chance(2, 3);
    let ops_amp = with_ops && r.chance(1, 2);
    let ops_eq = with_ops && r.chance(1, 2);
    let ops_lt = with_ops && r.chance(1, 2);
    let ops_double = with_ops && r.chance(1, 2);
    let mut l_ops_double = 0;
    if with_ops {
        let wk = if r.chance(1, 2) { "work".to_string() } else { la.to_string() };
        a.add(format!("library {la};"));
        a.add("package ops is".to_string());
        let mut bodies = vec![];
        if ops_plus {
            a.add(format!("function \"+\"(l, r : {wk}.pk.index_t) return {wk}.pk.index_t;"));
            bodies.push(format!("function \"+\"(l, r : {wk}.pk.index_t) return {wk}.pk.index_t is begin return l; end function;"));
        }
        if ops_amp {
            a.add(format!("function \"&\"(l, r : {wk}.pk.word_t) return {wk}.pk.word_t;"));
            bodies.push(format!("function \"&\"(l, r : {wk}.pk.word_t) return {wk}.pk.word_t is begin return l; end function;"));
        }
        if ops_eq {
            a.add(format!("function \"/=\"(l, r : {wk}.pk.pair_t) return boolean;"));
            bodies.push(format!("function \"/=\"(l, r : {wk}.pk.pair_t) return boolean is begin return true; end function;"));
        }
        if ops_lt {
            a.add(format!("function \"<\"(l, r : {wk}.pk.color_t) return boolean;"));
            bodies.push(format!("function \"<\"(l, r : {wk}.pk.color_t) return boolean is begin return true; end function;"));
        }
        if ops_double {
            l_ops_double = a.add(format!("function double(v : {wk}.pk.index_t) return {wk}.pk.index_t;"));
            bodies.push(format!("function double(v : {wk}.pk.index_t) return {wk}.pk.index_t is begin return v; end function;"));
        }
        a.add("end package;".to_string());
        a.add("package body ops is".to_string());
        for x in bodies {
            a.add(x);
        }
        a.add("end package body;".to_string());
    }
    // the region with the aliases: a package or an architecture (optionally inside a block)
    let used = with_ops && r.chance(3, 4);
    let region = r.below(3);
    b.add(format!("library {la};"));
    if used {
        b.add(format!("use {pk}.ops.all;"));
    }
    match region {
        0 => {
            b.add("package user is".to_string());
        }
        _ => {
            b.add("entity e is".to_string());
            b.add("end entity;".to_string());
            b.add(format!("library {la};"));
            if used {
                b.add(format!("use {pk}.ops.all;"));
            }
            b.add("architecture arch of e is".to_string());
            if region == 2 {
                b.add("begin".to_string());
                b.add("blk : block".to_string());
            }
        }
    }
    let al_index = r.chance(4, 5);
    let al_word = r.chance(1, 2);
    let al_pair = r.chance(1, 2);
    let al_color = r.chance(1, 2);
    let al_obj = al_index && r.chance(1, 2);
    let al_sub = al_index && r.chance(1, 2);
    let al_sub_same_name = al_sub && r.chance(1, 2);
    let mut p_idx = (1, 0, 6);
    let mut p_vec = (1, 0, 6);
    let mut p_rec = (1, 0, 6);
    let mut p_col = (1, 0, 6);
    let mut p_obj = (1, 0, 6);
    let mut p_sub = (1, 0, 6);
    if al_index {
        p_idx.1 = b.add(format!("alias idx_t is {pk}.pk.index_t;"));
    }
    if al_word {
        p_vec.1 = b.add(format!("alias vec_t is {pk}.pk.word_t;"));
    }
    if al_pair {
        p_rec.1 = b.add(format!("alias rec_t is {pk}.pk.pair_t;"));
    }
    if al_color {
        p_col.1 = b.add(format!("alias col_t is {pk}.pk.color_t;"));
    }
    if al_obj {
        p_obj.1 = b.add(format!("alias ka is {pk}.pk.kc;"));
    }
    let sub_name = if al_sub_same_name { "double" } else { "dbl" };
    if al_sub {
        p_sub.1 = b.add(format!("alias {sub_name} is {pk}.pk.double[{pk}.pk.index_t return {pk}.pk.index_t];"));
    }
    let mut site = |b: &mut TDoc, text: String, needle: &str, occ: usize, label: &str, accept: Vec<(usize, u32, u32)>, error: bool| {
        let c = col_of(&text, needle, occ);
        let l = b.add(text);
        sites.push(TSite { label: label.to_string(), file: 1, line: l, col: c, accept, error });
    };
    if al_index {
        let acc = vec![p_idx, (0, l_index, 5)];
        b.add("constant i0 : idx_t := 3;".to_string());
        if al_obj {
            site(&mut b, "constant i1 : idx_t := i0 + ka;".to_string(), "+", 1, "predefined + of an aliased integer type", acc.clone(), false);
            site(&mut b, "constant i9 : idx_t := ka;".to_string(), "ka;", 1, "object alias", vec![p_obj], false);
        } else {
            site(&mut b, "constant i1 : idx_t := i0 + i0;".to_string(), "+", 1, "predefined + of an aliased integer type", acc.clone(), false);
        }
        site(&mut b, "constant i2 : boolean := i0 < i1;".to_string(), "<", 1, "predefined < of an aliased integer type", acc.clone(), false);
        site(&mut b, "constant i3 : idx_t := i0 * i1;".to_string(), "*", 1, "predefined * of an aliased integer type", acc.clone(), false);
        site(&mut b, "constant i4 : string := to_string(i0);".to_string(), "to_string", 1, "implicit to_string of an aliased integer type", acc.clone(), false);
        if al_sub {
            site(&mut b, format!("constant i5 : idx_t := {sub_name}(i0);"), &format!("{sub_name}("), 1, "subprogram alias with signature", vec![p_sub], false);
        }
        if !al_sub_same_name {
            if used && ops_double {
                site(&mut b, "constant i6 : idx_t := double(i0);".to_string(), "double(", 1, "use-visible function without a direct homograph", vec![(0, l_ops_double, 9)], false);
            } else {
                site(&mut b, "constant i6 : idx_t := double(i0);".to_string(), "double(", 1, "function that is not visible", vec![], true);
            }
        }
    } else {
        // the type is named by selection only: its operators are not directly visible
        b.add(format!("constant n0 : {pk}.pk.index_t := 3;"));
        site(&mut b, format!("constant n1 : {pk}.pk.index_t := n0 * n0;"), "*", 1, "operator of a type that is neither used nor aliased", vec![], true);
    }
    if al_word {
        let acc = vec![p_vec, (0, l_word, 5)];
        b.add("constant w0 : vec_t(0 to 1) := \"01\";".to_string());
        site(&mut b, "constant w1 : vec_t(0 to 3) := w0 & w0;".to_string(), "&", 1, "predefined & of an aliased array type", acc.clone(), false);
        site(&mut b, "constant w2 : boolean := w0 = w1;".to_string(), "= w1", 1, "predefined = of an aliased array type", acc.clone(), false);
    }
    if al_pair {
        let acc = vec![p_rec, (0, l_pair, 5)];
        b.add("constant r0 : rec_t := (a => 1, b => 2);".to_string());
        site(&mut b, "constant r1 : boolean := r0 /= r0;".to_string(), "/=", 1, "predefined /= of an aliased record type", acc.clone(), false);
    }
    if al_color {
        let acc = vec![p_col, (0, l_color, 5)];
        let lit = vec![p_col, (0, l_color, 23)];
        site(&mut b, "constant c0 : col_t := green;".to_string(), "green", 1, "literal of an aliased enumeration type", lit, false);
        site(&mut b, "constant c1 : boolean := c0 < c0;".to_string(), "<", 1, "predefined < of an aliased enumeration type", acc.clone(), false);
    }
    match region {
        0 => {
            b.add("end package;".to_string());
        }
        1 => {
            b.add("begin".to_string());
            b.add("end architecture;".to_string());
        }
        _ => {
            b.add("begin".to_string());
            b.add("end block;".to_string());
            b.add("end architecture;".to_string());
        }
    }
    let _ = (l_double, &mut error_lines);
    let docs = merge_docs(two, a, b, &mut sites, &mut error_lines);
    TCase { docs, sites, error_lines }
}

fn template_case(seed: u64, idx: u64, prefix: &str) -> (String, TCase) {
    let mut r = Rng::new(seed.wrapping_mul(7_000_003).wrapping_add(idx).wrapping_add(0x7e3));
    let two = r.chance(1, 2);
    let la = format!("{prefix}a");
    let lb = if two { format!("{prefix}b") } else { la.clone() };
    if idx % 2 == 0 {
        ("generics".to_string(), template_generics(&mut r, &la, &lb))
    } else {
        ("aliases".to_string(), template_aliases(&mut r, &la, &lb))
    }
}

/// analyse a batch of template instances in one Project; one result line per instance:
/// `label~expected~got~class|...;extra` with expected = ERR or f.l.c/f.l.c..., got = f.l.c | - | EXT
fn run_templates(dir: &Path, seed: u64, idxs: &[u64]) -> Vec<(String, String, String)> {
    let _ = std::fs::remove_dir_all(dir);
    std::fs::create_dir_all(dir).unwrap();
    let mut libs: Vec<(String, Vec<String>)> = vec![];
    let mut cases = vec![];
    for idx in idxs {
        let (kind, tc) = template_case(seed, *idx, &format!("t{idx}"));
        let mut paths = vec![];
        for (k, d) in tc.docs.iter().enumerate() {
            let fname = format!("t{idx}_{k}.vhd");
            std::fs::write(dir.join(&fname), d.lines.join("\n") + "\n").unwrap();
            libs.push((d.lib.clone(), vec![fname.clone()]));
            paths.push(dir.join(&fname));
        }
        cases.push((*idx, kind, tc, paths));
    }
    let res = catch_unwind(AssertUnwindSafe(|| {
        let mut project = new_project(dir, &libs);
        let diags = project.analyse();
        let sm = SeverityMap::default();
        let mut out = vec![];
        for (idx, kind, tc, paths) in cases.iter() {
            let canon: Vec<PathBuf> = paths.iter().map(|p| std::fs::canonicalize(p).unwrap_or(p.clone())).collect();
            let file_index = |fname: &Path| -> Option<usize> {
                canon.iter().position(|p| p == fname).or_else(|| paths.iter().position(|p| p == fname))
            };
            let mut errs: HashMap<(usize, u32), Vec<String>> = HashMap::new();
            for d in diags.iter() {
                if sm[d.code] != Some(Severity::Error) {
                    continue;
                }
                if let Some(fi) = file_index(d.pos.source.file_name()) {
                    errs.entry((fi, d.pos.range.start.line)).or_default().push(format!("{:?}", d.code));
                }
            }
            let mut line = String::new();
            let mut site_lines = vec![];
            for s in tc.sites.iter() {
                site_lines.push((s.file, s.line));
                let src = project.get_source(&paths[s.file]).expect("source");
                let got = match project.find_declaration(&src, Position::new(s.line, s.col)).and_then(|e| e.decl_pos().cloned()) {
                    None => "-".to_string(),
                    Some(pos) => match file_index(pos.source.file_name()) {
                        None => "EXT".to_string(),
                        Some(f) => format!("{}.{}.{}", f, pos.range.start.line, pos.range.start.character),
                    },
                };
                let exp = if s.error {
                    "ERR".to_string()
                } else {
                    s.accept.iter().map(|a| format!("{}.{}.{}", a.0, a.1, a.2)).collect::<Vec<_>>().join("/")
                };
                let class = match errs.get(&(s.file, s.line)) {
                    None => "OK".to_string(),
                    Some(v) => v.join("+"),
                };
                write!(line, "{}@{}.{}.{}~{}~{}~{}|", s.label, s.file, s.line, s.col, exp, got, class).unwrap();
            }
            line.push(';');
            let mut extra: Vec<String> = errs
                .iter()
                .filter(|(k, _)| !site_lines.contains(k) && !tc.error_lines.contains(k))
                .map(|(k, v)| format!("{}.{}.{}", k.0, k.1, v.join("+")))
                .collect();
            extra.sort();
            line.push_str(&extra.join(" "));
            let vhdl = tc.docs.iter().map(|d| format!("-- library {}\n{}\n", d.lib, d.lines.join("\n"))).collect::<Vec<_>>().join("");
            out.push((format!("{kind} {seed} {idx}"), line, vhdl));
        }
        out
    }));
    match res {
        Ok(o) => o,
        Err(_) => cases.iter().map(|(idx, kind, _, _)| (format!("{kind} {seed} {idx}"), ";PANIC".to_string(), String::new())).collect(),
    }
}

fn probe(args: &[String]) {
    let dir = &args[0];
    let files: Vec<String> = args[1..].to_vec();
    let mut p = new_project(Path::new(dir), &[("lib".to_string(), files)]);
    let diags = p.analyse();
    let sm = SeverityMap::default();
    for line in std::io::stdin().lock().lines() {
        let line = line.unwrap();
        let f: Vec<&str> = line.split(' ').collect();
        if f.len() < 3 {
            continue;
        }
        let src = p.get_source(&Path::new(dir).join(f[0])).unwrap();
        let cur = Position::new(f[1].parse().unwrap(), f[2].parse().unwrap());
        match p.find_declaration(&src, cur).and_then(|e| e.decl_pos().cloned()) {
            Some(d) => println!(
                "Q {} {} {} -> {} {} {}",
                f[0],
                f[1],
                f[2],
                d.source.file_name().file_name().unwrap().to_string_lossy(),
                d.range.start.line,
                d.range.start.character
            ),
            None => println!("Q {} {} {} -> NONE", f[0], f[1], f[2]),
        }
    }
    for d in diags {
        if sm[d.code] == Some(Severity::Error) {
            println!(
                "D {} {} {} {:?} {}",
                d.pos.source.file_name().file_name().unwrap().to_string_lossy(),
                d.pos.range.start.line,
                d.pos.range.start.character,
                d.code,
                d.message
            );
        }
    }
}

fn main() {
    let args: Vec<String> = std::env::args().skip(1).collect();
    if args.is_empty() {
        eprintln!("usage: c07 <mode> <seed> <n> <workdir> <cases_out> <impl_out>");
        std::process::exit(2);
    }
    if args[0] == "probe" {
        probe(&args[1..]);
        return;
    }
    std::panic::set_hook(Box::new(|_| {}));
    let mode = args[0].clone();
    let seed: u64 = args[1].parse().unwrap();
    let n: u64 = args[2].parse().unwrap();
    let workdir = PathBuf::from(&args[3]);
    let mut progs: Vec<Program> = vec![];
    let mut lines: Vec<String> = vec![];
    if mode == "templates" || mode.starts_with("template:") {
        // template stream: `templates <seed> <n> <workdir> <cases_out> <impl_out>`; `template:<idx>` re-runs one
        // instance (and prints its VHDL as third field of the case line)
        let idxs: Vec<u64> = match mode.strip_prefix("template:") {
            Some(i) => vec![i.parse().unwrap()],
            None => (0..n).collect(),
        };
        let mut outs = vec![];
        for chunk in idxs.chunks(40) {
            outs.extend(run_templates(&workdir.join("tpl"), seed, chunk));
        }
        let mut fc = std::io::BufWriter::new(std::fs::File::create(&args[4]).unwrap());
        let mut fi = std::io::BufWriter::new(std::fs::File::create(&args[5]).unwrap());
        for (c, l, v) in outs.iter() {
            writeln!(fc, "{}\t{}", c, v.replace('\n', "\\n")).unwrap();
            writeln!(fi, "{l}").unwrap();
        }
        return;
    }
    if let Some(path) = mode.strip_prefix("file:") {
        for l in std::fs::read_to_string(path).unwrap().lines() {
            let l = l.trim();
            if l.is_empty() || l.starts_with('#') {
                continue;
            }
            match parse_program(l) {
                Ok(p) => {
                    lines.push(l.to_string());
                    progs.push(p);
                }
                Err(e) => {
                    eprintln!("bad case: {e}");
                    std::process::exit(3);
                }
            }
        }
    } else {
        let deep = mode == "deep";
        for i in 0..n {
            let p = generate(seed, i, deep);
            lines.push(ser_program(&p));
            progs.push(p);
        }
    }
    if args.len() > 6 && args[6] == "render" {
        // debugging aid: print the VHDL of every program
        for p in progs.iter() {
            let r = render(p, &|l| format!("lib{l}"));
            for (l, t) in r.files {
                println!("-- library lib{l}\n{t}");
            }
        }
        return;
    }
    let mut fc = std::io::BufWriter::new(std::fs::File::create(&args[4]).unwrap());
    for l in lines.iter() {
        writeln!(fc, "{l}").unwrap();
    }
    fc.flush().unwrap();
    std::fs::create_dir_all(&workdir).unwrap();
    let outs = run_all(&workdir, progs, 25);
    let mut fi = std::io::BufWriter::new(std::fs::File::create(&args[5]).unwrap());
    for l in outs.iter() {
        writeln!(fi, "{l}").unwrap();
    }
    fi.flush().unwrap();
}
